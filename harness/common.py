"""
Shared machinery of the checks: number encoding for the line protocol, running
the Lean driver, building and auditing the Lean project, known findings,
replays and evidence.
"""
import fcntl
import json
import math
import os
import re
import subprocess
import sys
import time
from fractions import Fraction

VERIF = os.path.dirname(os.path.dirname(os.path.abspath(__file__)))
REPO = os.environ.get("VERIF_REPO", "/repo")
LEAN = os.path.join(VERIF, "lean")
DRIVER = os.path.join(LEAN, ".lake", "build", "bin", "verifdrv")
PY = "/venv/bin/python"
ALLOWED_AXIOMS = {"propext", "Classical.choice", "Quot.sound"}
FORBIDDEN = ["sorry", "admit", "native_decide", "bv_decide", "implemented_by", "unsafe ",
             "maxHeartbeats 0"]

if REPO not in sys.path:
    sys.path.insert(0, REPO)


# ------------------------------------------------------------------ numbers
def xr(x):
    """float / numpy scalar / Fraction / int -> protocol token (exact)"""
    if x is None:
        return "-"
    if isinstance(x, Fraction):
        return "%d/%d" % (x.numerator, x.denominator) if x.denominator != 1 else "%d" % x.numerator
    if isinstance(x, bool):
        return "1" if x else "0"
    if isinstance(x, int):
        return str(x)
    try:
        import numpy as np
        if np.ma.is_masked(x):
            return "nan"
        if isinstance(x, (np.integer,)):
            return str(int(x))
        if isinstance(x, (np.bool_,)):
            return "1" if x else "0"
    except ImportError:
        pass
    x = float(x)
    if math.isnan(x):
        return "nan"
    if math.isinf(x):
        return "inf" if x > 0 else "-inf"
    n, d = x.as_integer_ratio()
    return "%d/%d" % (n, d) if d != 1 else "%d" % n


def xvec(v):
    v = list(v)
    return ",".join(xr(x) for x in v) if v else "-"


def from_xr(s):
    """protocol token -> float"""
    if s == "nan":
        return float("nan")
    if s == "inf":
        return float("inf")
    if s == "-inf":
        return float("-inf")
    if "/" in s:
        n, d = s.split("/")
        return int(n) / int(d)
    return float(int(s))


def from_xr_exact(s):
    if s in ("nan", "inf", "-inf"):
        return s
    return Fraction(s)


def from_xvec(s):
    return [] if s in ("-", "") else [from_xr(t) for t in s.split(",")]


def num_close(a, b, rtol=1e-9, atol=1e-12):
    """a, b floats; NaN equals NaN, infinities must match exactly"""
    if math.isnan(a) or math.isnan(b):
        return math.isnan(a) and math.isnan(b)
    if math.isinf(a) or math.isinf(b):
        return a == b
    return abs(a - b) <= atol + rtol * max(abs(a), abs(b))


def tokens_close(sa, sb, rtol=1e-9, atol=1e-12):
    """compare two protocol replies made of numeric tokens separated by , ; : or blanks"""
    if sa == sb:
        return True
    ta, tb = re.split(r"([,;: ])", sa), re.split(r"([,;: ])", sb)
    if len(ta) != len(tb):
        return False
    for x, y in zip(ta, tb):
        if x == y:
            continue
        try:
            if not num_close(from_xr(x), from_xr(y), rtol, atol):
                return False
        except (ValueError, ZeroDivisionError):
            return False
    return True


class Unchanged(object):
    """the arrays handed to a function of the tool must come back as they were: its callers pass the arrays the
    Data cache holds, so a function that writes into its arguments changes every later score (C05-C07, C15)"""

    def __init__(self, *arrs):
        import numpy as np
        self.arrs = [a for a in arrs if isinstance(a, np.ndarray)]
        self.copies = [a.copy() for a in self.arrs]

    def ok(self):
        import numpy as np
        return all(a.shape == c.shape and np.array_equal(a, c, equal_nan=True) for a, c in zip(self.arrs, self.copies))

    def tag(self, reply):
        return reply if self.ok() else "MUTATED-INPUT " + str(reply)


def mutated_verdict(op, impl_out):
    if isinstance(impl_out, str) and impl_out.startswith("MUTATED-INPUT"):
        return ({"kind": "input-modified", "op": op.split(" ")[0]},
                "the tool overwrote an array it was given as an argument (its callers hand it the cached arrays, so "
                "every later score on the same data changes): %s" % op[:300])
    return None


# ------------------------------------------------------------------ Lean
class BuildResult(object):
    def __init__(self):
        self.ok = True
        self.output = ""
        self.errors = []          # (file, line, message)
        self.broken = []          # names of theorems / modules that failed
        self.wall = 0.0


def _lock():
    os.makedirs(os.path.join(VERIF, "build"), exist_ok=True)
    f = open(os.path.join(VERIF, "build", ".lock"), "w")
    fcntl.flock(f, fcntl.LOCK_EX)
    return f


# ------------------------------------------------------------------ pinned copies of the generated model (DESIGN §8.8)
GEN = os.path.join(LEAN, "VerifModel", "Gen")
PINNED = os.path.join(LEAN, "pinned_gen")
GEN_FILES = {"cont.": "Cont.lean", "cmp.": "Cmp.lean", "det.": "Det.lean", "clean.": "Clean.lean",
             "opt": "OptionTable.lean", "appearance.": "Appearance.lean", "prob.": "Prob.lean",
             "dispatch.": "ClassTable.lean", "wiring.": "PlotWiring.lean",
             "axis.": "Axis.lean", "abcd.": "Abcd.lean",
             "subset.": "Subset.lean", "brier.": "Brier.lean", "texthdr.": "TextHeader.lean", "agg.": "Agg.lean", "datefilter.": "DateFilter.lean"}


def gen_files_for(prefixes):
    return [GEN_FILES[p] for p in prefixes if p in GEN_FILES]


def _read(path):
    try:
        with open(path) as f:
            return f.read()
    except IOError:
        return None


def gen_differs(names):
    """generated files whose current text is not the pinned text (the pinned text is what the translator
    produced from the pinned /repo tree; `translate.py --pin` refreshes it)"""
    return [n for n in names if _read(os.path.join(PINNED, n)) is not None
            and _read(os.path.join(GEN, n)) != _read(os.path.join(PINNED, n))]


def restore_pinned(names):
    for n in names:
        with open(os.path.join(GEN, n), "w") as f:
            f.write(_read(os.path.join(PINNED, n)))


def private_driver(tag):
    """copy of the freshly built driver that no concurrent check can rebuild under our feet"""
    global DRIVER
    if not os.path.exists(DRIVER):
        return
    d = os.path.join(VERIF, "build", "drv")
    os.makedirs(d, exist_ok=True)
    dst = os.path.join(d, "verifdrv_%s_%d" % (tag, os.getpid()))
    import shutil
    shutil.copy2(DRIVER, dst)
    DRIVER = dst


def drop_private_driver():
    if os.path.join("build", "drv") in DRIVER:
        try:
            os.remove(DRIVER)
        except OSError:
            pass


def translate():
    """regenerate Gen/*.lean from /repo; returns the translator's report dict"""
    p = subprocess.run([PY, os.path.join(VERIF, "harness", "translate.py")], capture_output=True,
                       text=True, env=dict(os.environ, VERIF_REPO=REPO))
    if p.returncode != 0:
        return {"error": p.stderr[-2000:], "untranslated": ["translator crashed"], "changed": []}
    try:
        return json.loads(p.stdout.strip().splitlines()[-1])
    except (ValueError, IndexError):
        return {"error": p.stdout[-2000:], "untranslated": ["translator output unreadable"], "changed": []}


def enclosing_decl(path, line):
    """name of the theorem/def whose text contains `line` of `path`"""
    try:
        with open(path) as f:
            lines = f.read().splitlines()
    except IOError:
        return os.path.basename(path)
    name = None
    for i, l in enumerate(lines[:line], 1):
        m = re.match(r"\s*(?:private\s+)?(?:theorem|lemma|def|example|instance|abbrev)\s+([^\s:(\[{]+)?", l)
        if m:
            name = m.group(1) or "example@%d" % i
    return name or os.path.basename(path)


def lake_build(targets, timeout=3000):
    res = BuildResult()
    t0 = time.time()
    p = subprocess.run(["lake", "build"] + list(targets), cwd=LEAN, capture_output=True, text=True,
                       timeout=timeout)
    res.wall = time.time() - t0
    res.output = p.stdout + p.stderr
    res.ok = p.returncode == 0
    for m in re.finditer(r"^error: ([^\s:]+\.lean):(\d+):(\d+): (.*)$", res.output, re.M):
        f, line, msg = m.group(1), int(m.group(2)), m.group(4)
        res.errors.append((f, line, msg))
        d = "%s:%s" % (f, enclosing_decl(os.path.join(LEAN, f), line))
        if d not in res.broken:
            res.broken.append(d)
    if not res.ok and not res.broken:
        res.broken.append("lake build failed: " + res.output[-400:])
    return res


def run_audit(prop, theorem_map):
    """theorem_map: {lean module: [fully qualified theorem names]}.  One `lean` run per module
    (a module that fails to compile must not hide the others).
    -> (per-theorem axioms dict, problems list)"""
    axioms, problems = {}, []
    for k, (module, theorems) in enumerate(sorted(theorem_map.items())):
        text = "import %s\n" % module + "".join("#print axioms %s\n" % t for t in theorems)
        path = os.path.join(LEAN, "Audit", "%s_%d.lean" % (prop, k))
        old = open(path).read() if os.path.exists(path) else None
        if old != text:
            with open(path, "w") as f:
                f.write(text)
        p = subprocess.run(["lake", "env", "lean", path], cwd=LEAN, capture_output=True, text=True,
                           timeout=1800)
        out = p.stdout + p.stderr
        found = {}
        for m in re.finditer(r"'([^']+)' depends on axioms: \[([^\]]*)\]", out, re.S):
            found[m.group(1)] = [a.strip() for a in m.group(2).replace("\n", " ").split(",") if a.strip()]
        for m in re.finditer(r"'([^']+)' does not depend on any axioms", out):
            found[m.group(1)] = []
        for t in theorems:
            if t not in found:
                problems.append("theorem %s missing (not compiled)" % t)
                continue
            axioms[t] = found[t]
            bad = [a for a in found[t] if a not in ALLOWED_AXIOMS]
            if bad:
                problems.append("theorem %s uses axioms %s" % (t, bad))
    return axioms, problems


def strip_comments(text):
    text = re.sub(r"/-.*?-/", "", text, flags=re.S)
    return re.sub(r"--.*", "", text)


def scan_forbidden():
    """textual scan of every .lean file (comments stripped) for sorry/axiom/native_decide/…"""
    hits = []
    for root, _, files in os.walk(LEAN):
        if ".lake" in root:
            continue
        for fn in files:
            if not fn.endswith(".lean"):
                continue
            p = os.path.join(root, fn)
            body = strip_comments(open(p).read())
            for w in FORBIDDEN:
                if re.search(r"(?<![A-Za-z_.])" + re.escape(w.strip()) + r"(?![A-Za-z_])", body):
                    hits.append("%s: %s" % (os.path.relpath(p, LEAN), w.strip()))
            if re.search(r"^\s*axiom\s", body, re.M):
                hits.append("%s: axiom" % os.path.relpath(p, LEAN))
    return hits


def run_driver(lines, timeout=1800):
    """feed op lines to the compiled Lean driver; returns the reply lines (or None if absent)"""
    if not os.path.exists(DRIVER):
        return None
    if not lines:
        return []
    p = subprocess.run([DRIVER], input="\n".join(lines) + "\n", capture_output=True, text=True,
                       timeout=timeout)
    out = p.stdout.splitlines()
    if len(out) != len(lines):
        out += ["ERR driver-crash"] * (len(lines) - len(out))
    return out


# ------------------------------------------------------------------ known findings
class Known(object):
    def __init__(self):
        self.entries = []
        path = os.path.join(VERIF, "known_findings.txt")
        if os.path.exists(path):
            for l in open(path):
                l = l.strip()
                m = re.match(r"known: property=(\S+) id=(\S+) match=(\{.*?\})\s+(.*)$", l)
                if m:
                    self.entries.append({"property": m.group(1), "id": m.group(2),
                                         "match": json.loads(m.group(3)), "what": m.group(4)})

    def lookup(self, prop, signature):
        for e in self.entries:
            if e["property"] == prop and all(signature.get(k) == v for k, v in e["match"].items()):
                return e
        return None
