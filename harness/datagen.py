"""
Datasets for the `data …` ops (C01–C04, C14, C18): generator, in-memory verif inputs, op encoding,
the implementation runner and an independent coordinate-based oracle.

op line:  data <cfg> <inputs> <reqs>      (format documented in lean/VerifModel/Driver/Data.lean)

Field names of an input: obs, fcst, pit, `p@<t>` (stored CDF column of threshold t: one column of the input's 4-D
threshold_scores array, in the order the names are listed), `q@<q>` (stored quantile column), `e@<k>` (ensemble member
k = 0, 1, …), any other name = an "other score" field.  The numbers are protocol tokens (common.xr).  Requests name
the same fields; cfg keys obsfield / fcstfield = Data(obs_field=…, fcst_field=…) (`-obs`, `-fcst`).
"""
import math
import random
import warnings
import numpy as np
from common import xr, xvec, from_xr, from_xvec

AXES_INDEXED = ["time", "leadtime", "leadtimeday", "location", "lat", "lon", "elev", "day", "timeofday"]
AXES_POOLED = ["no", "all", "threshold"]


# ------------------------------------------------------------------ dataset description
class DS(object):
    """plain description of a dataset: list of inputs (dicts), cfg dict"""

    def __init__(self, inputs, cfg=None):
        self.inputs = inputs      # each: {"times": [...], "leads": [...], "locs": [(id,lat,lon,elev)], "fields": {name: 3-D nested list}}
        self.cfg = cfg or {}      # keys as in the op format; "clim": True means last input is the climatology


def enc_input(I):
    locs = ";".join("%s:%s:%s:%s" % tuple(xr(v) for v in l) for l in I["locs"])
    fields = ";".join("%s=%s" % (n, xvec(np.array(a, float).flatten())) for n, a in I["fields"].items())
    return "%s|%s|%s|%s" % (xvec(I["times"]), xvec(I["leads"]), locs, fields)


def enc_cfg(cfg):
    parts = []
    for k in ("times", "leads", "dates", "tods", "l", "lx"):
        if cfg.get(k) is not None:
            parts.append("%s=%s" % (k, xvec(cfg[k]) if len(cfg[k]) else "-"))
    for k in ("lat", "lon", "elev", "obsrange"):
        if cfg.get(k) is not None:
            parts.append("%s=%s:%s" % (k, xr(cfg[k][0]), xr(cfg[k][1])))
    if cfg.get("clim"):
        parts.append("clim=1")
    if cfg.get("div"):
        parts.append("div=1")
    for k in ("obsfield", "fcstfield"):
        if cfg.get(k) is not None:
            parts.append("%s=%s" % (k, cfg[k]))
    if cfg.get("T") is not None:
        # -T pre-aggregation: (hours, aggregator name, "leadtime" | "time") = dim_agg_length / _method / _axis of Data
        parts.append("T=%s:%s:%s" % (xr(cfg["T"][0]), cfg["T"][1], cfg["T"][2]))
    return ";".join(parts) if parts else "-"


def enc_op(ds, reqs, head="data"):
    r = ";".join("%s@%d@%s@%s" % ("+".join(f), i, ax, "-" if k is None else k) for (f, i, ax, k) in reqs)
    return "%s %s %s %s" % (head, enc_cfg(ds.cfg), "#".join(enc_input(I) for I in ds.inputs), r)


def dec_op(op):
    a = op.split(" ")
    cfg = {}
    if a[1] != "-":
        for kv in a[1].split(";"):
            k, v = kv.split("=")
            if k in ("times", "leads", "dates", "tods", "l", "lx"):
                cfg[k] = from_xvec(v)
            elif k in ("lat", "lon", "elev", "obsrange"):
                lo, hi = v.split(":")
                cfg[k] = (from_xr(lo), from_xr(hi))
            elif k == "clim":
                cfg["clim"] = True
            elif k == "div":
                cfg["div"] = v == "1"
            elif k in ("obsfield", "fcstfield"):
                cfg[k] = v
            elif k == "T":
                h, agg, axis = v.split(":")
                cfg["T"] = (from_xr(h), agg, axis)
    inputs = []
    for s in a[2].split("#"):
        ts, ls, xs, fs = s.split("|")
        times, leads = from_xvec(ts), from_xvec(ls)
        locs = [tuple(from_xr(v) for v in l.split(":")) for l in xs.split(";") if l]
        fields = {}
        for f in fs.split(";"):
            if f:
                n, v = f.split("=")
                fields[n] = np.array(from_xvec(v), float).reshape(len(times), len(leads), len(locs))
        inputs.append({"times": times, "leads": leads, "locs": locs, "fields": fields})
    reqs = []
    for r in a[3].split(";"):
        if r and r != "-":
            f, i, ax, k = r.rsplit("@", 3)          # field names may contain '@' (p@<t>, q@<q>, e@<k>)
            reqs.append((f.split("+"), int(i), ax, None if k == "-" else int(k)))
    return DS(inputs, cfg), reqs


# ------------------------------------------------------------------ the real code
def mem_input(I, name):
    import verif.input
    import verif.location
    import verif.variable

    class MemInput(verif.input.Input):
        description = "in-memory input of the verification harness"

        def other_score(self, n):
            return self._other[n]

    m = MemInput()
    m.fullname = name
    m.times = np.array(I["times"], float)
    m.leadtimes = np.array(I["leads"], float)
    m.locations = [verif.location.Location(l[0], l[1], l[2], l[3]) for l in I["locs"]]
    m.variable = verif.variable.Variable("T", "C")
    f = I["fields"]
    shape = (len(I["times"]), len(I["leads"]), len(I["locs"]))
    m.obs = np.array(f["obs"], float) if "obs" in f else None
    m.fcst = np.array(f["fcst"], float) if "fcst" in f else None
    m.pit = np.array(f["pit"], float) if "pit" in f else None
    # stored CDF / quantile columns and ensemble members: the 4-D arrays of verif.input.Input, columns in the order
    # the names are listed.  Nothing stored: None (as the NetCDF reader) or a zero-width array (as the text reader).
    thr = [(from_xr(n[2:]), a) for n, a in f.items() if n.startswith("p@")]
    qs = [(from_xr(n[2:]), a) for n, a in f.items() if n.startswith("q@")]
    mem = sorted(((int(n[2:]), a) for n, a in f.items() if n.startswith("e@")), key=lambda ka: ka[0])
    assert [k for k, _ in mem] == list(range(len(mem))), "ensemble members must be e@0 … e@(m-1)"
    # (inputs with none of the three kinds keep None, as before these kinds existed in the encoding)
    empty = None if (shape[2] % 2 or not (thr or qs or mem)) else np.zeros(shape + (0,), float)

    def stack(cols):
        return np.stack([np.array(a, float).reshape(shape) for _, a in cols], axis=3) if cols else empty
    m.thresholds = np.array([t for t, _ in thr], float)
    m.quantiles = np.array([q for q, _ in qs], float)
    m.threshold_scores = stack(thr)
    m.quantile_scores = stack(qs)
    m.ensemble = stack(mem)
    m._other = {n: np.array(a, float) for n, a in f.items() if is_other(n)}
    m.other_fields = sorted(m._other)
    # optional probabilistic content (stream metric.multi): stored CDF / quantile columns [(level, 3-D array)] and
    # ensemble members (4-D array, members last); absent keys leave the input as it always was
    if I.get("thr"):
        m.thresholds = np.array([t for t, _ in I["thr"]], float)
        m.threshold_scores = np.stack([np.array(a, float) for _, a in I["thr"]], -1)
    if I.get("qnt"):
        m.quantiles = np.array([q for q, _ in I["qnt"]], float)
        m.quantile_scores = np.stack([np.array(a, float) for _, a in I["qnt"]], -1)
    if I.get("ens") is not None:
        m.ensemble = np.array(I["ens"], float)
    return m


def is_other(name):
    return name not in ("obs", "fcst", "pit") and name[:2] not in ("p@", "q@", "e@")


def build_data(ds):
    import verif.data
    ins = [mem_input(I, "in%d" % k) for k, I in enumerate(ds.inputs)]
    cfg = ds.cfg
    clim = None
    if cfg.get("clim"):
        clim = ins[-1]
        ins = ins[:-1]
    kw = {}
    if cfg.get("times") is not None:
        kw["times"] = np.array(cfg["times"], float)
    if cfg.get("leads") is not None:
        kw["leadtimes"] = np.array(cfg["leads"], float)
    if cfg.get("dates") is not None:
        import verif.util
        kw["dates"] = [verif.util.unixtime_to_date(int(t)) for t in cfg["dates"]]
    if cfg.get("tods") is not None:
        kw["tods"] = list(cfg["tods"])
    if cfg.get("l") is not None:
        kw["locations"] = list(cfg["l"])
    if cfg.get("lx") is not None:
        kw["locations_x"] = list(cfg["lx"])
    if cfg.get("lat") is not None:
        kw["lat_range"] = list(cfg["lat"])
    if cfg.get("lon") is not None:
        kw["lon_range"] = list(cfg["lon"])
    if cfg.get("elev") is not None:
        kw["elev_range"] = list(cfg["elev"])
    if cfg.get("obsrange") is not None:
        kw["obs_range"] = list(cfg["obsrange"])
    if clim is not None:
        kw["clim"] = clim
        kw["clim_type"] = "divide" if cfg.get("div") else "subtract"
    if cfg.get("obsfield") is not None:
        kw["obs_field"] = field_obj(cfg["obsfield"])
    if cfg.get("fcstfield") is not None:
        kw["fcst_field"] = field_obj(cfg["fcstfield"])
    if cfg.get("T") is not None:
        import verif.aggregator
        import verif.axis
        kw["dim_agg_length"] = cfg["T"][0]
        kw["dim_agg_method"] = verif.aggregator.get(cfg["T"][1])
        kw["dim_agg_axis"] = verif.axis.get(cfg["T"][2])
    given = list(ins)
    data = verif.data.Data(ins, **kw)
    # Data() must leave the list it was handed as it was (the driver and API users build several Data objects from
    # one list: seeded change C14e appended the climatology to the caller's list, so the next object scored it)
    if len(ins) != len(given) or any(a is not b for a, b in zip(ins, given)):
        raise CallerListModified("Data(inputs, ...) changed the caller's list of inputs: %d -> %d entries" % (len(given), len(ins)))
    if data.num_inputs != len(given) or len(data.get_names()) != len(given) or len(data.get_legend()) != len(given):
        raise ClimatologyScored("num_inputs=%d names=%d legend=%d for %d scored inputs" % (
            data.num_inputs, len(data.get_names()), len(data.get_legend()), len(given)))
    return data


class CallerListModified(Exception):
    pass


class ClimatologyScored(Exception):
    pass


def field_obj(name):
    import verif.field
    if name == "obs":
        return verif.field.Obs()
    if name == "fcst":
        return verif.field.Fcst()
    if name == "pit":
        return verif.field.Pit()
    if name.startswith("p@"):
        return verif.field.Threshold(from_xr(name[2:]))
    if name.startswith("q@"):
        return verif.field.Quantile(from_xr(name[2:]))
    if name.startswith("e@"):
        return verif.field.Ensemble(int(name[2:]))
    return verif.field.Other(name)


def axis_obj(name):
    import verif.axis
    return verif.axis.get(name)


def run_req(data, req):
    f, i, ax, k = req
    fields = [field_obj(n) for n in f]
    try:
        out = data.get_scores(fields, i, axis_obj(ax), k)
    except SystemExit:
        return "ERR"
    return ";".join(xvec(np.array(o, float).flatten()) for o in out)


def head_of(data):
    return "T=%s;L=%s;X=%s" % (xvec(data.times), xvec(data.leadtimes), xvec([l.id for l in data.locations]))


def impl_data(op):
    ds, reqs = dec_op(op)
    with warnings.catch_warnings():
        warnings.simplefilter("ignore")
        try:
            data = build_data(ds)
        except SystemExit:
            return "ERR init"
        out = [head_of(data)]
        for r in reqs:
            out.append(run_req(data, r))
            if out[-1] == "ERR":
                # an error exit ends the program: the next request goes to a new Data object (a request that stops
                # half way leaves the fields of the inputs it got through in the cache, without the cross-input
                # missing-value step; histories are C18's subject, up to the first error exit)
                data = build_data(ds)
        return " | ".join(out)


# ------------------------------------------------------------------ independent oracle (coordinates only)
def _first_index(vals, v):
    for i, x in enumerate(vals):
        if x == v:
            return i
    return None


def sem(I, name, t, l, x):
    """the value input I's own data stores for coordinates (t, l, location id x); None = no such field"""
    if name not in I["fields"]:
        return None
    it, il = _first_index(I["times"], t), _first_index(I["leads"], l)
    ix = _first_index([loc[0] for loc in I["locs"]], x)
    if it is None or il is None or ix is None:
        return float("nan")
    return float(np.array(I["fields"][name], float)[it, il, ix])


def oracle_dims(ds):
    """documented dimensions: present in every input (incl. climatology) and in the user's subset"""
    cfg = ds.cfg
    first = ds.inputs[0]

    def common(cols, user):
        s = None
        for c in cols:
            c = set(v for v in c if not math.isnan(v))
            s = c if s is None else s & c
        if user is not None:
            s = s & set(user)
        return sorted(s)

    ids = [l[0] for l in first["locs"]]
    allowed = set(ids)
    if cfg.get("lat") is not None or cfg.get("lon") is not None:
        la = cfg.get("lat") or (-math.inf, math.inf)      # only the side that was given restricts
        lo = cfg.get("lon") or (-math.inf, math.inf)
        allowed &= set(l[0] for l in first["locs"] if la[0] <= l[1] <= la[1] and lo[0] <= l[2] <= lo[1])
    if cfg.get("l") is not None:
        # without a lat/lon range the -l list is used as given (it may name ids absent from the first input)
        if cfg.get("lat") is not None or cfg.get("lon") is not None:
            allowed &= set(cfg["l"])
        else:
            allowed = set(cfg["l"])
    if (cfg.get("lat") is not None or cfg.get("lon") is not None) and not allowed:
        return None
    if cfg.get("elev") is not None:
        e = cfg["elev"]
        allowed &= set(l[0] for l in first["locs"] if e[0] <= l[3] <= e[1])
        if not allowed:
            return None
    if cfg.get("lx") is not None:
        allowed -= set(cfg["lx"])
    times = common([I["times"] for I in ds.inputs], cfg.get("times"))
    leads = common([I["leads"] for I in ds.inputs], cfg.get("leads"))
    locs = common([[l[0] for l in I["locs"]] for I in ds.inputs], allowed)
    if not times or not leads or not locs:
        return None
    if cfg.get("dates") is not None:
        times = [t for t in times if (int(t) // 86400) * 86400 in set(cfg["dates"])]
    if cfg.get("tods") is not None:
        times = [t for t in times if (int(t) % 86400) / 3600.0 in set(cfg["tods"])]
    return times, leads, locs


def _utc(t):
    import datetime
    return datetime.datetime(1970, 1, 1) + datetime.timedelta(seconds=int(t))


# calendar buckets of an initialisation time (UTC), as the -x help text names them (stream metric.multi; the bucket
# functions themselves are C11's subject)
CALENDAR_BUCKETS = {
    "month": lambda v: (_utc(v).year, _utc(v).month),
    "year": lambda v: _utc(v).year,
    "week": lambda v: (_utc(v).date() - __import__("datetime").timedelta(days=_utc(v).weekday())).toordinal(),
    "monthofyear": lambda v: _utc(v).month,
    "dayofmonth": lambda v: _utc(v).day,
}


def slice_cases(dims, ax, k):
    """documented slice: the (t, l, x) cases of slice k of axis ax, in row-major order (None = invalid index)"""
    times, leads, locs = dims

    def bucket_groups(vals, fn):
        keys = sorted(set(fn(v) for v in vals))
        if k is None or k >= len(keys):
            return None
        return [v for v in vals if fn(v) == keys[k]]

    T, L, X = times, leads, locs
    if ax in ("no", "all", "threshold", "obs", "fcst"):
        pass
    elif ax == "time":
        if k is None or k >= len(times):
            return None
        T = [times[k]]
    elif ax in ("location", "lat", "lon", "elev"):
        if k is None or k >= len(locs):
            return None
        X = [locs[k]]
    elif ax == "leadtime":
        L = bucket_groups(leads, lambda v: v)
    elif ax == "leadtimeday":
        L = bucket_groups(leads, lambda v: math.floor(v / 24.0))
    elif ax == "day":
        T = bucket_groups(times, lambda v: (int(v) // 86400) * 86400)
    elif ax == "timeofday":
        T = bucket_groups(times, lambda v: (int(v) % 86400) / 3600.0)
    elif ax in CALENDAR_BUCKETS:
        T = bucket_groups(times, CALENDAR_BUCKETS[ax])
    else:
        return None
    if T is None or L is None or X is None:
        return None
    return [(t, l, x) for t in T for l in L for x in X]


def field_name(cfg, name):
    """`-obs FIELD` / `-fcst FIELD`: the stored field that is read as the observation / the forecast"""
    if name == "obs":
        return cfg.get("obsfield") or "obs"
    if name == "fcst":
        return cfg.get("fcstfield") or "fcst"
    return name


def members_of(I):
    return len([n for n in I["fields"] if n.startswith("e@")])


def outside_domain(ds, name):
    """requests that are not the subject of the dataset checks: a CDF / quantile column that some input does not store
    but can DERIVE from its ensemble members (C08's subject).  (An ensemble member that an input does not have is the
    documented error exit "does not contain", like any other field.)"""
    n = field_name(ds.cfg, name)
    if name == "obs":
        return False        # (the observation path derives nothing: such a field cannot stand in for the observation)
    if n[:2] in ("p@", "q@"):
        return any(n not in I["fields"] and members_of(I) > 0 for I in ds.inputs)
    return False


def oracle_answer(ds, dims, req):
    """documented answer of one request (list of vectors), or 'ERR'.
    A case contributes iff every input (and the climatology) has a non-missing value for every field
    the request effectively uses, the observation is inside -obsrange, and the adjusted values are finite.
    Every field kind is a function of the coordinates (sem): stored CDF / quantile columns and ensemble members are
    looked up by name in the input that stores them, the observation / forecast are the fields named by -obs / -fcst."""
    f, i, ax, k = req
    cfg = ds.cfg
    clim = ds.inputs[-1] if cfg.get("clim") else None
    scored = ds.inputs[:-1] if clim is not None else ds.inputs
    if i >= len(scored):
        return "ERR"
    cases = slice_cases(dims, ax, k)
    if cases is None:
        return None        # index outside the axis: not part of the documented domain
    do_clim = clim is not None and ("obs" in f or "fcst" in f)
    eff = list(f) + (["fcst"] if do_clim and "fcst" not in f else [])
    if any(outside_domain(ds, name) for name in eff):
        return None
    # every input must be able to supply each field (observations may be borrowed)
    for name in eff:
        have = [field_name(cfg, name) in I["fields"] for I in ds.inputs]
        if name == "obs":
            # (a stored CDF / quantile column or an ensemble member cannot stand in for the observation)
            if not any(have) or field_name(cfg, name)[:2] in ("p@", "q@", "e@"):
                return "ERR"
        elif not all(have):
            return "ERR"

    def value(I, name, c):
        stored = field_name(cfg, name)
        if name == "obs" and stored not in I["fields"]:
            I = next(J for J in ds.inputs if stored in J["fields"])
        return sem(I, stored, *c)

    cols = [[] for _ in f]
    masked = [[] for _ in f]
    for c in cases:
        ok = True
        for name in eff:
            for I in ds.inputs:
                vv = value(I, name, c)
                if math.isnan(vv) or math.isinf(vv):      # missing data: NaN, or non-finite (> 1e30)
                    ok = False
        vals = []
        for name in f:
            v = value(scored[i], name, c)
            if name == "obs" and cfg.get("obsrange") is not None and not math.isnan(v):
                lo, hi = cfg["obsrange"]
                if v < lo or v > hi:
                    ok = False
            if do_clim and name in ("obs", "fcst"):
                cv = sem(clim, field_name(cfg, "fcst"), *c)
                with np.errstate(all="ignore"):
                    v = float(np.float64(v) / np.float64(cv)) if cfg.get("div") else v - cv
            if math.isnan(v) or math.isinf(v):
                ok = False
            vals.append(v)
        for j, v in enumerate(vals):
            masked[j].append(v if ok else float("nan"))
            if ok:
                cols[j].append(v)
    if ax == "all":
        cols = masked
    if not cols[0]:
        cols = [[float("nan")] for _ in f]
    return cols


# ------------------------------------------------------------------ generator
THR_POOL = [0.5, 1.0, 2.0]
Q_POOL = [0.1, 0.5, 0.9]


def _stored_sets(rng, pool, total, must=None):
    """per input the list of stored thresholds / quantile levels (1-3 values): the same list everywhere, the same set in
    different orders, or different sets per input (rarely none at all)"""
    base = rng.sample(pool, rng.randint(1, len(pool)))
    mode = rng.choice(["same", "order", "order", "sets", "sets"])
    out = []
    for j in range(total):
        if mode == "same":
            sel = list(base)
        elif mode == "order":
            sel = list(base)
            rng.shuffle(sel)
        else:
            sel = rng.sample(pool, rng.randint(1, len(pool)))
            if rng.random() < 0.1 and must is None:
                sel = []
        if must is not None and must not in sel:
            sel.insert(rng.randint(0, len(sel)), must)
        out.append(sel)
    return out


def gen_dataset(rng, n_inputs=None, with_clim=None, missing=None, big=False, kinds=None, force=()):
    """kinds: which additional field kinds the dataset may carry (None = chosen at random) out of
    "pit", "p" (stored CDF columns), "q" (stored quantile columns), "e" (ensemble members), "aux" (an other-score field);
    force: kinds that every input carries (with the common threshold 1 / quantile level 1/2)"""
    n = n_inputs or rng.choice([1, 2, 2, 3, 4])
    clim = with_clim if with_clim is not None else (rng.random() < 0.3)
    base = 1325376000 + rng.choice([0, 86400 * 59, 86400 * 365])   # 2012-01-01 and around leap day / new year
    tpool = [base + d * 86400 + h * 3600 for d in range(3) for h in (0, 12)]
    lpool = [0.0, 6.0, 12.0, 24.0, 30.0, 48.0]
    xpool = [(float(i), round(40 + 7.5 * i, 1), round(-30 + 60.0 * i, 1), float(100 * i)) for i in range(5)]
    # coordinate values that are close in relative terms and still different coordinates: hourly initialisations
    # (3600 s apart at 1.3e9 s) and six-digit station ids; separate random stream, so that the rest of the dataset
    # is the one the main stream gives with or without them
    rng2 = random.Random(rng.random())
    if rng2.random() < 0.3:
        tpool = [base + 82800 + h * 3600 for h in range(6)]               # 23 UTC … 04 UTC across midnight
    if rng2.random() < 0.3:
        xpool = [(float(100000 + i),) + x[1:] for i, x in enumerate(xpool)]
    if rng2.random() < 0.25:
        # two stations with the same latitude / longitude / elevation (a valley and its neighbour): the slices of
        # -x lat|lon|elev are still one per station
        k = rng2.choice([1, 2, 3])
        xpool = [x if i != 1 else x[:k] + (xpool[0][k],) + x[k + 1:] for i, x in enumerate(xpool)]
    if rng2.random() < 0.12:
        # a station whose elevation is not known (NaN in the file): it lies in no -elevrange
        xpool = [x if i != 2 else x[:3] + (float("nan"),) for i, x in enumerate(xpool)]
    # the same station with another latitude in the later files (metadata are those of the FIRST file)
    moved = rng2.randrange(len(xpool)) if rng2.random() < 0.1 else None
    pmiss = missing if missing is not None else rng.choice([0.0, 0.1, 0.3])
    total = n + (1 if clim else 0)
    # which field kinds beside obs / fcst
    rng3 = random.Random(rng.random())
    if kinds is None:
        kinds = [k for k, pr in (("pit", 0.4), ("p", 0.4), ("q", 0.3), ("e", 0.3), ("aux", 0.35)) if rng3.random() < pr]
    kinds = set(kinds) | set(force)
    thr_sets = _stored_sets(rng3, THR_POOL, total, 1.0 if "p" in force else None) if "p" in kinds else [[]] * total
    q_sets = _stored_sets(rng3, Q_POOL, total, 0.5 if "q" in force else None) if "q" in kinds else [[]] * total
    nmem = rng3.choice([1, 2, 3]) if "e" in kinds else 0
    # observations: at least one input stores them (rarely none: the documented error exit "No files have observations")
    no_obs = rng3.random() < 0.05 and "obs" not in force
    obs_keeper = rng3.randrange(total)
    inputs = []
    for j in range(total):
        def pick(pool, lo=1, hi=4):
            k = rng.randint(lo, min(hi, len(pool)))
            sel = rng.sample(pool, k)
            # make overlap likely: always keep the first pool element with high probability
            for must, pr in ((pool[0], 0.93), (pool[1], 0.7)):
                if must not in sel and rng.random() < pr:
                    free = [q for q in range(len(sel)) if sel[q] not in (pool[0], pool[1])]
                    if free:
                        sel[rng.choice(free)] = must
                    elif len(sel) < len(pool):
                        sel.append(must)
            if rng.random() < 0.6:
                sel.sort()
            return sel
        times, leads, locs = pick(tpool), pick(lpool), pick(xpool)
        if moved is not None and j >= 1:
            locs = [x if x[0] != xpool[moved][0] else (x[0], x[1] + 3.0) + x[2:] for x in locs]
        if rng.random() < 0.04 and len(times) > 1:
            times[-1] = times[0]          # repeated coordinate (warning path)
        shape = (len(times), len(leads), len(locs))
        fields = {}
        is_clim = clim and j == total - 1

        def arr(kind, r=rng):
            grid = [0.0, 0.25, 0.5, 0.75, 1.0] if kind == "p" else [0.0, 0.5, 1.0, 1.5, 2.0, 3.0, 4.5, -1.0]
            a = np.array([[[r.choice(grid) for _ in locs] for _ in leads] for _ in times], float)
            if kind == "clim" and r.random() < 0.5:
                a[a == 0.0] = 2.0
            m = np.array([[[r.random() < pmiss for _ in locs] for _ in leads] for _ in times], bool).reshape(shape)
            a[m] = np.nan
            if r.random() < 0.08:
                a[r.randrange(shape[0]), :, :] = np.nan     # a whole time missing
            if kind in ("fcst", "obs", "pit", "clim") and r.random() < 0.05:
                # a non-finite stored value (a field of any kind: it is a missing value for every input)
                a[r.randrange(shape[0]), r.randrange(shape[1]), r.randrange(shape[2])] = r.choice([np.inf, -np.inf])
            return a
        has_obs = (j == obs_keeper or rng.random() >= 0.25 or "obs" in force) and not no_obs
        a_obs = arr("obs")          # (drawn in any case: the rest of the dataset does not depend on who stores observations)
        if has_obs:
            fields["obs"] = a_obs
        fields["fcst"] = arr("clim" if is_clim else "fcst")
        if "pit" in kinds:
            fields["pit"] = np.abs(arr("pit")) / 5.0
        for t in thr_sets[j]:
            fields["p@" + xr(t)] = arr("p", rng3)
        for q in q_sets[j]:
            fields["q@" + xr(q)] = arr("q", rng3)
        # ensemble sizes may differ between the inputs (rarely no members at all)
        m_here = nmem if ("e" in force or rng3.random() < 0.7) else rng3.choice([0, 1, 2, 3])
        if "e" not in kinds:
            m_here = 0                      # a caller that excludes the kind gets no members at all
        for k in range(m_here):
            fields["e@%d" % k] = arr("e", rng3)
        if "aux" in kinds and ("aux" in force or rng3.random() < 0.9):
            fields["aux"] = arr("aux", rng3)
        inputs.append({"times": times, "leads": leads, "locs": locs, "fields": fields})
    # observations that exist agree between inputs (the situation the property describes)
    unify(inputs, "obs")
    cfg = {}
    if clim:
        cfg["clim"] = True
        cfg["div"] = rng.random() < 0.4
    return DS(inputs, cfg)


def unify(inputs, name):
    """make field `name` agree between the inputs that store it, wherever it is not missing (in place)"""
    ref = {}
    for I in inputs:
        if name in I["fields"]:
            a = I["fields"][name]
            for it, t in enumerate(I["times"]):
                for il, l in enumerate(I["leads"]):
                    for ix, x in enumerate(I["locs"]):
                        key = (t, l, x[0])
                        if not math.isnan(a[it, il, ix]):
                            if key in ref:
                                a[it, il, ix] = ref[key]
                            else:
                                ref[key] = a[it, il, ix]


def meta_agree(ds):
    """do the inputs give every station the same latitude / longitude / elevation?"""
    seen = {}
    for I in ds.inputs:
        for x in I["locs"]:
            if x[0] in seen and not all(a == b or (a != a and b != b) for a, b in zip(seen[x[0]], x[1:])):
                return False
            seen.setdefault(x[0], x[1:])
    return True


def add_field_options(ds, rng):
    """-obs FIELD / -fcst FIELD: an other-score field or the PIT read as the observation (rarely a stored CDF column:
    error exit), an other-score / PIT / stored CDF or quantile column read as the forecast.  The two never name the
    same field (the cache of the stored field would be shared between the two readings, see MERGE_NOTES)."""
    cfg = dict(ds.cfg)
    names = set(n for I in ds.inputs for n in I["fields"])
    common = set(n for n in names if all(n in I["fields"] for I in ds.inputs))
    inputs = ds.inputs
    ocand = [n for n in ("aux", "pit") if n in names] + [n for n in sorted(names) if n[:2] == "p@" and rng.random() < 0.15][:1]
    if ocand and rng.random() < 0.5:
        cfg["obsfield"] = rng.choice(ocand)
        # what is read as the observation agrees between the inputs that store it
        inputs = [dict(I, fields={k: np.array(a, float).copy() for k, a in I["fields"].items()}) for I in inputs]
        unify(inputs, cfg["obsfield"])
    cand = sorted(n for n in names if n not in ("obs", "fcst", cfg.get("obsfield")) and n[:2] != "e@"
                  and not outside_domain(ds, n) and (n in common or rng.random() < 0.2))
    if cand and (rng.random() < 0.6 or "obsfield" not in cfg):
        cfg["fcstfield"] = rng.choice(cand)
    return DS(inputs, cfg)


def request_fields(ds):
    """(names every input stores, names only some inputs store) that a request may name beside obs / fcst"""
    names = []
    for I in ds.inputs:
        for n in I["fields"]:
            if n not in ("obs", "fcst") and n not in names and n != ds.cfg.get("obsfield"):
                names.append(n)
    names = [n for n in sorted(names) if not outside_domain(ds, n)]
    common = [n for n in names if all(n in I["fields"] for I in ds.inputs)]
    return common, [n for n in names if n not in common]


def all_requests(ds, data_dims, rng, max_reqs=40):
    """requests covering field combinations, all supported axes and every slice index"""
    times, leads, locs = data_dims
    n = len(ds.inputs) - (1 if ds.cfg.get("clim") else 0)
    combos = [["obs"], ["fcst"], ["obs", "fcst"], ["fcst", "obs"]]
    common, partial = request_fields(ds)
    for x in common:
        combos += [[x], ["obs", x]] + ([["obs", "fcst", x]] if x == "pit" or rng.random() < 0.5 else [[x, "fcst"]])
    if len(common) > 1:
        combos.append(rng.sample(common, 2))
    reqs = []
    sizes = {"time": len(times), "leadtime": len(leads), "location": len(locs), "lat": len(locs),
             "lon": len(locs), "elev": len(locs),
             "leadtimeday": len(set(math.floor(l / 24.0) for l in leads)),
             "day": len(set((int(t) // 86400) for t in times)),
             "timeofday": len(set((int(t) % 86400) for t in times))}
    for i in range(n):
        for f in combos:
            for ax in AXES_POOLED:
                reqs.append((f, i, ax, None))
            for ax in AXES_INDEXED:
                for k in range(sizes[ax]):
                    reqs.append((f, i, ax, k))
    rng.shuffle(reqs)
    reqs = reqs[:max_reqs]
    # fields that some input does not store: the error exit (a few requests only)
    for x in partial[:3]:
        reqs[rng.randrange(len(reqs) + 1):0] = [(rng.choice([[x], ["fcst", x]]), rng.randrange(n), rng.choice(AXES_POOLED), None)]
    return reqs[:max(max_reqs, 1)]


# ------------------------------------------------------------------ non-interference (metamorphic, implementation only)
def impl_noninterference(op):
    """datani op: same encoding as data; the request list is evaluated on the dataset and on a copy in which
    every finite value of every field except the observations (forecast, PIT, stored CDF / quantile columns, ensemble
    members, other scores) of every OTHER scored input is changed; replies must coincide."""
    ds, reqs = dec_op(op)
    with warnings.catch_warnings():
        warnings.simplefilter("ignore")
        try:
            d0 = build_data(ds)
        except SystemExit:
            return "same"
        out = []
        n = len(ds.inputs) - (1 if ds.cfg.get("clim") else 0)
        for r in reqs:
            a0 = run_req(d0, r)
            ins2 = []
            keep = field_name(ds.cfg, "obs")        # observations are shared between the inputs: not perturbed
            for j, I in enumerate(ds.inputs):
                if j != r[1] and j < n:
                    f2 = dict(I["fields"])
                    for name in f2:
                        if name != keep:            # forecasts, PIT, stored CDF / quantile columns, members, other scores
                            a = np.array(f2[name], float).copy()
                            fin = np.isfinite(a)
                            a[fin] = a[fin] * 3 + 0.25
                            f2[name] = a
                    ins2.append(dict(I, fields=f2))
                else:
                    ins2.append(I)
            d1 = build_data(DS(ins2, ds.cfg))
            a1 = run_req(d1, r)
            out.append("same" if a0 == a1 else "diff[%s->%s]" % (a0[:80], a1[:80]))
        return "same" if all(o == "same" for o in out) else ";".join(out)


# ------------------------------------------------------------------ permutation layer (C02)
def permuted(ds, rng, rotate=True):
    """same dataset: each input's time / lead / location entries shuffled (data moved along) and the scored
    inputs given in a random order (any permutation). Returns (variant, map old input index -> new input index)."""
    n = len(ds.inputs) - (1 if ds.cfg.get("clim") else 0)
    ins = []
    for I in ds.inputs:
        pt = list(range(len(I["times"])))
        pl = list(range(len(I["leads"])))
        px = list(range(len(I["locs"])))
        rng.shuffle(pt), rng.shuffle(pl), rng.shuffle(px)
        names = list(I["fields"])
        rng.shuffle(names)          # the order of the stored CDF / quantile columns in the input's 4-D arrays
        names = [k for k in names if k[:2] != "e@"] + sorted(k for k in names if k[:2] == "e@")
        fields = {k: np.array(I["fields"][k], float)[pt][:, pl][:, :, px] for k in names}
        ins.append({"times": [I["times"][i] for i in pt], "leads": [I["leads"][i] for i in pl],
                    "locs": [I["locs"][i] for i in px], "fields": fields})
    # (location metadata are those of the first file: with conflicting metadata the file order is not free)
    free = meta_agree(ds) or not any(ds.cfg.get(k) is not None for k in ("lat", "lon", "elev"))
    # ANY order of the scored inputs (all n! orders are drawn, incl. "input 0 stays, the others swap" =
    # C02_permuted_inputs and "another input comes first" = C02_any_permutation), not only the n cyclic rotations
    order = list(range(n))                  # order[k] = old index of the input that is given at position k
    if rotate and n > 1 and free:
        rng.shuffle(order)
    scored = [ins[i] for i in order]
    mapping = {old: new for new, old in enumerate(order)}
    return DS(scored + ins[n:], dict(ds.cfg)), mapping


def with_repeated_location(ds, rng):
    """variant: one input lists one of its location ids twice (the second entry with the same metadata and other
    data); verif warns and uses the first entry.  Only for streams that do not reorder entries (NoDup)."""
    k = rng.randrange(len(ds.inputs))
    I = ds.inputs[k]
    j = rng.randrange(len(I["locs"]))
    pos = rng.randrange(j + 1, len(I["locs"]) + 1)          # the copy comes after the original
    locs = list(I["locs"])
    locs.insert(pos, I["locs"][j])
    fields = {}
    for n, a in I["fields"].items():
        a = np.array(a, float)
        col = a[:, :, j:j + 1] + 1.0          # other data under the repeated id (NaN stays NaN)
        fields[n] = np.concatenate([a[:, :, :pos], col, a[:, :, pos:]], axis=2)
    ins = list(ds.inputs)
    ins[k] = {"times": I["times"], "leads": I["leads"], "locs": locs, "fields": fields}
    return DS(ins, dict(ds.cfg))


def has_repeats(ds):
    for I in ds.inputs:
        if len(set(I["times"])) != len(I["times"]) or len(set(I["leads"])) != len(I["leads"]):
            return True
        if len(set(x[0] for x in I["locs"])) != len(I["locs"]):
            return True          # a repeated location id: the first entry is used (same warning path as times)
    return False


def impl_perm(op):
    """dataperm <seed> …: evaluate the requests on the dataset and on a permuted variant; replies must agree
    (after mapping input indices)."""
    import random
    a = op.split(" ")
    seed = int(a[1])
    ds, reqs = dec_op(" ".join(["data"] + a[2:]))
    v, mapping = permuted(ds, random.Random(seed))
    with warnings.catch_warnings():
        warnings.simplefilter("ignore")
        try:
            d0 = build_data(ds)
        except SystemExit:
            d0 = None
        try:
            d1 = build_data(v)
        except SystemExit:
            d1 = None
        if d0 is None or d1 is None:
            return "same" if (d0 is None) == (d1 is None) else "diff[init %s vs %s]" % (d0 is None, d1 is None)
        if head_of(d0) != head_of(d1):
            # location metadata comes from the first file; dimension VALUES must agree
            return "diff[dims %s vs %s]" % (head_of(d0), head_of(d1))
        out = []
        for r in reqs:
            a0 = run_req(d0, r)
            a1 = run_req(d1, (r[0], mapping[r[1]], r[2], r[3]))
            if a0 == "ERR":
                d0 = build_data(ds)          # (an error exit ends the program, see impl_data)
            if a1 == "ERR":
                d1 = build_data(v)
            out.append("same" if a0 == a1 else "diff[%s@%d@%s@%s: %s -> %s]" % ("+".join(r[0]), r[1], r[2], r[3], a0[:80], a1[:80]))
        return "same" if all(o == "same" for o in out) else ";".join(o for o in out if o != "same")


def write_text(I, path, rng):
    """one input as a verif text file: columns and rows in random order, random missing tokens"""
    cols = ["unixtime" if rng.random() < 0.5 else "date", "leadtime", "location", "lat", "lon", "altitude"]
    dcols = list(I["fields"])          # obs, fcst, pit, p<t>, q<q>, e<k>, other scores

    def header(n):
        if n[:2] in ("p@", "q@"):
            return n[0] + repr(from_xr(n[2:]))
        if n[:2] == "e@":
            return "e" + n[2:]
        return n
    if cols[0] == "date":
        cols.insert(1, "hour")
    order = cols + dcols
    rng.shuffle(order)
    import verif.util
    rows = []
    for it, t in enumerate(I["times"]):
        for il, l in enumerate(I["leads"]):
            for ix, x in enumerate(I["locs"]):
                vals = {"unixtime": "%d" % t, "leadtime": repr(l), "location": "%d" % x[0], "lat": repr(x[1]),
                        "lon": repr(x[2]), "altitude": repr(x[3])}
                if "date" in order:
                    vals["date"] = "%d" % verif.util.unixtime_to_date(int(t))
                    vals["hour"] = "%d" % ((int(t) % 86400) // 3600)
                skip = True
                for n in dcols:
                    v = float(np.array(I["fields"][n], float)[it, il, ix])
                    if math.isnan(v):
                        vals[n] = rng.choice(["-999", "nan", "NA", "-999.0"])
                    else:
                        vals[n] = repr(v)
                        skip = False
                # (every combination is written: dropping rows could remove a coordinate from the file
                #  altogether and change the dimensions; sparse files are C09's subject)
                rows.append(" ".join(vals[c] for c in order))
    rng.shuffle(rows)
    with open(path, "w") as f:
        f.write("# variable: T\n# units: C\n")
        f.write(" ".join(header(c) for c in order) + "\n")
        f.write("\n".join(rows) + "\n")


def impl_text(op):
    """datatxt <seed> …: the same requests, but every input goes through a real text file read by verif.input.Text"""
    import random
    import shutil
    import tempfile
    import verif.input
    import verif.data
    a = op.split(" ")
    rng = random.Random(int(a[1]))
    ds, reqs = dec_op(" ".join(["data"] + a[2:]))
    d = tempfile.mkdtemp(prefix="verifc02")
    try:
        with warnings.catch_warnings():
            warnings.simplefilter("ignore")
            ins = []
            for k, I in enumerate(ds.inputs):
                p = "%s/in%d.txt" % (d, k)
                write_text(I, p, rng)
                ins.append(verif.input.Text(p))
            try:
                data = verif.data.Data(ins)
            except SystemExit:
                return "ERR init"
            out = [head_of(data)]
            for r in reqs:
                out.append(run_req(data, r))
                if out[-1] == "ERR":
                    data = verif.data.Data(ins)          # (an error exit ends the program, see impl_data)
            return " | ".join(out)
    finally:
        shutil.rmtree(d, ignore_errors=True)


def add_subset_options(ds, rng):
    """the nine subsetting options, each present with probability 1/2, values around the data's own coordinates"""
    cfg = dict(ds.cfg)
    I0 = ds.inputs[0]
    alltimes = sorted(set(t for I in ds.inputs for t in I["times"]))
    allleads = sorted(set(l for I in ds.inputs for l in I["leads"]))
    ids = [l[0] for l in I0["locs"]]

    def some(vals, extra):
        k = rng.randint(max(0, len(vals) - 2), len(vals))
        out = rng.sample(vals, k) + ([extra] if rng.random() < 0.3 else [])
        rng.shuffle(out)
        if rng.random() < 0.2 and out:
            out.append(out[0])
        return out
    if rng.random() < 0.3:
        cfg["times"] = some(alltimes, alltimes[0] + 7200.0)
    if rng.random() < 0.3:
        cfg["leads"] = some(allleads, 7.0)
    if rng.random() < 0.3:
        days = sorted(set((int(t) // 86400) * 86400 for t in alltimes))
        cfg["dates"] = [float(d) for d in some(days, days[0] - 86400)]
    if rng.random() < 0.3:
        cfg["tods"] = some([0.0, 12.0], 6.0)
    if rng.random() < 0.3:
        cfg["l"] = some(ids + [9.0], 7.0)
    if rng.random() < 0.2:
        cfg["lx"] = some(ids, 7.0)
    lats = sorted(l[1] for l in I0["locs"])
    lons = sorted(l[2] for l in I0["locs"])
    elevs = sorted(l[3] for l in I0["locs"])

    def rng_range(vals):
        a, b = rng.choice(vals), rng.choice(vals)
        lo, hi = min(a, b), max(a, b)
        return (lo + rng.choice([0.0, 0.0, -0.5, 0.5]), hi + rng.choice([0.0, 0.0, 0.5, -0.5]))
    if rng.random() < 0.3:
        cfg["lat"] = rng_range(lats)
    if rng.random() < 0.3:
        cfg["lon"] = rng_range(lons)
    if rng.random() < 0.3:
        cfg["elev"] = rng_range(elevs)
    if rng.random() < 0.3:
        cfg["obsrange"] = (rng.choice([-1.0, 0.0, 0.5, 1.0]), rng.choice([1.0, 1.5, 2.0, 3.0, 4.5]))
        return with_obs_disagreement(DS(ds.inputs, cfg))
    return DS(ds.inputs, cfg)


def obs_agree(ds):
    """ObsAgree: the inputs that store observations store equal values wherever both are non-missing"""
    ref = {}
    name = field_name(ds.cfg, "obs")
    for I in ds.inputs:
        if name in I["fields"]:
            a = np.asarray(I["fields"][name], float).reshape(len(I["times"]), len(I["leads"]), len(I["locs"]))
            for it, t in enumerate(I["times"]):
                for il, l in enumerate(I["leads"]):
                    for ix, x in enumerate(I["locs"]):
                        v = a[it, il, ix]
                        if not math.isnan(v):
                            if (t, l, x[0]) in ref and ref[(t, l, x[0])] != v:
                                return False
                            ref.setdefault((t, l, x[0]), v)
    return True


def with_obs_disagreement(ds, p=0.25):
    """a dataset with -obsrange: with probability p the inputs that store their OWN observations get observations that
    DISAGREE across the ends of the (inclusive) range in common cases: inside in one file and outside in another, and
    exactly lo / exactly hi in one file against just outside in the other (files verified against differently
    quality-controlled observations; the tool never requires them to agree).  -obsrange then discards a case for an
    input iff THAT input's own observation lies outside.  The random stream is derived from the dataset itself: the
    caller's rng is not advanced, every other op line stays the one it was."""
    if ds.cfg.get("obsrange") is None or ds.cfg.get("obsfield") is not None:
        return ds
    r = random.Random("obsdisagree " + enc_op(ds, []))
    lo, hi = ds.cfg["obsrange"]
    own = [j for j, I in enumerate(ds.inputs) if "obs" in I["fields"]]
    # (about half of the datasets have two inputs with own observations and a common case: p is doubled for those, so
    #  that about a quarter of ALL datasets with an obs range carry a disagreement)
    if len(own) < 2 or r.random() >= 2 * p:
        return ds
    inputs = [dict(I, fields={k: np.array(v, float) for k, v in I["fields"].items()}) for I in ds.inputs]
    pairs = [(lo, lo - 0.5), (hi + 0.5, hi), ((lo + hi) / 2, hi + 1.0), (lo - 1.0, (lo + hi) / 2), (lo, hi), (lo - 0.5, hi + 0.5)]
    where = {}
    for j in own:
        I = inputs[j]
        for it, t in enumerate(I["times"]):
            for il, l in enumerate(I["leads"]):
                for ix, x in enumerate(I["locs"]):
                    where.setdefault((t, l, x[0]), []).append((j, it, il, ix))
    keys = sorted(k for k, v in where.items() if len(v) >= 2)
    r.shuffle(keys)
    for n, key in enumerate(keys):
        if n >= 2 and r.random() < 0.5:
            continue
        cells = list(where[key])
        r.shuffle(cells)
        a, b = pairs[n] if n < len(pairs) else r.choice(pairs)
        if r.random() < 0.5:
            a, b = b, a
        for m, (j, it, il, ix) in enumerate(cells):
            arr = inputs[j]["fields"]["obs"]
            if math.isnan(arr[it, il, ix]) and r.random() < 0.7:
                continue                      # (missing stays missing most of the time)
            arr[it, il, ix] = a if m == 0 else (b if m == 1 else r.choice([a, b]))
    return DS(inputs, dict(ds.cfg))


# ------------------------------------------------------------------ request histories (C18)
def impl_hist(op):
    """datahist …: the requests are issued one after the other on ONE Data object.  After every step all arrays
    returned so far are re-read (retroactive change), at the end every request is repeated on a freshly built
    Data (history dependence) and the inputs' arrays are compared with their initial copies."""
    parts = op.split(" ")
    consumers = None
    if parts[0] == "datahistc":
        # the real consumers of get_scores — the score classes — run between the requests: they are handed the arrays
        # the cache holds and must treat them as read-only
        import random as _random
        consumers = _random.Random(int(parts[1]))
        parts = parts[:1] + parts[2:]
    ds, reqs = dec_op(" ".join(["data"] + parts[1:]))
    with warnings.catch_warnings(), np.errstate(all="ignore"):
        warnings.simplefilter("ignore")
        try:
            ins_before = None
            data = build_data(ds)
        except SystemExit:
            return "ERR init"
        def arrays_of(I):
            out = [getattr(I, n) for n in ("obs", "fcst", "pit", "threshold_scores", "quantile_scores", "ensemble")]
            out += [I._other[n] for n in sorted(getattr(I, "_other", {}))]
            return [np.array(a, float) for a in out if a is not None]
        snapshot = [[a.copy() for a in arrays_of(I)] for I in data._inputs]
        # the array OBJECTS of the inputs (incl. the climatology), guarded as they are (shape, values): with -T on the
        # loader hands them to the pre-aggregation / the aggregators, with -T off it caches views of them
        from common import Unchanged
        guard = Unchanged(*[a for I in data._inputs for a in
                            [getattr(I, n, None) for n in ("obs", "fcst", "pit", "threshold_scores", "quantile_scores", "ensemble")]
                            + [getattr(I, "_other", {})[n] for n in sorted(getattr(I, "_other", {}))]])
        out, returned, flags = [], [], []
        for k, r in enumerate(reqs):
            f, i, ax, idx = r
            try:
                res = data.get_scores([field_obj(n) for n in f], i, axis_obj(ax), idx)
            except SystemExit:
                out.append("ERR")
                break
            returned.append((res, [np.array(a, float).copy() for a in res]))
            out.append(";".join(xvec(np.array(o, float).flatten()) for o in res))
            if consumers is not None:
                run_consumers(data, r, consumers)
            for j, (live, copy_) in enumerate(returned[:-1]):
                for a, b in zip(live, copy_):
                    if not np.array_equal(np.array(a, float), b, equal_nan=True):
                        flags.append("MUTATED@%d-by-%d" % (j, k))
        for k, r in enumerate(reqs[:len(out)]):
            if out[k] == "ERR":
                continue
            fresh = run_req(build_data(ds), r)
            if fresh != out[k]:
                flags.append("HISTORY@%d[%s vs fresh %s]" % (k, out[k][:60], fresh[:60]))
        after = [arrays_of(I) for I in data._inputs]
        for a, b in zip(snapshot, after):
            for x, y in zip(a, b):
                if not np.array_equal(x, y, equal_nan=True):
                    flags.append("INPUTMUT")
        if not guard.ok():
            flags.append("INPUTMUT")
        return " | ".join(out + sorted(set(flags)))


_CONSUMERS = None


def run_consumers(data, req, rng, count=12):
    """evaluate a few real score classes on the slice of the request just made (same input / axis / index, which is
    how the command line walks a Data object); their values are not looked at here (C05-C08 do that)"""
    global _CONSUMERS
    import verif.metric
    import verif.interval
    if _CONSUMERS is None:
        _CONSUMERS = []
        for name, cls in verif.metric.get_all():
            try:
                m = cls()
            except Exception:
                continue
            if isinstance(m, (verif.metric.ObsFcstBased, verif.metric.Contingency, verif.metric.FromField)) \
                    or name.lower() in ("pit", "pithistdev", "pithistslope", "pithistshape"):
                _CONSUMERS.append(m)
    f, i, ax, idx = req
    axis = axis_obj(ax)
    if ax == "all":
        return
    for m in rng.sample(_CONSUMERS, min(count, len(_CONSUMERS))):
        lo = rng.choice([0.0, 0.5, 1.0])
        iv = verif.interval.Interval(lo, lo + rng.choice([0.5, 1.0, 2.0]), rng.random() < 0.5, rng.random() < 0.5)
        try:
            m.compute_single(data, i, axis, idx, iv)
        except (SystemExit, Exception):      # noqa: a score that does not apply to this dataset is not the subject here
            pass


# ------------------------------------------------------------------ climatology as extra input (C14)
def impl_clim_extra(op):
    """dataclimx …: shift-invariant scores under -c K must equal those with K given as an additional input
    (first columns), and K must not appear among the scored inputs / names."""
    import verif.metric
    import verif.axis
    ds, _ = dec_op(" ".join(["data"] + op.split(" ")[1:] + ["-"]))
    with warnings.catch_warnings():
        warnings.simplefilter("ignore")
        n = len(ds.inputs) - 1
        try:
            d_clim = build_data(DS(ds.inputs, dict(ds.cfg, clim=True, div=False)))
        except SystemExit:
            d_clim = None
        try:
            d_extra = build_data(DS(ds.inputs, {k: v for k, v in ds.cfg.items() if k not in ("clim", "div")}))
        except SystemExit:
            d_extra = None
        if d_clim is None or d_extra is None:
            return "same" if (d_clim is None) == (d_extra is None) else "diff[init]"
        out = []
        if d_clim.num_inputs != n or len(d_clim.get_names()) != n or len(d_clim.get_legend()) != n:
            out.append("diff[climatology counted as scored input: %d names for %d inputs]" % (len(d_clim.get_names()), n))
        if any(nm == "in%d" % n for nm in d_clim.get_names()):
            out.append("diff[climatology in names]")
        for mname in ("mae", "rmse", "bias", "stderror"):
            m = verif.metric.get(mname)
            for ax in ("no", "leadtime", "location"):
                axis = verif.axis.get(ax)
                for i in range(n):
                    def run(d):
                        try:
                            return m.compute(d, i, axis, None)
                        except SystemExit:
                            return None
                    a, b = run(d_clim), run(d_extra)
                    if a is None or b is None:
                        # (both stop with an error message when no file has observations)
                        if (a is None) != (b is None):
                            out.append("diff[%s %s error exit with %s only]" % (mname, ax, "-c" if a is None else "the extra input"))
                        continue
                    if not np.allclose(a, b, rtol=1e-9, atol=1e-12, equal_nan=True):
                        out.append("diff[%s -x %s input %d: -c gives %s, extra input gives %s]" % (mname, ax, i, list(a), list(b)))
        return "same" if not out else ";".join(out[:4])
