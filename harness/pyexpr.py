"""
PyExpr -> Lean translator core.

Translates a small subset of Python (the subset verif's formula code is written
in) into Lean 4 terms over the model's numeric domain `XR`, `Bool`, `String`
and `Vec` (= List XR).  Anything outside the subset raises `Untranslatable`;
callers then emit a stub marked `-- untranslated:` so that the proof
obligation for that function is reported as broken instead of silently passed.

Soundness of a *successful* translation is part of the trusted base; it is
validated on every run by executing the generated definitions in the Lean
driver against the real Python functions on the same inputs.
"""
import ast
from fractions import Fraction

NUM, BOOL, STR, VEC, BVEC, OPTNUM = "num", "bool", "str", "vec", "bvec", "optnum"
CORRMAT = "corrmat"     # np.corrcoef(x, y) before it is indexed

LEAN_KEYWORDS = {
    "at", "from", "fun", "then", "else", "if", "do", "in", "let", "have", "show", "end", "def",
    "open", "where", "with", "match", "by", "this", "type", "Type", "instance", "class",
    "structure", "namespace", "section", "variable", "universe", "theorem", "example", "macro",
    "syntax", "notation", "mutual", "import", "export", "deriving", "extends", "for", "return",
    "unless", "try", "catch", "finally", "private", "protected", "partial", "unsafe", "nomatch",
    "calc", "using", "sorry", "max", "min", "id",
}


class Untranslatable(Exception):
    pass


def lname(name):
    if name in LEAN_KEYWORDS or name.startswith("_"):
        return "v_" + name.lstrip("_")
    return name


def lean_num(value):
    """An exact Lean `XR.fin` literal for a Python int/float constant."""
    if isinstance(value, bool):
        raise Untranslatable("bool used as number")
    # a float literal denotes a double: use its exact binary value (1e30 is 1000000000000000019884624838656)
    fr = Fraction(value)
    if fr.denominator == 1:
        if fr.numerator < 0:
            return "(XR.fin (%d : Rat))" % fr.numerator
        return "(XR.fin %d)" % fr.numerator
    return "(XR.fin (%d / %d : Rat))" % (fr.numerator, fr.denominator)


def const_value(node):
    """Numeric value of a constant expression (incl. unary minus and 1.0/3), else None."""
    if isinstance(node, ast.Constant) and isinstance(node.value, (int, float)) \
            and not isinstance(node.value, bool):
        return Fraction(str(node.value)) if isinstance(node.value, float) else Fraction(node.value)
    if isinstance(node, ast.UnaryOp) and isinstance(node.op, ast.USub):
        v = const_value(node.operand)
        return None if v is None else -v
    if isinstance(node, ast.BinOp):
        a, b = const_value(node.left), const_value(node.right)
        if a is None or b is None:
            return None
        if isinstance(node.op, ast.Add):
            return a + b
        if isinstance(node.op, ast.Sub):
            return a - b
        if isinstance(node.op, ast.Mult):
            return a * b
        if isinstance(node.op, ast.Div) and b != 0:
            return a / b
    return None


def is_one(node):
    return const_value(node) == 1


class Ctx(object):
    """Translation context: variable types and special names."""

    def __init__(self, vars=None, self_attrs=None, elementwise=None, agg=None, helpers=None, depth=0, ext=None):
        self.ext = ext                          # generator-specific extension: ext(node, ctx) -> (term, type) | None
        self.vars = dict(vars or {})            # python name -> type
        self.self_attrs = dict(self_attrs or {})  # attr -> (lean expr, type)
        self.elementwise = set(elementwise or [])  # names whose subscripts x[I] read as x
        self.agg = agg                          # lean expr for self.aggregator (Vec -> XR) or None
        self.helpers = dict(helpers or {})      # callable name ("_ratio", "self._is_above") -> ast.FunctionDef
        self.depth = depth                      # inlining depth

    def child(self):
        c = Ctx(self.vars, self.self_attrs, self.elementwise, self.agg, self.helpers, self.depth, self.ext)
        return c


def dotted(node):
    """np.nan -> 'np.nan', self.x -> 'self.x' (else None)"""
    if isinstance(node, ast.Name):
        return node.id
    if isinstance(node, ast.Attribute):
        b = dotted(node.value)
        return None if b is None else b + "." + node.attr
    return None


BINOPS = {ast.Add: "add", ast.Sub: "sub", ast.Mult: "mul", ast.Div: "div"}
INFIX = {"add": "+", "sub": "-", "mul": "*", "div": "/"}
CMPS = {ast.Lt: "lt", ast.LtE: "le", ast.Gt: "gt", ast.GtE: "ge", ast.Eq: "eqb", ast.NotEq: "neb"}


def tr_expr(node, ctx):
    """-> (lean term, type)"""
    if ctx.ext is not None:
        r = ctx.ext(node, ctx)
        if r is not None:
            return r
    if isinstance(node, ast.Constant):
        v = node.value
        if isinstance(v, bool):
            return ("true" if v else "false"), BOOL
        if isinstance(v, (int, float)):
            return lean_num(v), NUM
        if isinstance(v, str):
            return '"%s"' % v.replace('"', '\\"'), STR
        raise Untranslatable("constant %r" % (v,))
    if isinstance(node, ast.Name):
        if node.id in ctx.vars:
            return lname(node.id), ctx.vars[node.id]
        raise Untranslatable("unknown name %s" % node.id)
    if isinstance(node, ast.Attribute):
        d = dotted(node)
        if d in ("np.nan", "numpy.nan"):
            return "XR.nan", NUM
        if d in ("np.inf", "numpy.inf"):
            return "XR.pinf", NUM
        if d and d.startswith("self.") and d[5:] in ctx.self_attrs:
            return ctx.self_attrs[d[5:]]
        raise Untranslatable("attribute %s" % d)
    if isinstance(node, ast.UnaryOp):
        if isinstance(node.op, ast.USub):
            cv = const_value(node)
            if cv is not None:
                return lean_num(cv), NUM
            if dotted(node.operand) in ("np.inf", "numpy.inf"):
                return "XR.ninf", NUM
            e, t = tr_expr(node.operand, ctx)
            if t == NUM:
                return "(XR.neg %s)" % e, NUM
            if t == VEC:
                return "(Vec.neg %s)" % e, VEC
            raise Untranslatable("unary minus on %s" % t)
        if isinstance(node.op, ast.Not):
            e, t = tr_expr(node.operand, ctx)
            if t != BOOL:
                raise Untranslatable("not on %s" % t)
            return "(!%s)" % e, BOOL
        raise Untranslatable("unary op")
    if isinstance(node, ast.BinOp):
        return tr_binop(node, ctx)
    if isinstance(node, ast.BoolOp):
        parts = [tr_expr(v, ctx) for v in node.values]
        if any(t != BOOL for _, t in parts):
            raise Untranslatable("and/or on non-bool")
        op = " && " if isinstance(node.op, ast.And) else " || "
        return "(" + op.join(e for e, _ in parts) + ")", BOOL
    if isinstance(node, ast.Compare):
        return tr_compare(node, ctx)
    if isinstance(node, ast.Call):
        return tr_call(node, ctx)
    if isinstance(node, ast.Subscript):
        base = dotted(node.value)
        if base in ctx.elementwise:
            return tr_expr(node.value, ctx)
        cc = tr_corrcoef(node, ctx)
        if cc is not None:
            return cc
        raise Untranslatable("subscript")
    if isinstance(node, ast.IfExp):
        c, ct = tr_expr(node.test, ctx)
        a, at = tr_expr(node.body, ctx)
        b, bt = tr_expr(node.orelse, ctx)
        if ct != BOOL or at != bt:
            raise Untranslatable("if-expression types")
        return "(if %s then %s else %s)" % (c, a, b), at
    raise Untranslatable(type(node).__name__)


def tr_corrcoef(node, ctx):
    """`np.corrcoef(x, y)[1, 0]` (or `[0, 1]`) of two vectors: the library call is the primitive `corrCore`
    (Model/Corrcoef.lean: covariance sum / root / root, limited to [-1, 1]).  NumPy divides entry [i, j] of the
    covariance matrix by the deviation of row i and then of row j; `corrCore T a b` divides by the root of a's sum
    of squares first, so `[1, 0]` of corrcoef(x, y) — the spelling verif uses — is read as `corrCore T x y` up to
    the order of the two divisions (rounding only), and `[0, 1]` as `corrCore T y x`."""
    c = node.value
    if isinstance(c, ast.Name) and ctx.vars.get(c.id) == CORRMAT:      # cc = np.corrcoef(x, y); cc[1, 0]
        a, b = "(%s).1" % lname(c.id), "(%s).2" % lname(c.id)
    elif isinstance(c, ast.Call) and dotted(c.func) in ("np.corrcoef", "numpy.corrcoef"):
        tr_corrcoef_call(c, ctx)                     # argument checks
        a, b = tr_expr(c.args[0], ctx)[0], tr_expr(c.args[1], ctx)[0]
    else:
        return None
    idx = node.slice
    if not (isinstance(idx, ast.Tuple) and len(idx.elts) == 2):
        raise Untranslatable("np.corrcoef(...)[...]: index is not a pair")
    ij = tuple(const_value(e) for e in idx.elts)
    if ij == (1, 0):
        return "(corrCore T %s %s)" % (a, b), NUM
    if ij == (0, 1):
        return "(corrCore T %s %s)" % (b, a), NUM
    raise Untranslatable("np.corrcoef(...)[%s, %s]" % ij)


def tr_corrcoef_call(c, ctx):
    """`np.corrcoef(x, y)` not yet indexed: kept as the pair of its two vectors"""
    if c.keywords or len(c.args) != 2:
        raise Untranslatable("np.corrcoef: expected two positional arguments")
    a, at = tr_expr(c.args[0], ctx)
    b, bt = tr_expr(c.args[1], ctx)
    if at != VEC or bt != VEC:
        raise Untranslatable("np.corrcoef of %s, %s" % (at, bt))
    return "(%s, %s)" % (a, b), CORRMAT


def coerce_num(e, t):
    """an Optional[float] parameter used as a number (after its `is None` test)"""
    if t == OPTNUM:
        return "(Option.getD %s XR.nan)" % e, NUM
    return e, t


def tr_binop(node, ctx):
    # powers
    if isinstance(node.op, ast.Pow):
        e, t = tr_expr(node.left, ctx)
        p = const_value(node.right)
        if p is None:
            raise Untranslatable("non-constant exponent")
        if p.denominator == 1 and 0 <= p.numerator <= 6:
            if t == NUM:
                return "(XR.npow %s %d)" % (e, p.numerator), NUM
            if t == VEC:
                return "(Vec.npow %s %d)" % (e, p.numerator), VEC
        if p == Fraction(1, 2) and t == NUM:
            return "(Tr.sqrt T %s)" % e, NUM
        if p == Fraction(1, 3) and t == NUM:
            return "(Tr.cbrt T %s)" % e, NUM
        raise Untranslatable("power %s of %s" % (p, t))
    if isinstance(node.op, (ast.BitAnd, ast.BitOr)):
        a, at = tr_expr(node.left, ctx)
        b, bt = tr_expr(node.right, ctx)
        if at == BOOL and bt == BOOL:
            return "(%s %s %s)" % (a, "&&" if isinstance(node.op, ast.BitAnd) else "||", b), BOOL
        raise Untranslatable("&,| on non-bool")
    opn = BINOPS.get(type(node.op))
    if opn is None:
        raise Untranslatable("operator %s" % type(node.op).__name__)
    # normalisation: x / 1.0, x * 1.0, 1.0 * x are the identity on XR (incl. nan, inf)
    if opn == "div" and is_one(node.right):
        return tr_expr(node.left, ctx)
    if opn == "mul" and is_one(node.right):
        return tr_expr(node.left, ctx)
    if opn == "mul" and is_one(node.left):
        return tr_expr(node.right, ctx)
    cv = const_value(node)
    if cv is not None:
        return lean_num(cv), NUM
    a, at = coerce_num(*tr_expr(node.left, ctx))
    b, bt = coerce_num(*tr_expr(node.right, ctx))
    if at == NUM and bt == NUM:
        return "(%s %s %s)" % (a, INFIX[opn], b), NUM
    if at == VEC and bt == VEC:
        return "(Vec.%s %s %s)" % (opn, a, b), VEC
    if at == VEC and bt == NUM:
        return "(Vec.%sS %s %s)" % (opn, a, b), VEC
    if at == NUM and bt == VEC:
        return "(Vec.s%s %s %s)" % (opn.capitalize(), a, b), VEC
    raise Untranslatable("binop on %s, %s" % (at, bt))


def tr_compare(node, ctx):
    if len(node.ops) != 1:
        raise Untranslatable("chained comparison")
    op = node.ops[0]
    right = node.comparators[0]
    if isinstance(op, (ast.Is, ast.IsNot)) and isinstance(right, ast.Constant) and right.value is None:
        a, at = tr_expr(node.left, ctx)
        if at != OPTNUM:
            raise Untranslatable("is None on %s" % at)
        return ("(%s).isNone" if isinstance(op, ast.Is) else "(%s).isSome") % a, BOOL
    if isinstance(op, (ast.In, ast.NotIn)) and dotted(node.left) in ("np.nan", "numpy.nan") \
            and isinstance(right, (ast.List, ast.Tuple)) and right.elts:
        # `np.nan in [x, y, …]`: Python's `in` is `any(np.nan is e or np.nan == e)`.  `np.nan == e` is False for every
        # float, and a value computed by NumPy (a fresh np.float64) is never the object `np.nan` itself — so for a
        # list of computed numbers (names / expressions, none of them the literal np.nan) the test is False.
        items = [tr_expr(e, ctx) for e in right.elts]
        if all(t == NUM for _, t in items) and not any(dotted(e) in ("np.nan", "numpy.nan") for e in right.elts) \
                and not any(isinstance(e, ast.Constant) for e in right.elts):
            return ("false" if isinstance(op, ast.In) else "true"), BOOL
        raise Untranslatable("np.nan in <list>")
    if isinstance(op, (ast.In, ast.NotIn)):
        a, at = tr_expr(node.left, ctx)
        if at == STR and isinstance(right, (ast.List, ast.Tuple)):
            items = [tr_expr(e, ctx) for e in right.elts]
            if all(t == STR for _, t in items):
                r = "([%s].contains %s)" % (", ".join(e for e, _ in items), a)
                return (r if isinstance(op, ast.In) else "(!%s)" % r), BOOL
        raise Untranslatable("in")
    cn = CMPS.get(type(op))
    if cn is None:
        raise Untranslatable("comparison %s" % type(op).__name__)
    left = node.left
    if cn in ("eqb", "neb") and const_value(left) is not None and const_value(right) is None:
        left, right = right, left           # normalisation: `0 == x` reads as `x == 0` (== and != are symmetric)
    a, at = coerce_num(*tr_expr(left, ctx))
    b, bt = coerce_num(*tr_expr(right, ctx))
    if at == NUM and bt == NUM:
        if cn == "neb":
            return "(!XR.eqb %s %s)" % (a, b), BOOL
        return "(XR.%s %s %s)" % (cn, a, b), BOOL
    if at == STR and bt == STR and cn in ("eqb", "neb"):
        return "(%s %s %s)" % (a, "==" if cn == "eqb" else "!=", b), BOOL
    if at == BOOL and bt == BOOL and cn in ("eqb", "neb"):
        return "(%s %s %s)" % (a, "==" if cn == "eqb" else "!=", b), BOOL
    if at == VEC and bt == VEC and cn != "neb":
        return "(Vec.cmp XR.%s %s %s)" % (cn, a, b), BVEC
    if at == VEC and bt == NUM and cn != "neb":
        return "(Vec.cmpS XR.%s %s %s)" % (cn, a, b), BVEC
    raise Untranslatable("comparison of %s, %s" % (at, bt))


NP1 = {  # numpy function -> (lean fn, arg type, result type)
    ("np.log", NUM): ("Tr.log T", NUM), ("np.sqrt", NUM): ("Tr.sqrt T", NUM),
    ("np.exp", NUM): ("Tr.exp T", NUM),
    ("np.log", VEC): ("Vec.mapX (Tr.log T)", VEC), ("np.sqrt", VEC): ("Vec.mapX (Tr.sqrt T)", VEC),
    ("np.exp", VEC): ("Vec.mapX (Tr.exp T)", VEC),
    ("abs", NUM): ("XR.abs", NUM), ("np.abs", NUM): ("XR.abs", NUM),
    ("abs", VEC): ("Vec.abs", VEC), ("np.abs", VEC): ("Vec.abs", VEC),
    ("np.isnan", NUM): ("XR.isNan", BOOL), ("np.isinf", NUM): ("XR.isInf", BOOL),
    ("np.mean", VEC): ("Vec.mean", NUM), ("np.sum", VEC): ("Vec.sum", NUM),
    ("np.nanmean", VEC): ("Vec.nanmean", NUM),
    ("np.var", VEC): ("Vec.var", NUM), ("np.std", VEC): ("Vec.std T", NUM),
    ("np.sort", VEC): ("Vec.sort", VEC), ("len", VEC): ("Vec.len", NUM),
    ("np.sum", BVEC): ("Vec.countTrue", NUM),
    ("float", NUM): ("id", NUM),
}


def inline_helper(fn, node, ctx):
    """Call of a small helper function defined in the same module/class: its body is translated in place with
    the parameters bound by `let` (helpers made by 'extract function' refactorings)."""
    f = ctx.helpers[fn]
    if ctx.depth > 3:
        raise Untranslatable("helper nesting too deep at %s" % fn)
    params = [a.arg for a in f.args.args]
    if params and params[0] == "self":
        params = params[1:]
    if len(params) != len(node.args) or f.args.vararg or f.args.kwarg or f.args.defaults:
        raise Untranslatable("helper %s: argument list" % fn)
    args = [tr_expr(a, ctx) for a in node.args]
    inner = Ctx(dict(zip(params, [t for _, t in args])), ctx.self_attrs, ctx.elementwise, ctx.agg, ctx.helpers,
                ctx.depth + 1, ctx.ext)
    last = None
    for rt in (NUM, BOOL, VEC):
        try:
            body = tr_block(f.body, inner, None, rt, False, 1)
            lets = "".join("let %s := %s; " % (lname(p), e) for p, (e, _) in zip(params, args))
            return "(%s(\n%s))" % (lets, body), rt
        except Untranslatable as e:
            last = e
    raise Untranslatable("helper %s: %s" % (fn, last))


def tr_call(node, ctx):
    fn = dotted(node.func)
    if fn in ("np.corrcoef", "numpy.corrcoef"):
        return tr_corrcoef_call(node, ctx)
    if node.keywords:
        raise Untranslatable("keyword arguments in call to %s" % fn)
    if fn in ctx.helpers:
        return inline_helper(fn, node, ctx)
    if fn == "self.aggregator":
        if ctx.agg is None or len(node.args) != 1:
            raise Untranslatable("aggregator")
        a, at = tr_expr(node.args[0], ctx)
        if at != VEC:
            raise Untranslatable("aggregator of %s" % at)
        return "(%s %s)" % (ctx.agg, a), NUM
    if fn is None or len(node.args) != 1:
        raise Untranslatable("call %s" % fn)
    a, at = tr_expr(node.args[0], ctx)
    key = (fn.replace("numpy.", "np."), at)
    if key in NP1:
        lf, rt = NP1[key]
        return "(%s %s)" % (lf, a), rt
    raise Untranslatable("call %s on %s" % (fn, at))


def is_error_call(stmt):
    if isinstance(stmt, ast.Expr) and isinstance(stmt.value, ast.Call):
        d = dotted(stmt.value.func)
        return d in ("error", "verif.util.error", "util.error")
    return False


def tr_block(stmts, ctx, rest=None, ret_type=NUM, optional=False, indent=1):
    """Translate a statement list into one Lean term.

    rest: Lean term (already translated, a function ctx -> str) to use when the
    block falls through; None means falling through is an error.
    optional: result is `Option <ret>`: `return e` -> `some e`, `error(...)` -> `none`.
    """
    pad = "  " * indent
    if not stmts:
        if rest is None:
            raise Untranslatable("control reaches end of function")
        return rest(ctx, indent)
    s, tail = stmts[0], stmts[1:]

    def k(c, ind):
        return tr_block(tail, c, rest, ret_type, optional, ind)

    if isinstance(s, ast.Expr) and isinstance(s.value, ast.Constant) and isinstance(s.value.value, str):
        return k(ctx, indent)  # docstring
    if isinstance(s, ast.Pass):
        return k(ctx, indent)
    if is_error_call(s):
        if not optional:
            raise Untranslatable("error() in a total function")
        return pad + "none"
    if isinstance(s, ast.Return):
        if s.value is None:
            raise Untranslatable("bare return")
        e, t = tr_expr(s.value, ctx)
        if t != ret_type:
            raise Untranslatable("return type %s, expected %s" % (t, ret_type))
        return pad + ("some %s" % e if optional else e)
    if isinstance(s, ast.Assign):
        if len(s.targets) != 1 or not isinstance(s.targets[0], ast.Name):
            raise Untranslatable("assignment target")
        name = s.targets[0].id
        e, t = tr_expr(s.value, ctx)
        c = ctx.child()
        c.vars[name] = t
        return pad + "let %s := %s\n" % (lname(name), e) + k(c, indent)
    if isinstance(s, ast.If):
        cnd, ct = tr_expr(s.test, ctx)
        if ct != BOOL:
            raise Untranslatable("condition of type %s" % ct)
        a = tr_block(s.body, ctx.child(), k, ret_type, optional, indent + 1)
        b = tr_block(s.orelse, ctx.child(), k, ret_type, optional, indent + 1)
        return pad + "if %s then\n%s\n%selse\n%s" % (cnd, a, pad, b)
    raise Untranslatable("statement %s" % type(s).__name__)


def find_class(tree, name):
    for n in tree.body:
        if isinstance(n, ast.ClassDef) and n.name == name:
            return n
    return None


def find_func(body, name):
    for n in body:
        if isinstance(n, ast.FunctionDef) and n.name == name:
            return n
    return None
