#!/venv/bin/python
"""
./check <id> [--tier quick|thorough] [--replay file]

Decides one property (DESIGN.md §2.5):
  1. regenerate Gen/*.lean from /repo's working tree (translator)
  2. lake build of the property's proof targets + the driver
  3. audit: axioms of every property theorem, forbidden-token scan
  4. correspondence: every generated op is run on the real code (in-process) and on the
     Lean model (compiled driver); replies are compared
  5. property oracle on the implementation for every op (Spec through the Lean driver or an
     implementation-only metamorphic relation); failures are matched against
     known_findings.txt
  6. if 2-4 broke anything: failing-input search; VIOLATION line in one of the two forms
  7. evidence/<id>.json

exit 0 = property held on everything explored, 1 = violation, 2 = infrastructure error.
"""
import argparse
import contextlib
import io
import importlib
import itertools
import json
import os
import random
import sys
import time
import traceback

sys.path.insert(0, os.path.dirname(os.path.abspath(__file__)))
import common
from common import VERIF


def load(prop):
    return importlib.import_module("props.%s" % prop.lower())


def safe_impl(mod, op):
    try:
        with contextlib.redirect_stdout(io.StringIO()), contextlib.redirect_stderr(io.StringIO()):
            return mod.impl(op)
    except SystemExit as e:
        return "EXIT:%s" % (e.code,)
    except Exception as e:  # the reply for an unhandled exception is its type
        return "EXC:%s" % type(e).__name__


def default_cmp(op, a, b):
    return a == b


def save_replay(prop, name, payload):
    d = os.path.join(VERIF, "replays")
    os.makedirs(d, exist_ok=True)
    path = os.path.join(d, "%s_%s.json" % (prop, name))
    with open(path, "w") as f:
        json.dump(payload, f, indent=1, default=str)
    return os.path.relpath(path, VERIF)


def evaluate(mod, ops, have_driver):
    """-> list of dict(stream, op, impl, model, spec, verdict, mismatch)"""
    rows = []
    for stream, op in ops:
        rows.append({"stream": stream, "op": op, "impl": safe_impl(mod, op)})
    spec_ops = [getattr(mod, "spec_op", lambda o: None)(r["op"]) for r in rows]
    if have_driver:
        lean_op = getattr(mod, "lean_op", lambda o: o)
        lines = [lean_op(r["op"]) for r in rows] + [s for s in spec_ops if s is not None]
        out = common.run_driver(lines)
        k = len(rows)
        for i, r in enumerate(rows):
            r["model"] = out[i]
        for r, s in zip(rows, spec_ops):
            if s is not None:
                r["spec"] = out[k]
                k += 1
            else:
                r["spec"] = None
    else:
        for r in rows:
            r["model"] = None
            r["spec"] = None
    cmp = getattr(mod, "cmp", default_cmp)
    for r in rows:
        r["mismatch"] = (r["model"] is not None) and not cmp(r["op"], r["impl"], r["model"])
        try:
            r["verdict"] = mod.judge(r["op"], r["impl"], r["spec"])
        except Exception as e:
            r["verdict"] = ({"kind": "oracle-crash"}, "oracle raised %s: %s" % (type(e).__name__, e))
    return rows


def shrink(mod, row, have_driver):
    """optional, property-specific: smaller op with the same oracle failure"""
    f = getattr(mod, "shrink", None)
    if f is None:
        return row
    try:
        best = row
        for cand in f(row["op"]):
            r = evaluate(mod, [(row["stream"], cand)], have_driver)[0]
            if r["verdict"] is not None and r["verdict"][0] == row["verdict"][0]:
                best = r
                break
        return best
    except Exception:
        return row


def main():
    ap = argparse.ArgumentParser()
    ap.add_argument("prop")
    ap.add_argument("--tier", default=os.environ.get("VERIF_TIER", "quick"))
    ap.add_argument("--replay")
    ap.add_argument("--no-build", action="store_true")
    a = ap.parse_args()
    prop = a.prop.upper()
    tier = a.tier if a.tier in ("quick", "thorough") else "quick"
    seed = int(os.environ.get("VERIF_SEED", "0") or 0)
    rng = random.Random(seed * 1000003 + sum(map(ord, prop)))
    t0 = time.time()
    mod = load(prop)
    os.environ.setdefault("MPLBACKEND", "Agg")

    # ---- replay mode
    if a.replay:
        payload = json.load(open(a.replay))
        ops = [(c.get("stream", "replay"), c["op"]) for c in payload.get("cases", [])]
        lock = common._lock()
        common.translate()
        common.lake_build(["verifdrv"])
        lock.close()
        rows = evaluate(mod, ops, os.path.exists(common.DRIVER))
        bad = 0
        for r in rows:
            print("op     : %s\nimpl   : %s\nmodel  : %s\nspec   : %s\nverdict: %s\n" %
                  (r["op"][:2000], r["impl"], r["model"], r["spec"], r["verdict"]))
            if r["verdict"] is not None or r["mismatch"]:
                bad += 1
        if bad:
            print("VIOLATION property=%s replay=%s" % (prop, a.replay))
            return 1
        return 0

    # ---- 1-3 translate, build, audit
    broken = []          # human-readable descriptions of proof obligations that no longer check
    lock = common._lock()
    try:
        trep = common.translate()
        for u in trep.get("untranslated", []):
            if any(u.startswith(p) for p in getattr(mod, "GEN_PREFIXES", [])):
                broken.append("translator: " + u)
        if trep.get("error"):
            broken.append("translator crashed: " + trep["error"][-300:])
        build = common.lake_build(list(mod.TARGETS) + ["verifdrv"])
        for b in build.broken:
            broken.append("lean: " + b)
        axioms, problems = common.run_audit(prop, mod.THEOREMS)
        for p in problems:
            broken.append("audit: " + p)
        forb = common.scan_forbidden()
        for h in forb:
            broken.append("forbidden token: " + h)
        if tier == "thorough" and build.ok:
            import subprocess
            p = subprocess.run(["lake", "env", "leanchecker"] + list(mod.TARGETS), cwd=common.LEAN,
                               capture_output=True, text=True)
            if p.returncode != 0:
                broken.append("leanchecker: " + (p.stdout + p.stderr)[-300:])
        # ---- pinned-model fallback (DESIGN §8.8): the source was rewritten into a form the translator cannot read, or
        # reads differently, and an obligation broke.  Before treating that as a loss of the proof, put back the model
        # the translator produced from the pinned tree: its theorems are re-checked here, and whether it still
        # describes the code is decided by the correspondence below (deepened) — the hand-written-model kind of tie.
        pinned_used, first_broken = [], []
        gen_files = common.gen_files_for(getattr(mod, "GEN_PREFIXES", []))
        if broken and gen_files and not os.environ.get("VERIF_NO_FALLBACK"):
            differs = common.gen_differs(gen_files)
            if differs:
                common.restore_pinned(differs)
                build2 = common.lake_build(list(mod.TARGETS) + ["verifdrv"])
                axioms2, problems2 = common.run_audit(prop, mod.THEOREMS)
                if build2.ok and not problems2 and not forb:
                    pinned_used, first_broken = differs, list(broken)
                    broken, build, axioms = [], build2, axioms2
                else:
                    build = build2 if os.path.exists(common.DRIVER) else build
        have_driver = os.path.exists(common.DRIVER) and \
            not any("VerifModel/" in e[0] or e[0].startswith("Main") for e in build.errors)
        if have_driver:
            import atexit
            common.private_driver(prop)
            atexit.register(common.drop_private_driver)
    finally:
        lock.close()
    all_thms = [t for _, ts in sorted(mod.THEOREMS.items()) for t in ts]
    n_thm = len(all_thms)
    discharged = sum(1 for t in all_thms
                     if t in axioms and not any(t.split(".")[-1] in b for b in broken))

    # ---- 4-5 correspondence + oracle
    ops = []
    cpath = os.path.join(VERIF, "corpus", "%s.txt" % prop)
    if os.path.exists(cpath):
        ops += [("corpus", l.strip()) for l in open(cpath) if l.strip() and not l.startswith("#")]
    ops += list(mod.gen_ops(tier, rng))
    t_eval = time.time()
    rows = evaluate(mod, ops, have_driver)
    if pinned_used:
        # deeper correspondence while the tie rests on it alone: thorough-size sample, in chunks, within a time budget
        budget = float(os.environ.get("VERIF_FALLBACK_BUDGET", "150"))
        t1, extra, seen_ops = time.time(), [], {o for _, o in ops}
        gen = mod.gen_ops("thorough", random.Random(seed * 7919 + 13))
        rate = max(1.0, len(rows) / max(0.5, time.time() - t_eval))      # ops per second seen on this run
        while time.time() - t1 < budget:
            raw = list(itertools.islice(gen, int(min(3000, max(40, rate * 15)))))
            if not raw:
                break
            chunk = [x for x in raw if x[1] not in seen_ops]
            if not chunk:
                continue
            seen_ops.update(o for _, o in chunk)
            extra += evaluate(mod, chunk, have_driver)
        rows += extra
    known = common.Known()
    mismatches = [r for r in rows if r["mismatch"]]
    failures = [r for r in rows if r["verdict"] is not None]
    known_hits, new_fail = {}, []
    for r in failures:
        e = known.lookup(prop, r["verdict"][0])
        if e:
            known_hits.setdefault(e["id"], (e, r))
        else:
            new_fail.append(r)
    for fid, (e, r) in sorted(known_hits.items()):
        print("KNOWN-FINDING: property=%s %s [%s] e.g. %s" % (prop, e["what"], fid, r["op"][:200]))

    # ---- tie-only obligations (DESIGN §8.7): a GenEq module that merely ties the hand-written model to the source
    # may be lost when the source is rewritten into a form the translator cannot read, PROVIDED the other tie — the
    # correspondence of the hand-written model with the code — still holds on this run (no mismatch outside the ops
    # that execute the generated stubs) and the oracle is quiet.  The property theorems are about the hand model.
    tie = getattr(mod, "TIE_ONLY", None)
    degraded = []
    if tie and broken and not new_fail:
        untr = [u for u in trep.get("untranslated", []) if u.startswith(tie["prefix"])]

        def is_tie_item(b):
            return (b.startswith("translator: " + tie["prefix"]) or
                    any(("lean: %s.lean" % m.replace(".", "/")) in b for m in tie["modules"]) or
                    any(b.startswith("audit: theorem ") and t in b for m in tie["modules"] for t in mod.THEOREMS.get(m, [])))
        gen_heads = tuple(tie.get("gen_op_heads", ()))
        real_mismatch = [m for m in mismatches if not m["op"].split(" ")[0] in gen_heads]
        if untr and all(is_tie_item(b) for b in broken) and not real_mismatch:
            degraded = list(broken)
            for b in broken:
                print("NOTE: %s" % b)
            print("NOTE: the translator cannot read %s any more; the tie of the hand-written model to the code is kept by "
                  "the correspondence stream (%d ops, 0 mismatches outside the generated-stub ops) and the property "
                  "theorems are unaffected" % (", ".join(untr), len(rows)))
            broken, mismatches = [], []
            tie_thms = {t for m in tie["modules"] for t in mod.THEOREMS.get(m, [])}
            all_thms = [t for t in all_thms if t not in tie_thms]
            n_thm = len(all_thms)
            discharged = sum(1 for t in all_thms if t in axioms)

    if pinned_used:
        if mismatches or new_fail:
            broken = first_broken + ["pinned model: %d correspondence mismatches, %d oracle failures"
                                     % (len(mismatches), len(new_fail))]
        else:
            degraded = degraded + first_broken
            for b in first_broken[:12]:
                print("NOTE: %s" % b)
            print("NOTE: the model regenerated from the current source no longer carries the proofs (above); the model "
                  "generated from the pinned tree (%s) does, and it agrees with the current code on all %d ops of the "
                  "deepened correspondence with a quiet oracle — tie kept by correspondence, see DESIGN 8.8"
                  % (", ".join(pinned_used), len(rows)))

    status, replay = 0, None
    if new_fail:
        r = shrink(mod, new_fail[0], have_driver)
        replay = save_replay(prop, "seed%d" % seed, {
            "property": prop, "kind": "failing-input", "what": r["verdict"][1],
            "cases": [{"stream": r["stream"], "op": r["op"], "impl": r["impl"], "model": r["model"],
                       "spec": r["spec"]}],
            "other_failures": len(new_fail) - 1, "broken": broken,
            "replay_cmd": "./check %s --replay <this file>" % prop})
        print("failing input: %s\n  op=%s\n  impl=%s spec=%s" % (r["verdict"][1], r["op"][:500], r["impl"][:300], r["spec"]))
        print("VIOLATION property=%s replay=%s" % (prop, replay))
        status = 1
    elif broken or mismatches:
        # ---- 6 failing-input search on the implementation
        found = None
        extra = getattr(mod, "search_ops", None)
        sops = [(r["stream"], r["op"]) for r in mismatches]
        if extra is not None:
            sops += list(extra(rng))
        else:
            sops += list(mod.gen_ops("thorough", random.Random(seed + 7919)))
        for r in evaluate(mod, sops, have_driver):
            if r["verdict"] is not None and not known.lookup(prop, r["verdict"][0]):
                found = r
                break
        if found:
            replay = save_replay(prop, "seed%d" % seed, {
                "property": prop, "kind": "failing-input", "what": found["verdict"][1],
                "cases": [{"stream": found["stream"], "op": found["op"], "impl": found["impl"]}],
                "broken": broken, "mismatches": [{k: m[k] for k in ("stream", "op", "impl", "model")}
                                                 for m in mismatches[:5]]})
            print("failing input: %s\n  op=%s" % (found["verdict"][1], found["op"][:500]))
            print("VIOLATION property=%s replay=%s" % (prop, replay))
        else:
            replay = save_replay(prop, "seed%d" % seed, {
                "property": prop, "kind": "no-failing-input-found",
                "broken_obligations": broken, "tie_degraded": degraded,
                "correspondence_mismatches": [{k: m[k] for k in ("stream", "op", "impl", "model")}
                                              for m in mismatches[:20]],
                "cases": [{"stream": m["stream"], "op": m["op"]} for m in mismatches[:20]],
                "searched": len(sops)})
            for b in broken[:10]:
                print("broken obligation: %s" % b)
            for m in mismatches[:5]:
                print("correspondence mismatch [%s]: %s\n  impl =%s\n  model=%s" %
                      (m["stream"], m["op"][:300], m["impl"][:300], (m["model"] or "")[:300]))
            print("VIOLATION property=%s replay=%s no-failing-input-found" % (prop, replay))
        status = 1

    # ---- 7 evidence
    nontriv = getattr(mod, "nontrivial", lambda op, out: True)
    distinct = set()
    per_stream = {}
    for r in rows:
        per_stream[r["stream"]] = per_stream.get(r["stream"], 0) + 1
        if nontriv(r["op"], r["impl"]):
            distinct.add(r["op"])
    samples = []
    seen_streams = set()
    for r in rows:
        if r["stream"] not in seen_streams:
            seen_streams.add(r["stream"])
            samples.append({"stream": r["stream"], "op": r["op"][:600], "impl": r["impl"][:300],
                            "model": (r["model"] or "")[:300], "spec": r["spec"]})
    samples += [{"obligation": t, "axioms": axioms.get(t)} for t in all_thms[:3]]
    ev = {
        "property_id": prop, "tier": tier, "seed": seed, "level": "proof",
        "coverage": {
            "obligations": n_thm, "discharged": discharged,
            "checker_cmd": "cd lean && lake build %s && lake env lean Audit/%s_*.lean" %
                           (" ".join(mod.TARGETS), prop),
            "trusted_base": mod.TRUSTED_BASE,
            "theorems": all_thms,
            "axioms_used": sorted({x for v in axioms.values() for x in v}),
            "broken_obligations": broken, "tie_degraded": degraded, "pinned_model_used": pinned_used,
            "translator": {k: trep.get(k) for k in ("changed", "untranslated")},
            "evaluations": len(rows), "distinct_nontrivial": len(distinct),
            "rule": mod.RULE, "samples": samples, "streams": per_stream,
            "correspondence_mismatches": len(mismatches),
            "oracle_failures": len(failures), "known_findings_hit": sorted(known_hits),
            "exhaustive": bool(getattr(mod, "EXHAUSTIVE", {}).get(tier, False)),
            "exhaustive_note": getattr(mod, "EXHAUSTIVE_NOTE", ""),
            "driver_available": have_driver, "lean_build_s": round(build.wall, 1),
        },
        "assumptions": mod.ASSUMPTIONS,
        "wall_s": round(time.time() - t0, 2),
        "violations": 1 if status else 0,
    }
    extra_ev = getattr(mod, "extra_evidence", None)
    if extra_ev:
        ev["coverage"].update(extra_ev(rows))
    # evidence/ is only written for runs against /repo itself; runs against a scratch copy (VERIF_REPO=…,
    # used for seeded changes and mutation tests) go to build/evidence_scratch/
    evdir = os.path.join(VERIF, "evidence") if os.path.realpath(common.REPO) == "/repo" \
        else os.path.join(VERIF, "build", "evidence_scratch")
    os.makedirs(evdir, exist_ok=True)
    with open(os.path.join(evdir, "%s.json" % prop), "w") as f:
        json.dump(ev, f, indent=1, default=str)
    print("%s %s: %d ops, %d mismatches, %d oracle failures (%d known), %d/%d obligations, %.1fs" %
          (prop, tier, len(rows), len(mismatches), len(failures), len(failures) - len(new_fail),
           discharged, n_thm, time.time() - t0))
    return status


if __name__ == "__main__":
    try:
        sys.exit(main())
    except SystemExit:
        raise
    except Exception:
        traceback.print_exc()
        sys.exit(2)
