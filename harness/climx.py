"""C14, climatology given as an additional input (Proofs/C14Extra.lean): streams, real-code runners and the
exact oracle.

  dataclimcols <cfgC> <cfgX> <inputs (last = K)> <requests>
        the requests on Data(A.., clim=K, subtract)  ~~  the same requests on Data(A.. + [K]) (in memory)
  dataclimwit  (same encoding)  the witness of Lean theorem C14_extra_needs_fcst, replayed on the real code
  climcli <metric> <axis> <T|-> <seed> <cfg> <inputs (last = K)>
        `verif A [B] -c K -m M -x AX [-T n] -type csv`  versus the first columns of  `verif A [B] K -m M ...`
        through verif.driver.run in-process on text files

Domain condition (from the theorem): the request contains the forecast.  mae / rmse / bias / stderror request
[obs, fcst], so equality is always demanded for them; for requests without the forecast (obs alone, obs + another
score) nothing is demanded (the case lists may differ: K's forecast is read under -c only).
"""
import contextlib
import io
import os
import random
import shutil
import tempfile
import warnings
from fractions import Fraction

import numpy as np

import datagen as dg
from common import from_xvec

WITNESS = ("dataclimwit clim=1 - "
           "0|0|1:50:10:100;2:60:20:200|obs=1,2;fcst=3,5#"
           "0|0|1:50:10:100;2:60:20:200|obs=1,2;fcst=nan,1 "
           "obs@0@no@-;obs+fcst@0@no@-")
# the model's answers (Lean: C14_extra_needs_fcst and the example after it), which the real code must give too
WITNESS_REPLY = "T=0;L=0;X=1,2 | 1 | 1;4 ~~ T=0;L=0;X=1,2 | 1,2 | 2;5"


def enc_cols(ds, reqs, head="dataclimcols"):
    """ds: scored inputs + K (last), cfg without clim/div"""
    cx = {k: v for k, v in ds.cfg.items() if k not in ("clim", "div")}
    cc = dict(cx, clim=True)
    body = dg.enc_op(dg.DS(ds.inputs, cx), reqs).split(" ")
    return "%s %s %s %s %s" % (head, dg.enc_cfg(cc), body[1], body[2], body[3])


def impl_cols(op):
    a = op.split(" ")
    return dg.impl_data("data %s %s %s" % (a[1], a[3], a[4])) + " ~~ " + dg.impl_data("data %s %s %s" % (a[2], a[3], a[4]))


def _fr(tok):
    return [None if (isinstance(v, float) and (v != v or v in (float("inf"), float("-inf")))) else Fraction(v)
            for v in from_xvec(tok)]


def _scores(o, f):
    """exact MAE, bias, mean squared error and variance of the error, from the definitions"""
    e = [b - a for a, b in zip(o, f)]
    n = len(e)
    mean = sum(e) / n
    return {"mae": sum(abs(x) for x in e) / n, "bias": mean, "mse": sum(x * x for x in e) / n,
            "errvar": sum((x - mean) ** 2 for x in e) / n}


def judge_cols(op, impl_out):
    a = op.split(" ")
    if a[0] == "dataclimwit":
        if impl_out != WITNESS_REPLY:
            return ({"kind": "clim-witness"}, "the witness of C14_extra_needs_fcst replays as %s on the code, the theorem's "
                    "values are %s" % (impl_out[:200], WITNESS_REPLY))
        return None
    if impl_out.startswith("EXC:"):
        return ({"kind": "exception"}, "Data raised %s" % impl_out)
    if " ~~ " not in impl_out:
        return ({"kind": "clim-vs-extra-input"}, "malformed reply %s" % impl_out[:200])
    left, right = impl_out.split(" ~~ ")
    if (left == "ERR init") != (right == "ERR init"):
        return ({"kind": "clim-vs-extra-input", "what": "init"}, "only one of the two runs constructs: %s" % impl_out[:200])
    if left == "ERR init":
        return None
    L, R = left.split(" | "), right.split(" | ")
    if L[0] != R[0]:
        return ({"kind": "clim-vs-extra-input", "what": "dims"}, "dimensions differ: %s vs %s" % (L[0], R[0]))
    _, reqs = dg.dec_op("data - %s %s" % (a[3], a[4]))
    for r, x, y in zip(reqs, L[1:], R[1:]):
        f, i, ax, k = r
        if "fcst" not in f or ax == "all":
            continue                      # outside the theorem's domain: nothing demanded
        what = "fields=%s input=%d axis=%s index=%s" % ("+".join(f), i, ax, k)
        if (x == "ERR") != (y == "ERR"):
            return ({"kind": "clim-vs-extra-input", "what": "error"}, "%s: error exit in one run only (%s / %s)" % (what, x[:60], y[:60]))
        if x == "ERR":
            continue
        cx, cy = [_fr(t) for t in x.split(";")], [_fr(t) for t in y.split(";")]
        if [len(c) for c in cx] != [len(c) for c in cy]:
            return ({"kind": "clim-vs-extra-input", "what": "cases"},
                    "%s: -c K lists %d cases, K as an additional input %d" % (what, len(cx[0]), len(cy[0])))
        if any(v is None for c in cx + cy for v in c):
            if not all(v is None for c in cx + cy for v in c):
                return ({"kind": "clim-vs-extra-input", "what": "cases"}, "%s: placeholder in one run only" % what)
            continue
        for name, u, v in zip(f, cx, cy):
            if name not in ("obs", "fcst") and u != v:
                return ({"kind": "clim-vs-extra-input", "what": "other-field"}, "%s: field %s altered by -c" % (what, name))
        if "obs" in f:
            o1, f1 = cx[f.index("obs")], cx[f.index("fcst")]
            o2, f2 = cy[f.index("obs")], cy[f.index("fcst")]
            s1, s2 = _scores(o1, f1), _scores(o2, f2)
            for m in s1:
                # (exact on the dyadic value grid; values such as the PIT are rounded by the float subtraction)
                if abs(s1[m] - s2[m]) > Fraction(1, 10 ** 9) * max(1, abs(s1[m]), abs(s2[m])):
                    return ({"kind": "clim-vs-extra-input", "what": "score"},
                            "%s: %s is %s under -c K and %s with K as an additional input" % (what, m, s1[m], s2[m]))
    return None


def nontrivial_cols(op, impl_out):
    return " ~~ " in impl_out and "ERR init" not in impl_out


# ------------------------------------------------------------------ the chain through the command line
def enc_cli(ds, metric, axis, T, seed):
    cfg = {k: v for k, v in ds.cfg.items() if k not in ("clim", "div")}
    body = dg.enc_op(dg.DS(ds.inputs, cfg), []).split(" ")
    return "climcli %s %s %s %d %s %s" % (metric, axis, "-" if T is None else T, seed, body[1], body[2])


def _base():
    d = "/dev/shm" if os.path.isdir("/dev/shm") else None
    return d


def _run_cli(argv, ofile):
    import verif.driver
    try:
        with contextlib.redirect_stdout(io.StringIO()), contextlib.redirect_stderr(io.StringIO()), np.errstate(all="ignore"), \
                warnings.catch_warnings():
            warnings.simplefilter("ignore")
            verif.driver.run(argv)
    except SystemExit:
        return None
    if not os.path.exists(ofile):
        return None
    with open(ofile) as f:
        rows = [ln.split(",") for ln in f.read().strip().split("\n")]
    return rows


def impl_cli(op):
    a = op.split(" ")
    metric, axis, T, seed = a[1], a[2], a[3], int(a[4])
    ds, _ = dg.dec_op("data %s %s -" % (a[5], a[6]))
    d = tempfile.mkdtemp(dir=_base())
    try:
        r = random.Random(seed)
        names = ["A%d.txt" % k for k in range(len(ds.inputs) - 1)] + ["K.txt"]
        paths = [os.path.join(d, n) for n in names]
        for I, p in zip(ds.inputs, paths):
            dg.write_text(I, p, r)
        opts = ["-m", metric, "-x", axis, "-type", "csv"] + ([] if T == "-" else ["-T", T])
        o1, o2 = os.path.join(d, "o1.csv"), os.path.join(d, "o2.csv")
        r1 = _run_cli(["verif"] + paths[:-1] + ["-c", paths[-1]] + opts + ["-f", o1], o1)
        r2 = _run_cli(["verif"] + paths + opts + ["-f", o2], o2)
    finally:
        shutil.rmtree(d, True)
    if r1 is None or r2 is None:
        return "same" if (r1 is None) == (r2 is None) else "diff[error exit with %s only]" % ("-c" if r1 is None else "the extra input")
    n = len(names) - 1
    out = []
    # header: axis name, (lat, lon, elev for location-like axes,) one column per legend entry = file name
    leg1 = [h for h in r1[0] if h.endswith(".txt")]
    leg2 = [h for h in r2[0] if h.endswith(".txt")]
    if leg1 != names[:-1]:
        out.append("diff[legend under -c is %s]" % "/".join(leg1))
    if leg2 != names:
        out.append("diff[legend with the extra input is %s]" % "/".join(leg2))
    lead = len(r1[0]) - len(leg1)
    if [row[:lead] for row in r1] != [row[:lead] for row in r2] or len(r2[0]) - len(leg2) != lead:
        out.append("diff[axis values %s vs %s]" % ([row[0] for row in r1][:6], [row[0] for row in r2][:6]))
    elif not out:
        for x, y in zip(r1[1:], r2[1:]):
            u, v = np.array(x[lead:], float), np.array(y[lead:lead + n], float)
            if len(u) != n or not np.allclose(u, v, rtol=2e-5, atol=1e-9, equal_nan=True):   # (the csv table has 6 significant digits)
                out.append("diff[%s -x %s %s=%s: -c K gives %s, first columns with K as an input %s]" % (
                    metric, axis, r1[0][0], x[0], ",".join(x[lead:]), ",".join(y[lead:lead + n])))
                break
    return "same" if not out else ";".join(out[:3])


def cli_dataset(rng):
    """a dataset for the text-file chain: obs / fcst only, integer coordinates without repeats, no ±inf"""
    while True:
        ds = dg.gen_dataset(rng, n_inputs=rng.choice([1, 2]), with_clim=True, kinds=[])
        ok = True
        for I in ds.inputs:
            if len(set(I["times"])) != len(I["times"]):
                ok = False
            for n in I["fields"]:
                arr = np.array(I["fields"][n], float)
                arr[np.isinf(arr)] = np.nan
                I["fields"][n] = arr
        if ok and dg.oracle_dims(ds) is not None:
            return ds


def inf_dataset(rng):
    """scored inputs + climatology with several ±inf values in the climatology's forecast (and observation)"""
    ds = dg.gen_dataset(rng, n_inputs=rng.choice([1, 2, 3]), with_clim=True, kinds=rng.choice([[], ["aux"], ["pit"]]))
    K = ds.inputs[-1]
    for name in ("fcst", "obs"):
        if name in K["fields"]:
            arr = np.array(K["fields"][name], float)
            for _ in range(rng.choice([1, 2, 3]) if name == "fcst" else rng.choice([0, 1])):
                idx = tuple(rng.randrange(s) for s in arr.shape)
                arr[idx] = rng.choice([np.inf, -np.inf])
            K["fields"][name] = arr
    return ds
