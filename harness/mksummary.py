#!/usr/bin/env python3
"""Regenerates the generated blocks of DESIGN.md (between `<!-- BEGIN GENERATED x -->` / `<!-- END GENERATED x -->`)
from known_findings.txt, harness/props and the committed evidence: `fixes` (§8.3) and `summary` (§8.6)."""
import importlib
import json
import os
import re
import sys

ROOT = os.path.dirname(os.path.dirname(os.path.abspath(__file__)))
sys.path.insert(0, os.path.join(ROOT, "harness"))


def fixes_block():
    rows = []
    for line in open(os.path.join(ROOT, "known_findings.txt")):
        m = re.match(r"fixed: property=(C\d+) ([0-9a-f]{7}) (.*)", line.strip())
        if m:
            what = m.group(3)
            what = re.sub(r"\s*\[[a-z0-9-]+\]\s*$", "", what)
            rows.append("| `%s` | %s | %s |" % (m.group(2), m.group(1), what.replace("|", "\\|")))
    head = ["| commit in /repo | property | what failed before the repair |", "|---|---|---|"]
    return "\n".join(head + rows + ["", "%d repairs, each one `fix:` commit (follow-up commits are named in the row)." % len(rows)])


def summary_block():
    out = ["| id | audited theorems | quick ops | distinct non-trivial | correspondence / oracle streams | regenerated from source (translator) |",
           "|---|---|---|---|---|---|"]
    for k in range(1, 21):
        pid = "C%02d" % k
        mod = importlib.import_module("props.c%02d" % k)
        ev = os.path.join(ROOT, "evidence", pid + ".json")
        cov = json.load(open(ev))["coverage"] if os.path.exists(ev) else {}
        out.append("| %s | %s | %s | %s | %s | %s |" % (
            pid, cov.get("obligations", "?"), cov.get("evaluations", "?"), cov.get("distinct_nontrivial", "?"),
            ", ".join(sorted(cov.get("streams", {}))), " ".join(getattr(mod, "GEN_PREFIXES", [])) or "—"))
    known = []
    for line in open(os.path.join(ROOT, "known_findings.txt")):
        m = re.match(r"known: property=(C\d+) id=(\S+) match=(\{.*?\}) (.*)", line.strip())
        if not m:
            m2 = re.match(r"known: property=(C\d+) (\S+) (.*)", line.strip())
            if m2:
                known.append("* %s `%s` — %s" % (m2.group(1), m2.group(2), m2.group(3)[:330]))
            continue
        known.append("* %s `%s` — %s" % (m.group(1), m.group(2), m.group(4)[:330]))
    out += ["", "Open known findings (%d; `known:` lines of known_findings.txt; each has a witness in corpus/ and a structural "
            "matcher):" % len(known), ""] + known
    return "\n".join(out)


def main():
    path = os.path.join(ROOT, "DESIGN.md")
    s = open(path).read()
    for name, fn in (("fixes", fixes_block), ("summary", summary_block)):
        a, b = "<!-- BEGIN GENERATED %s -->" % name, "<!-- END GENERATED %s -->" % name
        if a not in s or b not in s:
            print("marker for %s missing" % name)
            continue
        i, j = s.index(a) + len(a), s.index(b)
        s = s[:i] + "\n" + fn() + "\n" + s[j:]
    open(path, "w").write(s)


if __name__ == "__main__":
    main()
