"""
Diagram runs for C16: dataset encoding, in-memory verif inputs with thresholds / quantiles / pit /
ensemble, construction of the Output object as the driver does it, and read-back of the live figure.

op line:   diag <name> <opts> <dims> <in0> [<in1> ...]
  opts   k=v;k=v  or -      keys: r (vector) q (vector) b (bin type) x (axis) simple (1) m (metric / field)
  dims   times|leads|id:lat:lon:elev;id:...
  in<k>  key=vector;key=vector   keys: obs fcst pit p@<threshold> q@<level> e@<member>; arrays flattened (T,L,X)

Artists are read back from the figure that is current when Output._save_plot is called (patched from
here), i.e. before anything is written or closed.  Every call of Axes.plot / Axes.bar / Axes.scatter /
Axes.fill is tagged (from here, by wrapping the matplotlib methods) with the innermost verif function that
issued it.  Filled polygons (the shaded bands of verif.util.fill) are read back from the Polygon patch that
lives in the axes; matplotlib closes a polygon by repeating its first vertex, which is undone by comparing
the stored vertex count with the number of points the call was given.
"""
import math
import os
import sys
import warnings
import numpy as np
from common import xr, xvec, from_xr, from_xvec

CORE = ("_plot_core", "_plot_rank_core", "_plot_impact_core", "_map_core", "_plot_mapimpact_core")


# ------------------------------------------------------------------ dataset <-> op line
class DDS(object):
    def __init__(self, times, leads, locs, inputs):
        self.times, self.leads, self.locs, self.inputs = times, leads, locs, inputs

    @property
    def shape(self):
        return (len(self.times), len(self.leads), len(self.locs))

    def thresholds(self, k=0):
        return sorted(from_xr(n[2:]) for n in self.inputs[k] if n.startswith("p@"))

    def quantiles(self, k=0):
        return sorted(from_xr(n[2:]) for n in self.inputs[k] if n.startswith("q@"))

    def members(self, k=0):
        return sorted(int(n[2:]) for n in self.inputs[k] if n.startswith("e@"))


def enc_opts(o):
    parts = []
    for k in ("m", "x", "b", "r", "q", "simple", "type", "agg", "acc"):
        if k in o:
            v = o[k]
            parts.append("%s=%s" % (k, xvec(v) if k in ("r", "q") else ("1" if v is True else v)))
    return ";".join(parts) if parts else "-"


def dec_opts(s):
    o = {}
    if s != "-":
        for kv in s.split(";"):
            k, v = kv.split("=", 1)
            if k in ("r", "q"):
                o[k] = from_xvec(v)
            elif k in ("simple", "acc"):
                o[k] = True
            else:
                o[k] = v
    return o


def enc_ds(ds):
    dims = "%s|%s|%s" % (xvec(ds.times), xvec(ds.leads),
                         ";".join("%s:%s:%s:%s" % tuple(xr(v) for v in l) for l in ds.locs))
    ins = [";".join("%s=%s" % (k, xvec(np.asarray(a, float).flatten())) for k, a in I.items()) for I in ds.inputs]
    return dims + " " + " ".join(ins)


def enc_op(name, opts, ds, head="diag"):
    return "%s %s %s %s" % (head, name, enc_opts(opts), enc_ds(ds))


def dec_op(op):
    a = op.split(" ")
    name, opts = a[1], dec_opts(a[2])
    ts, ls, xs = a[3].split("|")
    times, leads = from_xvec(ts), from_xvec(ls)
    locs = [tuple(from_xr(v) for v in l.split(":")) for l in xs.split(";") if l]
    shape = (len(times), len(leads), len(locs))
    inputs = []
    for s in a[4:]:
        I = {}
        for f in s.split(";"):
            k, v = f.split("=")
            I[k] = np.array(from_xvec(v), float).reshape(shape)
        inputs.append(I)
    return a[0], name, opts, DDS(times, leads, locs, inputs)


# ------------------------------------------------------------------ real verif objects
def build_data(ds):
    import datagen
    import verif.data
    ins = []
    for k, I in enumerate(ds.inputs):
        base = {"times": ds.times, "leads": ds.leads, "locs": ds.locs,
                "fields": {n: I[n] for n in ("obs", "fcst", "pit") if n in I}}
        m = datagen.mem_input(base, "in%d" % k)
        th, qs, mem = ds.thresholds(k), ds.quantiles(k), ds.members(k)
        if th:
            m.thresholds = np.array(th, float)
            m.threshold_scores = np.stack([np.array(I["p@" + xr(t)], float) for t in th], axis=3)
        if qs:
            m.quantiles = np.array(qs, float)
            m.quantile_scores = np.stack([np.array(I["q@" + xr(q)], float) for q in qs], axis=3)
        if mem:
            m.ensemble = np.stack([np.array(I["e@%d" % e], float) for e in mem], axis=3)
        ins.append(m)
    return verif.data.Data(ins)


SPECIAL = {"pithist": "PitHist", "obsfcst": "ObsFcst", "timeseries": "TimeSeries", "meteo": "Meteo", "qq": "QQ",
           "fss": "Fss", "cond": "Cond", "against": "Against", "scatter": "Scatter", "change": "Change",
           "spreadskill": "SpreadSkill", "taylor": "Taylor", "error": "Error", "freq": "Freq", "roc": "Roc",
           "droc": "DRoc", "droc0": "DRoc0", "reliability": "Reliability", "discrimination": "Discrimination",
           "performance": "Performance", "invreliability": "InvReliability", "murphy": "Murphy",
           "bsdecomp": "BsDecomp", "igncontrib": "IgnContrib", "economicvalue": "EconomicValue",
           "marginal": "Marginal"}
PLOT_METHOD = {"rank": "plot_rank", "impact": "plot_impact", "map": "map", "mapimpact": "plot_mapimpact", "maprank": "map"}


def make_output(name, o, data):
    """the Output object with the attributes verif.driver.run would set for these options"""
    import verif.output
    import verif.metric
    import verif.field
    import verif.axis
    import verif.aggregator
    if name in SPECIAL:
        pl = getattr(verif.output, SPECIAL[name])()
    elif name == "autocorr":
        pl = verif.output.Auto("corr")
    elif name == "autocov":
        pl = verif.output.Auto("cov")
    elif name == "hist":
        pl = verif.output.Hist(verif.field.get(o["m"]))
    elif name == "sort":
        pl = verif.output.Sort(verif.field.get(o["m"]))
    else:       # standard, rank, impact, map
        met = verif.metric.get(o["m"])
        if met is None:
            met = verif.metric.FromField(verif.field.Other(o["m"]))
        if "agg" in o:
            met.aggregator = verif.aggregator.get(o["agg"])       # as verif.driver.run does
        pl = verif.output.Standard(met)
    if "agg" in o:
        import verif.aggregator
        pl.aggregator = verif.aggregator.get(o["agg"])
    if o.get("acc") and pl.supports_acc:
        pl.show_acc = True
    if o.get("simple"):
        pl.simple = True
    if "b" in o:
        pl.bin_type = o["b"]
    if "r" in o:
        pl.thresholds = np.array(o["r"], float)
    elif pl.require_threshold_type == "threshold":
        pl.thresholds = data.thresholds          # the driver's default
    if "q" in o:
        pl.quantiles = np.array(o["q"], float)
    if "x" in o and pl.supports_x:
        pl.axis = verif.axis.get(o["x"])
    pl.figsize = None
    if name in ("rank", "maprank"):
        pl.show_rank = True
    return pl


# ------------------------------------------------------------------ tagging and read-back
_calls = []
_installed = [False]
_last = {}


def _verif_caller():
    f = sys._getframe(2)
    while f is not None:
        fn = f.f_code.co_filename.replace("\\", "/")
        if fn.endswith("verif/output.py") or fn.endswith("verif/util.py"):
            return f.f_code.co_name
        f = f.f_back
    return "?"


def install():
    """wrap Axes.plot/bar/scatter (tag artists with their verif caller) and Output._save_plot (capture)"""
    if _installed[0]:
        return
    import matplotlib
    matplotlib.use("Agg")
    import matplotlib.axes
    import verif.output

    def wrap(meth, kind):
        orig = getattr(matplotlib.axes.Axes, meth)

        def wrapped(self, *a, **k):
            res = orig(self, *a, **k)
            _calls.append((kind, res, _verif_caller()))
            return res
        setattr(matplotlib.axes.Axes, meth, wrapped)
    wrap("plot", "line")
    wrap("bar", "bar")
    wrap("scatter", "pts")

    orig_fill = matplotlib.axes.Axes.fill

    def wrapped_fill(self, *a, **k):
        res = orig_fill(self, *a, **k)
        n = len(a[0]) if a and hasattr(a[0], "__len__") else None
        _calls.append(("poly", (res, n), _verif_caller()))
        return res
    matplotlib.axes.Axes.fill = wrapped_fill

    def save_plot(self, data):
        _last["records"] = read_figure()
    verif.output.Output._save_plot = save_plot
    _installed[0] = True


def read_figure():
    """-> records in drawing order: dict(ax, kind, label, x, y, [w | s | c], src, style) read from the LIVE artists"""
    import matplotlib.pyplot as mpl
    import matplotlib.colors
    fig = mpl.gcf()
    axes = fig.get_axes()
    out = []
    for kind, res, src in _calls:
        if kind == "line":
            for ln in res:
                if ln.axes is None or ln.axes not in axes or ln not in ln.axes.lines:
                    continue
                out.append({"ax": axes.index(ln.axes), "kind": "line", "label": str(ln.get_label()),
                            "x": np.asarray(ln.get_xdata(), float).flatten(),
                            "y": np.asarray(ln.get_ydata(), float).flatten(), "src": src,
                            "alpha": ln.get_alpha(), "ls": ln.get_linestyle(), "zorder": ln.get_zorder(),
                            "color": ln.get_color()})
        elif kind == "poly":
            polys, n = res
            for pg in polys:
                if pg.axes is None or pg.axes not in axes or pg not in pg.axes.patches:
                    continue
                xy = np.asarray(pg.get_xy(), float).reshape(-1, 2)
                if n is not None and len(xy) == n + 1:
                    xy = xy[:-1]                     # the closing vertex matplotlib appended
                out.append({"ax": axes.index(pg.axes), "kind": "poly", "label": str(pg.get_label() or ""),
                            "x": xy[:, 0], "y": xy[:, 1], "src": src, "alpha": pg.get_alpha(),
                            "zorder": pg.get_zorder()})
        elif kind == "bar":
            ps = [p for p in res.patches if p.axes is not None and p.axes in axes]
            if not ps and len(res.patches):
                continue
            ax = axes.index(ps[0].axes) if ps else 0
            out.append({"ax": ax, "kind": "bar", "label": str(res.get_label()),
                        "x": np.array([p.get_x() for p in ps], float), "y": np.array([p.get_height() for p in ps], float),
                        "w": np.array([p.get_width() for p in ps], float),
                        "b": np.array([p.get_y() for p in ps], float), "src": src})
        else:
            if res.axes is None or res.axes not in axes:
                continue
            off = np.asarray(res.get_offsets(), float).reshape(-1, 2)
            arr = res.get_array()
            out.append({"ax": axes.index(res.axes), "kind": "pts", "label": str(res.get_label()),
                        "x": off[:, 0], "y": off[:, 1], "s": np.asarray(res.get_sizes(), float).flatten(),
                        "c": None if arr is None else np.asarray(arr, float).flatten(), "src": src,
                        "clim": res.get_clim(), "fc": np.asarray(res.get_facecolor(), float).reshape(-1, 4)})
    del _calls[:]
    return out


def fill_direct(x, lower, upper):
    """verif.util.fill on a fresh Agg figure; -> records of the polygons that are in the axes afterwards"""
    install()
    import matplotlib.pyplot as mpl
    import verif.util
    del _calls[:]
    mpl.figure()
    try:
        with warnings.catch_warnings():
            warnings.simplefilter("ignore")
            verif.util.fill(np.array(x, float), np.array(lower, float), np.array(upper, float), "r", alpha=0.3)
        return [r for r in read_figure() if r["kind"] == "poly"]
    finally:
        del _calls[:]
        mpl.close("all")


def render(name, opts, ds):
    """run the real diagram on an in-memory Data; -> (records, input names)"""
    install()
    import matplotlib.pyplot as mpl
    del _calls[:]
    _last.clear()
    with warnings.catch_warnings():
        warnings.simplefilter("ignore")
        with np.errstate(all="ignore"):
            data = build_data(ds)
            pl = make_output(name, opts, data)
            getattr(pl, PLOT_METHOD.get(name, "plot"))(data)
    mpl.close("all")
    return _last.get("records", []), data.get_legend()


def render_seq(items, ds):
    """several diagrams drawn one after the other from ONE verif.data.Data object (API use: a script that makes a
    number of figures of the same data).  items: [(name, opts)]; -> [(records, input names) | "ERR" | "EXC:<Type>"]"""
    install()
    import matplotlib.pyplot as mpl
    out = []
    with warnings.catch_warnings():
        warnings.simplefilter("ignore")
        with np.errstate(all="ignore"):
            data = build_data(ds)
            for name, opts in items:
                del _calls[:]
                _last.clear()
                try:
                    pl = make_output(name, opts, data)
                    getattr(pl, PLOT_METHOD.get(name, "plot"))(data)
                    out.append((_last.get("records", []), data.get_legend()))
                except SystemExit:
                    out.append("ERR")
                except Exception as e:
                    out.append("EXC:%s" % type(e).__name__)
                mpl.close("all")
    del _calls[:]
    return out


# ------------------------------------------------------------------ text files + command line
def write_text(ds, k, path):
    I = ds.inputs[k]
    cols = ["unixtime", "leadtime", "location", "lat", "lon", "altitude"]
    keys = [n for n in ("obs", "fcst", "pit") if n in I]
    keys += ["p@" + xr(t) for t in ds.thresholds(k)] + ["q@" + xr(q) for q in ds.quantiles(k)]
    keys += ["e@%d" % e for e in ds.members(k)]

    def colname(n):
        if n[1:2] == "@":
            return n[0] + (n[2:] if n[0] == "e" else repr(from_xr(n[2:])))
        return n
    with open(path, "w") as f:
        f.write("# variable: T\n# units: C\n")
        f.write(" ".join(cols + [colname(n) for n in keys]) + "\n")
        for it, t in enumerate(ds.times):
            for il, l in enumerate(ds.leads):
                for ix, x in enumerate(ds.locs):
                    row = ["%d" % t, repr(l), "%d" % x[0], repr(x[1]), repr(x[2]), repr(x[3])]
                    for n in keys:
                        v = float(I[n][it, il, ix])
                        row.append("-999" if math.isnan(v) else repr(v))
                    f.write(" ".join(row) + "\n")


def render_cli(name, opts, ds):
    """the same diagram through verif.driver.run on text files"""
    import shutil
    import tempfile
    install()
    import matplotlib.pyplot as mpl
    import verif.driver
    d = tempfile.mkdtemp(prefix="verifc16")
    try:
        files = []
        for k in range(len(ds.inputs)):
            p = os.path.join(d, "in%d" % k)
            write_text(ds, k, p)
            files.append(p)
        argv = ["verif"] + files
        if name in ("hist", "sort"):
            argv += ["-m", opts["m"], "-" + name]
        elif name in ("standard", "rank", "impact", "map", "maprank", "mapimpact"):
            argv += ["-m", opts["m"]]
            if name != "standard":
                argv += ["-type", name]
        else:
            argv += ["-m", name]
        for k, flag in (("r", "-r"), ("q", "-q")):
            if k in opts:
                argv += [flag, ",".join(repr(float(v)) for v in opts[k])]
        if "b" in opts:
            argv += ["-b", opts["b"]]
        if "x" in opts:
            argv += ["-x", opts["x"]]
        if opts.get("simple"):
            argv += ["-simple"]
        if "agg" in opts:
            argv += ["-agg", opts["agg"]]
        if opts.get("acc"):
            argv += ["-acc"]
        argv += ["-f", os.path.join(d, "out.png")]
        del _calls[:]
        _last.clear()
        with warnings.catch_warnings():
            warnings.simplefilter("ignore")
            with np.errstate(all="ignore"):
                verif.driver.run(argv)
        mpl.close("all")
        return _last.get("records", []), ["in%d" % k for k in range(len(ds.inputs))]
    finally:
        shutil.rmtree(d, ignore_errors=True)


# ------------------------------------------------------------------ selection of the data series
def _named(label, names):
    return any(label == n or label.startswith(n + " ") for n in names)


def select(name, recs, names):
    """drop decoration.  Rule: a data series is drawn directly by the diagram's core function
    (not by _plot_perfect_score/_plot_perfect_diagonal/_draw_circle/_plot_confidence/util.fill) and carries the
    legend name of an input (possibly with a suffix); per-diagram additions and exceptions are listed here."""
    out = []
    for r in recs:
        core = r["src"] in CORE
        named = _named(r["label"], names)
        keep = core and named
        if name in ("obsfcst", "freq", "marginal", "timeseries") and r["src"] == "_plot_obs":
            keep = True                                      # the observation line is data there
        elif name in ("reliability", "igncontrib") and core and r["ax"] == 1 and r["kind"] == "line":
            keep = True                                      # count curves (inset / lower panel), unlabeled
        elif name == "performance" and core and r["kind"] == "line" and r.get("alpha") == 0.3:
            keep = True                                      # potential curves (alpha 0.3), unlabeled
        elif name in ("pithist", "discrimination", "rank") and core and r["kind"] == "bar":
            keep = True
        elif name == "scatter" and core and r["kind"] == "line":
            keep = True                                      # points, conditional-quantile curves, bin whiskers
        elif name in ("timeseries", "meteo") and core and r["kind"] == "line":
            keep = True
        elif name == "against" and core and r["kind"] == "line":
            keep = not (r["zorder"] == 100 and r["ls"] == "--")      # the 1:1 line
        elif name in ("impact", "map", "mapimpact", "maprank") and core and r["kind"] in ("pts", "bar"):
            keep = True
        elif name == "invreliability" and core and r["kind"] == "line" and (r["label"] == "" or r["label"].startswith("_child")):
            keep = True                   # curves of the 2nd, 3rd ... level: label "" (matplotlib stores "_child<n>")
        elif name in ("standard", "obsfcst") and core and r["kind"] == "bar":
            keep = True                                      # -x no: the bar graph (one bar per input)
        elif name in ("autocorr", "autocov") and core and r["kind"] == "line":
            keep = True
        elif name in ("obsfcst", "meteo") and r["kind"] == "poly" and r["src"] == "fill":
            keep = True                                      # the shaded band between two quantile lines
        if name == "pithist" and r["kind"] == "line":
            keep = False
        if name == "igncontrib" and r["kind"] == "line" and r["ax"] == 0 and not named:
            keep = False
        if keep:
            out.append(r)
    return out


def show(recs):
    if not recs:
        return "-"
    parts = []
    for r in recs:
        s = "%d:%s:%s:%s:%s" % (r["ax"], r["kind"], ("_" if (not r["label"] or r["label"].startswith("_")) else r["label"]).replace(" ", "_").replace(":", "").replace(";", ""),
                                xvec(r["x"]), xvec(r["y"]))
        if r["kind"] == "bar":
            s += ":" + xvec(r["w"])
        parts.append(s)
    return ";".join(parts)


def parse(reply):
    """canonical reply -> list of (ax, kind, label, x, y, w?)"""
    if reply in ("-", ""):
        return []
    out = []
    for p in reply.split(";"):
        a = p.split(":")
        out.append((int(a[0]), a[1], a[2], from_xvec(a[3]), from_xvec(a[4]), from_xvec(a[5]) if len(a) > 5 else None))
    return out
