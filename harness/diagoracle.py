"""
C16 oracle: the defining statistics of every diagram, recomputed from the raw dataset in plain
Python / NumPy, independently of verif and of the Lean model.

A case (t, l, x) is a *valid case* for a diagram iff every field the diagram uses is finite in every
input at (t, l, x).  expected(name, opts, ds) returns the series the figure must contain, in order:
    (axes index, kind, label, x, y [, widths])
Binned diagrams: the reference convention puts every value of the closed range [first edge, last edge] in
exactly one bin; an interior edge belongs to the side the diagram's own comparison gives it, the end value
of the range belongs to the end bin.  lost_cases() counts values in the range that this leaves without bin
under the convention that reproduces the drawn numbers (reported as kind "case-in-no-bin").
"""
import math
import numpy as np
from common import xr

NAN = float("nan")


# ------------------------------------------------------------------ statistics (written out, no verif)
def mean(v):
    v = list(v)
    return sum(v) / len(v) if v else NAN


def var(v):
    v = list(v)
    if not v:
        return NAN
    m = mean(v)
    return sum((x - m) ** 2 for x in v) / len(v)


def median(v):
    s = sorted(v)
    n = len(s)
    if n == 0:
        return NAN
    return s[n // 2] if n % 2 else (s[n // 2 - 1] + s[n // 2]) / 2.0


def percentile(v, pct):
    """linear interpolation of the order statistics at (n-1)p (Hyndman & Fan 7)"""
    s = sorted(v)
    n = len(s)
    if n == 0:
        return NAN
    pos = (n - 1) * pct / 100.0
    lo = int(math.floor(pos))
    hi = min(lo + 1, n - 1)
    return s[lo] + (s[hi] - s[lo]) * (pos - lo)


def sqrt(x):
    return math.sqrt(x) if x == x and x >= 0 else NAN


def event(b, t, x, u=None):
    return {"below": x < t, "below=": x <= t, "above": x > t, "above=": x >= t,
            "within": u is not None and t < x < u, "=within": u is not None and t <= x < u,
            "within=": u is not None and t < x <= u, "=within=": u is not None and t <= x <= u}[b]


def pevent(b, p):
    return p if b in ("below", "below=") else 1.0 - p


def intervals(b, ts):
    if "within" in b:
        return [(ts[i], ts[i + 1]) for i in range(len(ts) - 1)]
    return [(t, None) for t in ts]


def center(b, iv):
    if "within" in b:
        return (iv[0] + iv[1]) / 2.0
    return iv[0]


def in_iv(b, iv, x):
    return event(b, iv[0], x, iv[1])


def ref_bin(edges, x, conv):
    """index of the reference bin of x; None outside [first, last].  conv 'ho': [e_i, e_i+1) and the last
    bin closed;  'oc': (e_i, e_i+1] and the first bin closed"""
    n = len(edges) - 1
    if not (edges[0] <= x <= edges[-1]) or n < 1:
        return None
    for i in range(n):
        if conv == "ho":
            if edges[i] <= x < edges[i + 1] or (i == n - 1 and x == edges[-1]):
                return i
        else:
            if edges[i] < x <= edges[i + 1] or (i == 0 and x == edges[0]):
                return i
    return None


def edge_values(edges, xs, conv):
    """values of the range that only the reference convention bins (the end value of the range)"""
    e = edges[-1] if conv == "ho" else edges[0]
    return sum(1 for x in xs if x == e)


def band_polygon(x, lower, upper):
    """the shaded band between two envelopes given at common abscissae (documentation of verif.util.fill, "fill an
    area along x, between y_lower and y_upper"): along the lower envelope from left to right through every point
    at which the LOWER envelope is defined, then back from right to left through every point at which the UPPER
    envelope is defined.  A point is defined iff neither its abscissa nor its own ordinate is missing (NaN);
    what the other envelope holds there is irrelevant.  -> (X, Y), possibly empty"""
    pts = []
    for i in range(len(x)):
        if x[i] == x[i] and lower[i] == lower[i]:
            pts.append((float(x[i]), float(lower[i])))
    for i in reversed(range(len(x))):
        if x[i] == x[i] and upper[i] == upper[i]:
            pts.append((float(x[i]), float(upper[i])))
    return [p[0] for p in pts], [p[1] for p in pts]


def band_series(x, lower, upper):
    X, Y = band_polygon(x, lower, upper)
    return [(0, "poly", "_", X, Y)] if X else []          # no vertex: nothing is drawn


# ------------------------------------------------------------------ valid cases
def fkey(kind, v):
    return "%s@%s" % (kind, xr(float(v)))


def derived(ds, k, key):
    """array of a field of input k; threshold probabilities are derived from the ensemble when the input
    has no such column (fraction of members <= t)"""
    I = ds.inputs[k]
    if key in I:
        return I[key]
    if key.startswith("p@") and ds.members(k):
        t = float(eval_xr(key[2:]))
        ens = np.stack([I["e@%d" % e] for e in ds.members(k)], axis=3)
        miss = np.isnan(ens)
        cnt = np.where(miss, 0, ens <= t).sum(axis=3)
        n = (~miss).sum(axis=3)
        with np.errstate(all="ignore"):
            return np.where(n > 0, cnt / np.maximum(n, 1), np.nan)
    raise KeyError(key)


def eval_xr(s):
    from common import from_xr
    return from_xr(s)


def valid(ds, keys):
    V = np.ones(ds.shape, bool)
    for k in range(len(ds.inputs)):
        for key in keys:
            V &= np.isfinite(derived(ds, k, key))
    return V


def take(ds, k, key, V):
    return [float(v) for v in derived(ds, k, key)[V]]


def axis_slices(ds, axis):
    """-> (x values, list of boolean masks)"""
    T, L, X = ds.shape

    def m(t=None, l=None, x=None):
        a = np.zeros(ds.shape, bool)
        a[t if t is not None else slice(None), l if l is not None else slice(None), x if x is not None else slice(None)] = True
        return a
    if axis in (None, "none", "no"):
        return [0.0], [np.ones(ds.shape, bool)]
    if axis == "leadtime":
        return list(ds.leads), [m(l=i) for i in range(L)]
    if axis == "time":
        return [t / 86400.0 for t in ds.times], [m(t=i) for i in range(T)]
    if axis == "location":
        return [l[0] for l in ds.locs], [m(x=i) for i in range(X)]
    if axis in ("lat", "lon", "elev"):
        j = {"lat": 1, "lon": 2, "elev": 3}[axis]
        return [l[j] for l in ds.locs], [m(x=i) for i in range(X)]
    if axis == "leadtimeday":
        days = sorted(set(math.floor(l / 24.0) for l in ds.leads))
        return [float(d) for d in days], [m(l=[i for i, l in enumerate(ds.leads) if math.floor(l / 24.0) == d]) for d in days]
    if axis in TIME_BUCKETS:
        keys = [time_bucket(axis, t) for t in ds.times]
        us = sorted(set(keys))
        xs = [u / 86400.0 for u in us] if axis in ("year", "month", "week", "day") else [float(u) for u in us]
        return xs, [m(t=[i for i, k in enumerate(keys) if k == u]) for u in us]
    raise ValueError(axis)


TIME_BUCKETS = ("year", "month", "week", "day", "timeofday", "dayofyear", "dayofmonth", "monthofyear")


def time_bucket(axis, t):
    """the calendar bucket of an initialisation time (UTC), written from the axis descriptions: year / month / week
    (Monday) / day = unixtime of the beginning of the period; timeofday in hours; dayofyear 1..366 counted in a leap
    year; dayofmonth; monthofyear"""
    import datetime
    utc = datetime.timezone.utc
    d = datetime.datetime.fromtimestamp(int(t), tz=utc)
    day0 = datetime.datetime(d.year, d.month, d.day, tzinfo=utc)
    if axis == "year":
        return datetime.datetime(d.year, 1, 1, tzinfo=utc).timestamp()
    if axis == "month":
        return datetime.datetime(d.year, d.month, 1, tzinfo=utc).timestamp()
    if axis == "week":
        return (day0 - datetime.timedelta(days=day0.weekday())).timestamp()
    if axis == "day":
        return day0.timestamp()
    if axis == "timeofday":
        return (int(t) % 86400) / 3600.0
    if axis == "dayofyear":
        return (datetime.datetime(2000, d.month, d.day) - datetime.datetime(2000, 1, 1)).days + 1
    if axis == "dayofmonth":
        return d.day
    if axis == "monthofyear":
        return d.month
    raise ValueError(axis)


def names(ds):
    return ["in%d" % k for k in range(len(ds.inputs))]


# ------------------------------------------------------------------ the diagrams
def cont_table(b, t, obs, fcst, ft=None):
    ft = t if ft is None else ft
    a = bb = c = d = 0
    for o, f in zip(obs, fcst):
        eo, ef = event(b, t, o), event(b, ft, f)
        if ef and eo:
            a += 1
        elif ef:
            bb += 1
        elif eo:
            c += 1
        else:
            d += 1
    return a, bb, c, d


def ratio(n, d):
    return n / float(d) if d else NAN


def metric_value(m, o, f):
    if not o:
        return NAN
    if m == "mae":
        return mean(abs(x - y) for x, y in zip(o, f))
    if m == "bias":
        return mean(y - x for x, y in zip(o, f))
    if m == "rmse":
        return sqrt(mean((x - y) ** 2 for x, y in zip(o, f)))
    if m == "corr":
        if len(o) <= 1 or var(f) == 0 or var(o) == 0:
            return NAN
        mo, mf = mean(o), mean(f)
        return mean((x - mo) * (y - mf) for x, y in zip(o, f)) / sqrt(var(o) * var(f))
    raise ValueError(m)


def aggregate(agg, v):
    """the aggregators of -agg on a non-empty list of finite numbers, from their names / docstrings (exact rational
    arithmetic up to the final sqrt); an empty list: count 0, everything else undefined"""
    from fractions import Fraction as Q
    v = [Q(x) for x in v]
    n = len(v)
    if n == 0:
        return 0.0 if agg == "count" else NAN
    s = sorted(v)
    mu = sum(v) / n

    def pct(p):          # linear interpolation between order statistics (NumPy's default, Hyndman & Fan 7)
        pos = (n - 1) * Q(p)
        lo = int(pos)
        hi = min(lo + 1, n - 1)
        return s[lo] + (s[hi] - s[lo]) * (pos - lo)
    if agg == "mean":
        r = mu
    elif agg == "median":
        r = pct(Q(1, 2))
    elif agg == "min":
        r = s[0]
    elif agg == "max":
        r = s[-1]
    elif agg == "variance":
        r = sum((x - mu) ** 2 for x in v) / n
    elif agg == "std":
        return math.sqrt(sum((x - mu) ** 2 for x in v) / n)
    elif agg == "iqr":
        r = pct(Q(3, 4)) - pct(Q(1, 4))
    elif agg == "range":
        r = s[-1] - s[0]
    elif agg == "count":
        r = Q(n)
    elif agg == "sum":
        r = sum(v)
    elif agg == "meanabs":
        r = sum(abs(x) for x in v) / n
    elif agg == "absmean":
        r = abs(mu)
    elif agg == "change":
        r = v[-1] - v[0]
    elif agg == "abschange":
        r = abs(v[-1] - v[0])
    else:
        r = pct(Q(agg))          # a number: that quantile
    return float(r)


def cont_value(m, a, b, c, d):
    """2x2 verification measures (Wilks ch. 8; Jolliffe & Stephenson); undefined (zero denominator) = NaN"""
    from fractions import Fraction as Q
    a, b, c, d = Q(a), Q(b), Q(c), Q(d)
    n = a + b + c + d
    if n == 0:
        return NAN

    def div(x, y):
        return float(x / y) if y != 0 else NAN
    if m in ("a", "b", "c", "d"):
        return float({"a": a, "b": b, "c": c, "d": d}[m] / n)
    if m == "n":
        return float(n)
    if m == "ets":
        ar = (a + b) * (a + c) / n
        return div(a - ar, a + b + c - ar)
    return {"hit": lambda: div(a, a + c), "miss": lambda: div(c, a + c), "fa": lambda: div(b, b + d),
            "far": lambda: div(b, a + b), "threat": lambda: div(a, a + b + c), "pc": lambda: div(a + d, n),
            "kss": lambda: div(a * d - b * c, (a + c) * (b + d)),
            "hss": lambda: div(2 * (a * d - b * c), (a + c) * (c + d) + (a + b) * (b + d)),
            "biasfreq": lambda: div(a + b, a + c), "baserate": lambda: div(a + c, n), "fcstrate": lambda: div(a + b, n),
            "yulesq": lambda: div(a * d - b * c, a * d + b * c), "or": lambda: div(a * d, b * c)}[m]()


CONT_METRICS = ("a", "b", "c", "d", "n", "ets", "hit", "miss", "fa", "far", "threat", "pc", "kss", "hss", "biasfreq",
                "baserate", "fcstrate", "yulesq", "or")
PROB_METRICS = ("bs", "bss", "bsunc", "bsrel", "bsres", "bssrel", "bssres", "marginalratio")


def prob_value(m, oe, p):
    """Brier score and its parts for events oe (0/1) and probabilities p (Murphy 1973, ten probability bins
    [k/10, (k+1)/10), p = 1 in the last one), skill scores relative to the uncertainty, marginal ratio"""
    from fractions import Fraction as Q
    oe, p = [Q(x) for x in oe], [Q(x) for x in p]
    n = len(oe)
    if n == 0:
        return NAN
    ob = sum(oe) / n
    bs = sum((q - x) ** 2 for x, q in zip(oe, p)) / n
    unc = ob * (1 - ob)
    bins = [[] for _ in range(10)]
    for x, q in zip(oe, p):
        k = min(9, int(q * 10)) if 0 <= q <= 1 else None
        if k is not None:
            bins[k].append((x, q))
    nb = sum(len(bn) for bn in bins)
    rel = sum(sum((q - sum(x for x, _ in bn) / len(bn)) ** 2 for _, q in bn) for bn in bins if bn) / nb if nb else None
    res = sum(len(bn) * (sum(x for x, _ in bn) / len(bn) - ob) ** 2 for bn in bins if bn) / nb if nb else None
    f = lambda r: NAN if r is None else float(r)
    if m == "bs":
        return float(bs)
    if m == "bsunc":
        return float(unc)
    if m == "bss":
        return float((unc - bs) / unc) if unc != 0 else NAN
    if m == "bsrel":
        return f(rel)
    if m == "bsres":
        return f(res)
    if m == "bssrel":
        return f(rel / unc) if unc != 0 and rel is not None else NAN
    if m == "bssres":
        return f(res / unc) if unc != 0 and res is not None else NAN
    if m == "marginalratio":
        mp = sum(p) / n
        return float(ob / mp) if mp != 0 else NAN
    raise ValueError(m)


def running(v):
    """-acc: running sums along the axis, a missing value counting as 0"""
    out, s = [], 0.0
    for x in v:
        s += 0.0 if x != x else x
        out.append(s)
    return out


def expected_standard(o, ds):
    """-m <metric> as a line plot / bar graph: for input f the value at x-entry k is the metric of the common valid
    cases of slice k (data axis; with several thresholds the mean over the thresholds of the per-threshold scores) or of
    all cases for threshold k (-x threshold); -acc: the running sum; -x no: one bar per input"""
    F = len(ds.inputs)
    nm = names(ds)
    m = o["m"]
    fam = "cont" if m in CONT_METRICS else ("prob" if m in PROB_METRICS else "det")
    b = o.get("b") or "above"
    ts = o.get("r")
    ivs = intervals(b, ts) if ts is not None else [None]
    ax = o.get("x") or ("leadtime" if fam == "det" else "threshold")
    if ax == "threshold":
        xs, ms = [center(b, iv) for iv in ivs], None
    else:
        xs, ms = axis_slices(ds, ax)
    agg = o.get("agg", "mean")

    def cell(f, iv, mask):
        if fam == "prob":
            keys = ["obs", fkey("p", iv[0])] + ([fkey("p", iv[1])] if "within" in b else [])
            V = valid(ds, keys) & mask
            ob = take(ds, f, "obs", V)
            if not ob:
                return NAN
            oe = [1.0 if in_iv(b, iv, x) else 0.0 for x in ob]
            if "within" in b:
                p = [u - l for l, u in zip(take(ds, f, keys[1], V), take(ds, f, keys[2], V))]
            elif b.startswith("above"):
                p = [1.0 - c for c in take(ds, f, keys[1], V)]
            else:
                p = take(ds, f, keys[1], V)
            return prob_value(m, oe, p)
        V = valid(ds, ["obs", "fcst"]) & mask
        ob, fc = take(ds, f, "obs", V), take(ds, f, "fcst", V)
        if not ob:
            return NAN
        if fam == "cont":
            a, bb, c, d = (sum(1 for x, y in zip(ob, fc) if in_iv(b, iv, y) == ey and in_iv(b, iv, x) == ex)
                           for ey, ex in ((True, True), (True, False), (False, True), (False, False)))
            return cont_value(m, a, bb, c, d)
        if m == "corr":
            return metric_value("corr", ob, fc)
        if m == "mae":
            return aggregate(agg, [abs(x - y) for x, y in zip(ob, fc)])
        if m == "bias":
            return aggregate(agg, [y - x for x, y in zip(ob, fc)])
        if m == "rmse":
            return sqrt(aggregate(agg, [(x - y) ** 2 for x, y in zip(ob, fc)]))
        raise ValueError(m)

    allc = np.ones(ds.shape, bool)
    cols = []
    for f in range(F):
        if ax == "threshold":
            y = [cell(f, iv, allc) for iv in ivs]
        else:
            y = [mean([cell(f, iv, mk) for iv in ivs]) for mk in ms]
        cols.append(running(y) if o.get("acc") else y)
    if ax in ("no", "none"):
        return [(0, "bar", "_", [0.2 + k for k in range(F)], [c[0] for c in cols], [0.8] * F)]
    return [(0, "line", nm[f], xs, cols[f]) for f in range(F)]


def expected(name, o, ds):
    F = len(ds.inputs)
    nm = names(ds)
    b = o.get("b")
    out = []
    if name == "obsfcst":
        xs, ms = axis_slices(ds, o.get("x", "leadtime"))
        V = valid(ds, ["obs", "fcst"])
        agg = o.get("agg", "mean")
        acc = running if o.get("acc") else (lambda v: v)
        obsl = acc([aggregate(agg, take(ds, 0, "obs", V & m)) for m in ms])
        fl, qls = [], []
        for f in range(F):
            fl.append(acc([aggregate(agg, take(ds, f, "fcst", V & m)) for m in ms]))
            ql = []
            for q in o.get("q", []):
                Vq = valid(ds, [fkey("q", q), "obs"])
                ql.append(acc([aggregate(agg, take(ds, f, fkey("q", q), Vq & m)) for m in ms]))
            qls.append(ql)
        if o.get("x") in ("no", "none"):
            # the bar graph: observation, forecasts in input order, then the quantile lines level by level
            h = [obsl[0]] + [v[0] for v in fl] + [qls[f][j][0] for j in range(len(o.get("q", []))) for f in range(F)]
            return [(0, "bar", "_", [0.2 + k for k in range(len(h))], h, [0.8] * len(h))]
        out.append((0, "line", "Observed", xs, obsl))
        for f in range(F):
            out.append((0, "line", nm[f], xs, fl[f]))
            ql = qls[f]
            for j, q in enumerate(o.get("q", [])):
                out.append((0, "line", "%s %g%%" % (nm[f], q * 100), xs, ql[j]))
            for i in range(len(ql) // 2):          # the band between the i-th and the i-th last quantile line
                out += band_series(xs, ql[i], ql[len(ql) - 1 - i])
    elif name in ("qq", "scatter"):
        qs = o.get("q", []) if name == "qq" else []
        V = valid(ds, ["obs", "fcst"] + [fkey("q", q) for q in qs])
        ax = o.get("x", "none")
        for f in range(F):
            if ax in ("none", "no"):
                cols = [take(ds, f, k, V) for k in ["obs", "fcst"] + [fkey("q", q) for q in qs]]
            else:
                _, ms = axis_slices(ds, ax)
                cols = [[aggregate(o.get("agg", "mean"), take(ds, f, k, V & m)) for m in ms]
                        for k in ["obs", "fcst"] + [fkey("q", q) for q in qs]]
            if name == "qq":
                srt = lambda v: sorted([x for x in v if x == x]) + [x for x in v if x != x]
                out.append((0, "line", nm[f] + (" (deterministic)" if qs else ""), srt(cols[0]), srt(cols[1])))
                for j, q in enumerate(qs):
                    out.append((0, "line", "%s (%g%%)" % (nm[f], q * 100), srt(cols[0]), srt(cols[2 + j])))
            else:
                out.append((0, "line", nm[f], cols[0], cols[1]))
                if not o.get("simple") and "r" in o:
                    out += scatter_quantiles(o["r"], cols[0], cols[1], f)
    elif name == "cond":
        b = b or "within="
        ivs = intervals(b, o["r"])
        V = valid(ds, ["obs", "fcst"])
        for f in range(F):
            ob, fc = take(ds, f, "obs", V), take(ds, f, "fcst", V)
            of = [mean(y for x, y in zip(ob, fc) if in_iv(b, iv, x)) for iv in ivs]
            xof = [median([x for x in ob if in_iv(b, iv, x)]) for iv in ivs]
            fo = [mean(x for x, y in zip(ob, fc) if in_iv(b, iv, y)) for iv in ivs]
            xfo = [median([y for y in fc if in_iv(b, iv, y)]) for iv in ivs]
            out.append((0, "line", nm[f] + " (F|O)", xof, of))
            out.append((0, "line", nm[f] + " (O|F)", fo, xfo))
    elif name == "freq":
        b = b or "within="
        ivs = intervals(b, o["r"])
        cs = [center(b, iv) for iv in ivs]
        V = valid(ds, ["obs", "fcst"])
        for f in range(F):
            fc = take(ds, f, "fcst", V)
            out.append((0, "line", nm[f], cs, [mean(1.0 if in_iv(b, iv, y) else 0.0 for y in fc) for iv in ivs]))
        ob = take(ds, F - 1, "obs", V)
        out.append((0, "line", "Observed", cs, [mean(1.0 if in_iv(b, iv, x) else 0.0 for x in ob) for iv in ivs]))
    elif name == "hist":
        b = b or "within="
        ivs = intervals(b, o["r"])
        cs = [center(b, iv) for iv in ivs]
        V = valid(ds, [o["m"]])
        for f in range(F):
            v = take(ds, f, o["m"], V)
            c = [sum(1 for x in v if in_iv(b, iv, x)) for iv in ivs]
            out.append((0, "line", nm[f], cs, [ratio(100.0 * ci, sum(c)) for ci in c]))
    elif name == "sort":
        V = valid(ds, [o["m"]])
        for f in range(F):
            v = sorted(take(ds, f, o["m"], V))
            n = len(v)
            out.append((0, "line", nm[f], v, [0.0] if n == 1 else [100.0 * i / (n - 1) for i in range(n)]))
    elif name == "marginal":
        b = b or "above"
        ts = o.get("r", ds.thresholds())
        clim = []
        for f in range(F):
            y = []
            clim = []
            for t in ts:
                V = valid(ds, ["obs", fkey("p", t)])
                y.append(mean(pevent(b, p) for p in take(ds, f, fkey("p", t), V)))
                clim.append(mean(1.0 if event(b, t, x) else 0.0 for x in take(ds, f, "obs", V)))
            out.append((0, "line", nm[f], ts, y))
        out.append((0, "line", "Observed", ts, clim))
    elif name in ("reliability", "igncontrib", "discrimination", "roc", "murphy", "economicvalue"):
        b = b or "above"
        t = o["r"][0]
        V = valid(ds, ["obs", fkey("p", t)])
        per = []
        for f in range(F):
            ob = [1.0 if event(b, t, x) else 0.0 for x in take(ds, f, "obs", V)]
            p = [pevent(b, q) for q in take(ds, f, fkey("p", t), V)]
            per.append((ob, p))
        if name == "reliability":
            edges = o.get("q", [0, 0.05, 0.15, 0.25, 0.35, 0.45, 0.55, 0.65, 0.75, 0.85, 0.95, 1])
            counts = []
            for f, (ob, p) in enumerate(per):
                bins = [[] for _ in edges[:-1]]
                for x, q in zip(ob, p):
                    i = ref_bin(edges, q, "ho")
                    if i is not None:
                        bins[i].append((x, q))
                xs = [mean(q for _, q in bn) if bn else 0.0 for bn in bins]
                ys = [mean(x for x, _ in bn) if len(bn) >= 5 else NAN for bn in bins]
                out.append((0, "line", nm[f], xs, ys))
                counts.append((xs, [float(len(bn)) for bn in bins]))
            if not o.get("simple") and max(max(c[1]) for c in counts) > 1:
                for xs, n in counts:
                    out.append((1, "line", "_", xs, n))
        elif name == "igncontrib":
            N = min(25, max(11, len(per[0][0]) // 1000))
            edges = [i / float(N) for i in range(N + 1)]
            low = []
            for f, (ob, p) in enumerate(per):
                bins = [[] for _ in edges[:-1]]
                for x, q in zip(ob, p):
                    i = ref_bin(edges, q, "ho")
                    if i is not None:
                        bins[i].append((x, q))
                tot = float(sum(len(bn) for bn in bins))
                xs = [mean(q for _, q in bn) for bn in bins]
                ys = []
                for bn in bins:
                    if not bn:
                        ys.append(NAN)
                        continue
                    s = 0.0
                    for x, q in bn:
                        v = q if x == 1 else 1 - q
                        s -= math.log2(v) if v > 0 else -math.inf
                    ys.append(s / tot * len(bins))
                out.append((0, "line", nm[f], xs, ys))
                low.append((1, "line", "_", xs, [float(len(bn)) for bn in bins]))
            out += low
        elif name == "discrimination":
            edges = o.get("q", [i / 10.0 for i in range(11)])
            nb = len(edges) - 1
            for f, (ob, p) in enumerate(per):
                for cls, lab in ((0.0, " not observed"), (1.0, " observed")):
                    sel = [q for x, q in zip(ob, p) if x == cls]
                    c = [0] * nb
                    for q in sel:
                        i = ref_bin(edges, q, "ho")
                        if i is not None:
                            c[i] += 1
                    out.append((0, "bar", nm[f] + lab, None, [ratio(100.0 * ci, len(sel)) for ci in c], None,
                                edges if "q" not in o else None))
        elif name == "roc":
            levels = o.get("q", [i / 10.0 for i in range(11)])
            for f, (ob, p) in enumerate(per):
                xs, ys = [1.0], [1.0]
                for lv in levels:
                    a = sum(1 for x, q in zip(ob, p) if q >= lv and x == 1)
                    bb = sum(1 for x, q in zip(ob, p) if q >= lv and x == 0)
                    c = sum(1 for x, q in zip(ob, p) if not q >= lv and x == 1)
                    d = sum(1 for x, q in zip(ob, p) if not q >= lv and x == 0)
                    ok = a + c > 0 and bb + d > 0
                    xs.append(bb / float(bb + d) if ok else NAN)
                    ys.append(a / float(a + c) if ok else NAN)
                out.append((0, "line", nm[f], xs + [0.0], ys + [0.0]))
        elif name == "murphy":
            th = [i / 20.0 for i in range(21)]
            for f, (ob, p) in enumerate(per):
                ys = []
                for e in th:
                    s = [2 * e if (q > e and x == 0) else 2 * (1 - e) if (q < e and x == 1) else 2 * e * (1 - e) if q == e else 0.0
                         for x, q in zip(ob, p)]
                    ys.append(mean(s))
                out.append((0, "line", nm[f], th, ys))
        else:      # economicvalue
            cl = [(i / 20.0) ** 3 for i in range(21)]
            for f, (ob, p) in enumerate(per):
                clim = mean(ob)
                ys = []
                for c in cl:
                    tot = (c * sum(1 for q in p if q >= c) + sum(1 for x, q in zip(ob, p) if q < c and x == 1)) / float(len(ob))
                    cc, pc = min(clim, c), clim * c
                    ys.append(0.0 if cc == pc else (cc - tot) / (cc - pc))
                out.append((0, "line", nm[f], cl, ys))
    elif name == "invreliability":
        # one group of curves per quantile level, in -q order; within a group one curve per input.  Every curve is the
        # statistic of ITS level only: a bin with fewer than two cases of that level has no point (y NaN), an empty
        # bin has x = 0 -- whatever another level has in that bin.  Only the first group carries the legend names.
        edges = o["r"]
        for t, q in enumerate(o["q"]):
            V = valid(ds, ["obs", fkey("q", q)])
            for f in range(F):
                ob, qv = take(ds, f, "obs", V), take(ds, f, fkey("q", q), V)
                bins = [[] for _ in edges[:-1]]
                for x, v in zip(ob, qv):
                    i = ref_bin(edges, v, "ho")
                    if i is not None:
                        bins[i].append((1.0 if x <= v else 0.0, v))
                out.append((0, "line", nm[f] if t == 0 else "", [mean(v for _, v in bn) if bn else 0.0 for bn in bins],
                            [mean(x for x, _ in bn) if len(bn) >= 2 else NAN for bn in bins]))
    elif name == "standard":
        return expected_standard(o, ds)
    elif name in ("performance", "taylor", "error", "bsdecomp"):
        ax = o.get("x", "none")
        xs, ms = axis_slices(ds, ax)
        t = o["r"][0] if "r" in o else None
        keys = ["obs", fkey("p", t)] if name == "bsdecomp" else ["obs", "fcst"]
        V = valid(ds, keys)
        for f in range(F):
            X, Y = [], []
            pot = []
            for m in ms:
                ob, fc = take(ds, f, "obs", V & m), take(ds, f, keys[1], V & m)
                if name == "performance":
                    a, bb, c, d = cont_table(b or "above", t, ob, fc)
                    X.append(1 - ratio(bb, a + bb) if ob else NAN)
                    Y.append(ratio(a, a + c) if ob else NAN)
                elif name == "taylor":
                    so, sf = sqrt(var(ob)), sqrt(var(fc))
                    r = metric_value("corr", ob, fc) if len(ob) > 1 and so > 0 and sf > 0 else NAN
                    r = max(-1.0, min(1.0, r)) if r == r else r
                    if len(ms) > 1:
                        sf = sf / so if so else (NAN if sf == 0 else math.inf)
                    X.append(sf * r)
                    Y.append(sf * sqrt(1 - r * r) if r == r else NAN)
                elif name == "error":
                    bias = mean(y - x for x, y in zip(ob, fc))          # systematic error = bias = fcst - obs
                    mse = mean((x - y) ** 2 for x, y in zip(ob, fc))
                    X.append(sqrt(mse - bias * bias) if ob else NAN)
                    Y.append(bias)
                elif name == "bsdecomp":
                    bt = b or "above"
                    oe = [1.0 if event(bt if bt.startswith("above") else bt, t, x) else 0.0 for x in ob]
                    # get_p uses the open/closed interval of -b for the observation; the probability is 1 - cdf / cdf
                    p = [pevent(bt, q) for q in fc]
                    edges = [i / 10.0 for i in range(10)] + [1.001]
                    bins = [[] for _ in edges[:-1]]
                    for x, q in zip(oe, p):
                        i = ref_bin(edges, q, "ho")
                        if i is not None:
                            bins[i].append((x, q))
                    n = float(len(oe))
                    ombar = mean(oe)
                    rel = sum(sum((q - mean(x for x, _ in bn)) ** 2 for _, q in bn) for bn in bins if bn) / n if n else NAN
                    res = sum(len(bn) * (mean(x for x, _ in bn) - ombar) ** 2 for bn in bins if bn) / n if n else NAN
                    X.append(rel)
                    Y.append(res)
                else:
                    X.append(metric_value(o["m"], ob, fc))
            if name == "standard":
                out.append((0, "line", nm[f], xs, X))
            else:
                out.append((0, "line", nm[f], X, Y))
    elif name == "pithist":
        edges = o.get("r", [i / 10.0 for i in range(11)])
        V = valid(ds, ["pit"])
        for f in range(F):
            v = take(ds, f, "pit", V)
            c = [0] * (len(edges) - 1)
            for x in v:
                i = ref_bin(edges, x, "ho")
                if i is not None:
                    c[i] += 1
            out.append((f, "bar", "_", list(edges[:-1]), [ratio(100.0 * ci, sum(c)) for ci in c],
                        [edges[i + 1] - edges[i] for i in range(len(edges) - 1)]))
    elif name == "spreadskill":
        qs = o.get("q", ds.quantiles())
        lo, hi = min(qs), max(qs)
        th = o["r"]
        V = valid(ds, ["obs", "fcst", fkey("q", lo), fkey("q", hi)])
        for f in range(F):
            ob, fc = take(ds, f, "obs", V), take(ds, f, "fcst", V)
            sp = [u - l for l, u in zip(take(ds, f, fkey("q", lo), V), take(ds, f, fkey("q", hi), V))]
            bins = [[] for _ in th[:-1]]
            for x, y, s in zip(ob, fc, sp):
                i = ref_bin(th, s, "oc")
                if i is not None:
                    bins[i].append((s, (x - y) ** 2))
            out.append((0, "line", nm[f], [NAN] + [mean(s for s, _ in bn) for bn in bins],
                        [NAN] + [sqrt(mean(k for _, k in bn)) for bn in bins]))
    elif name in ("droc", "droc0"):
        t = o["r"][0]
        b = b or "above"
        fts = [t] if name == "droc0" else [t - 10 + 20.0 * i / 30 for i in range(31)]
        V = valid(ds, ["obs", "fcst"])
        for f in range(F):
            ob, fc = take(ds, f, "obs", V), take(ds, f, "fcst", V)
            xs, ys = [1.0], [1.0]
            for ft in fts:
                a, bb, c, d = cont_table(b, t, ob, fc, ft)
                xs.append(ratio(bb, bb + d))
                ys.append(ratio(a, a + c))
            out.append((0, "line", nm[f], xs + [0.0], ys + [0.0]))
    elif name == "against":
        if F < 2:
            return None
        # one panel per ordered pair of different inputs (with two inputs: only input 0 against input 1)
        pairs = [(0, 1)] if F == 2 else [(i, j) for i in range(F) for j in range(F) if i != j]
        Va = valid(ds, ["fcst"])
        V = valid(ds, ["obs", "fcst"])
        for ax, (f0, f1) in enumerate(pairs):
            ax += F > 2         # layout, not data: with more than two inputs the code leaves an empty full-figure axes at index 0
            out.append((ax, "line", "_", take(ds, f0, "fcst", Va), take(ds, f1, "fcst", Va)))
            ob, x, y = take(ds, f0, "obs", V), take(ds, f0, "fcst", V), take(ds, f1, "fcst", V)
            out.append((ax, "line", "_", x, y))
            std = sqrt(var(ob)) / 2
            for k in range(5):
                ix = [i for i in range(len(ob)) if abs(ob[i] - y[i]) > abs(ob[i] - x[i]) + std * k / 5]
                iy = [i for i in range(len(ob)) if abs(ob[i] - y[i]) + std * k / 5 < abs(ob[i] - x[i])]
                out.append((ax, "line", "_", [x[i] for i in ix], [y[i] for i in ix]))
                out.append((ax, "line", "_", [x[i] for i in iy], [y[i] for i in iy]))
    elif name == "change":
        th = o["r"]
        V = valid(ds, ["obs", "fcst"])
        for f in range(F):
            ob = np.where(V, ds.inputs[f]["obs"], np.nan)
            fc = np.where(V, ds.inputs[f]["fcst"], np.nan)
            ch = (ob[1:] - ob[:-1]).flatten()
            er = np.abs(ob - fc)[1:].flatten()
            bins = [[] for _ in th[:-1]]
            for c, e in zip(ch, er):
                if c == c:
                    i = ref_bin(th, c, "oc")
                    if i is not None:
                        bins[i].append((c, e))
            out.append((0, "line", nm[f], [mean(c for c, _ in bn) for bn in bins],
                        [mean(e for _, e in bn if e == e) for bn in bins]))
    elif name == "timeseries":
        T, L, X = ds.shape
        Vo = valid(ds, ["obs"])
        ob = np.where(Vo, ds.inputs[0]["obs"], np.nan)
        pts = {}
        for it, t in enumerate(ds.times):
            for il, l in enumerate(ds.leads):
                key = (t + l * 3600) / 86400.0
                if key not in pts:
                    v = [x for x in ob[it, il, :] if x == x]
                    pts[key] = mean(v)
        ks = sorted(pts)
        out.append((0, "line", "obs", ks, [pts[k] for k in ks]))
        Vf = valid(ds, ["fcst"])
        for f in range(F):
            fc = np.where(Vf, ds.inputs[f]["fcst"], np.nan)
            for it, t in enumerate(ds.times):
                out.append((0, "line", nm[f] if it == 0 else "_", [t / 86400.0 + l / 24.0 for l in ds.leads],
                            [mean(x for x in fc[it, il, :] if x == x) for il in range(L)]))
        for f in range(F):
            for e in ds.members(f):
                Ve = valid_members(ds, e)
                en = np.where(Ve, ds.inputs[f]["e@%d" % e], np.nan)
                for it, t in enumerate(ds.times):
                    out.append((0, "line", "_", [t / 86400.0 + l / 24.0 for l in ds.leads],
                                [mean(x for x in en[it, il, :] if x == x) for il in range(L)]))
        for q in o.get("q", []):
            Vq = valid(ds, [fkey("q", q)])
            for f in range(F):
                qa = np.where(Vq, ds.inputs[f][fkey("q", q)], np.nan)
                for it, t in enumerate(ds.times):
                    out.append((0, "line", "%g%%" % (q * 100) if it == 0 else "_", [t / 86400.0 + l / 24.0 for l in ds.leads],
                                [mean(x for x in qa[it, il, :] if x == x) for il in range(L)]))
    elif name == "meteo":
        T, L, X = ds.shape
        xs = [(ds.times[0] + l * 3600) / 86400.0 for l in ds.leads]

        def avg(key):
            a = np.where(valid(ds, [key]), ds.inputs[0][key], np.nan)
            res = []
            for il in range(L):
                per_t = []          # mean over times first (per location), then over locations
                for ix in range(X):
                    v = [x for x in a[:, il, ix] if x == x]
                    per_t.append(mean(v))
                res.append(mean(x for x in per_t if x == x))
            return res
        out.append((0, "line", "Observed", xs, avg("obs")))
        out.append((0, "line", "Forecast", xs, avg("fcst")))
        ql = []
        for q in sorted(o.get("q", ds.quantiles())):
            ql.append(avg(fkey("q", q)))
            out.append((0, "line", "%g%%" % (q * 100), xs, ql[-1]))
        for i in range(len(ql) // 2):              # bands between the i-th lowest and the i-th highest quantile
            out += band_series(xs, ql[i], ql[len(ql) - 1 - i])
    else:
        return None
    return out


def valid_members(ds, e):
    V = np.ones(ds.shape, bool)
    for k in range(len(ds.inputs)):
        V &= np.isfinite(ds.inputs[k]["e@%d" % e])
    return V


def scatter_quantiles(edges, obs, fcst, f):
    """conditional quantiles of the observation given the forecast bin, and the 10-90 % whisker per bin"""
    qs = [0.01, 0.1, 0.2, 0.3, 0.4, 0.5, 0.6, 0.7, 0.8, 0.9, 0.99]
    nb = len(edges) - 1
    mids = [(edges[i] + edges[i + 1]) / 2.0 for i in range(nb)]
    bins = [[] for _ in range(nb)]
    for x, y in zip(obs, fcst):
        i = ref_bin(edges, y, "ho")
        if i is not None:
            bins[i].append(x)
    vals = [[percentile(bn, q * 100) if bn else NAN for bn in bins] for q in qs]
    out = []
    for j, q in enumerate(qs):
        lab = "_"
        if f == 0:
            lab = {0: "1%", 10: "99%", 1: "10%-90%"}.get(j, "_")
        out.append((0, "line", lab, vals[j], mids))
    for i in range(nb):
        out.append((0, "line", "_", [vals[1][i], vals[-2][i]], [mids[i], mids[i]]))
    return out


def binned_values(name, o, ds):
    """for the binned diagrams: (edges, convention, per-input list of binned values) — used to classify a
    mismatch as 'case-in-no-bin' and for the count oracle"""
    F = len(ds.inputs)
    b = o.get("b") or "above"
    if name in ("reliability", "igncontrib", "discrimination"):
        t = o["r"][0]
        V = valid(ds, ["obs", fkey("p", t)])
        vals = [[pevent(b, q) for q in take(ds, f, fkey("p", t), V)] for f in range(F)]
        if name == "reliability":
            edges = o.get("q", [0, 0.05, 0.15, 0.25, 0.35, 0.45, 0.55, 0.65, 0.75, 0.85, 0.95, 1])
        elif name == "discrimination":
            edges = o.get("q", [i / 10.0 for i in range(11)])
        else:
            N = min(25, max(11, len(vals[0]) // 1000))
            edges = [i / float(N) for i in range(N + 1)]
        return edges, "ho", vals
    if name == "invreliability":      # one list per drawn curve: quantile levels in -q order x inputs
        vals = []
        for q in o["q"]:
            V = valid(ds, ["obs", fkey("q", q)])
            vals += [take(ds, f, fkey("q", q), V) for f in range(F)]
        return o["r"], "ho", vals
    if name == "scatter" and "r" in o and not o.get("simple") and o.get("x", "none") in ("none", "no"):
        V = valid(ds, ["obs", "fcst"])
        return o["r"], "ho", [take(ds, f, "fcst", V) for f in range(F)]
    if name == "spreadskill":
        qs = o.get("q", ds.quantiles())
        lo, hi = min(qs), max(qs)
        V = valid(ds, ["obs", "fcst", fkey("q", lo), fkey("q", hi)])
        return o["r"], "oc", [[u - l for l, u in zip(take(ds, f, fkey("q", lo), V), take(ds, f, fkey("q", hi), V))] for f in range(F)]
    if name == "change":
        V = valid(ds, ["obs", "fcst"])
        vals = []
        for f in range(F):
            ob = np.where(V, ds.inputs[f]["obs"], np.nan)
            ch = (ob[1:] - ob[:-1]).flatten()
            vals.append([float(c) for c in ch if c == c])
        return o["r"], "oc", vals
    return None
