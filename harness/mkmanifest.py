#!/venv/bin/python
"""Writes /verif/MANIFEST.json from the property modules that exist (harness/props/cXX.py)."""
import importlib
import json
import os
import sys

HERE = os.path.dirname(os.path.abspath(__file__))
sys.path.insert(0, HERE)
VERIF = os.path.dirname(HERE)

ALL = ["C%02d" % i for i in range(1, 21)]
checks, na = [], []
for pid in ALL:
    path = os.path.join(HERE, "props", pid.lower() + ".py")
    if not os.path.exists(path):
        na.append({"property_id": pid, "reason": "not yet covered: the Lean model / theorems / correspondence "
                   "stream for this property are not built yet (see DESIGN.md §3 for the intended design); "
                   "no other technique is substituted"})
        continue
    m = importlib.import_module("props." + pid.lower())
    checks.append({
        "property_id": pid,
        "quick_cmd": "./check %s --tier quick" % pid,
        "thorough_cmd": "./check %s --tier thorough" % pid,
        "evidence_file": "evidence/%s.json" % pid,
        "replay_cmd_template": "./check %s --replay {path}" % pid,
        "engine": "lean-proof+correspondence",
        "level_claimed": {"category": "proof", "text": m.LEVEL_TEXT, "design_ref": "DESIGN.md §3 " + pid},
        "level_note": "; ".join(m.TRUSTED_BASE),
        "technique": m.TECHNIQUE,
    })
man = {
    "version": 1,
    "setup_cmd": "./setup.sh",
    "hooks": {
        "guard": "WFRT_VERIF_VERIF",
        "enable": "no hooks are needed: checks import verif from /repo's working tree (PYTHONPATH=/repo) and "
                  "observe it through its public functions and monkey-patching from the harness",
        "baseline_off_cmd": "cd /repo && /venv/bin/python -m pytest -ra -q -p no:cacheprovider --timeout=900 "
                            "--continue-on-collection-errors",
        "source_commits": [],
        "add_only": True,
    },
    "engines": [{
        "name": "lean-proof+correspondence", "path": "lean/ + harness/",
        "serves_properties": [c["property_id"] for c in checks],
        "kind_free_text": "Lean 4 theorems about a formal model (lean/Proofs), part of the model regenerated from "
                          "/repo on every run by harness/translate.py (lean/VerifModel/Gen), the rest tied by a "
                          "differential correspondence check against the real Python code through a compiled Lean "
                          "driver (lean/Main.lean)"}],
    "checks": checks,
    "not_applicable": na,
    "notes": "See DESIGN.md. known_findings.txt lists recorded and repaired defects.",
}
with open(os.path.join(VERIF, "MANIFEST.json"), "w") as f:
    json.dump(man, f, indent=1)
print("MANIFEST.json: %d checks, %d not claimed" % (len(checks), len(na)))

# the pinned copies of the generated model (DESIGN §8.8) must be what the translator reads out of /repo now
import subprocess
p = subprocess.run(["/venv/bin/python", os.path.join(HERE, "translate.py")], capture_output=True, text=True)
import common
stale = common.gen_differs(sorted(common.GEN_FILES.values()))
missing = [n for n in common.GEN_FILES.values() if not os.path.exists(os.path.join(common.PINNED, n))]
if stale or missing:
    print("WARNING: lean/pinned_gen is stale (%s) — run harness/translate.py --pin on the clean /repo tree" % (stale + missing))
    sys.exit(1)
