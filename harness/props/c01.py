"""C01 — fair comparison: every input is scored on the identical set of cases."""
import math
import random
import numpy as np
import datagen as dg
from common import xr, xvec, from_xvec, tokens_close

ID = "C01"
TARGETS = ["Proofs.C01", "Proofs.DataRefine", "Proofs.DataFields"]
GEN_PREFIXES = []
THEOREMS = {"Proofs.C01": ["VerifModel.C01." + t for t in [
    "C01_propagate_cell", "C01_propagate_nan_iff", "C01_propagate_keeps", "C01_same_validity",
    "C01_same_cases", "cut_shape", "C01_obs_borrowed", "C01_noninterference", "anyNanAt_set"]],
    "Proofs.DataRefine": ["VerifModel.DataRefine." + t for t in [
        "getScores_refines", "C01_same_case_set", "getScores_over_specCases"]],
    "Proofs.DataFields": ["VerifModel.DataFields." + t for t in [
        "resolved_field?", "resolved_readsAs", "loadAllF_resolved", "init_resolved", "getScoresF_refines",
        "obs_agree_at", "C01_obs_identical_end_to_end"]]}
TRUSTED_BASE = [
    "Lean 4.33 kernel; axioms propext, Classical.choice, Quot.sound only",
    "Model/Data.lean: hand-written pure model of Data.__init__/_get_score/get_scores (nested lists for 3-D "
    "arrays; NumPy fancy indexing, np.sort/unique/intersect1d modelled by sortU/filter/findIdx), tied to the "
    "real code by the data.req correspondence stream on every run",
    "harness/datagen.py: in-memory verif.input.Input subclass (no file I/O on this stream) and the coordinate-based "
    "oracle written from the README's fair-comparison paragraph",
    "harness/datagen.mem_input: a stored CDF / quantile column or member named p@<t> / q@<q> / e@<k> becomes column "
    "number (position of the name in the input's field list) of the input's 4-D threshold_scores / quantile_scores / "
    "ensemble array, with input.thresholds / input.quantiles in the same order; the Lean driver keeps it as a named "
    "3-D field",
    "Spec/DataCoord.lean: the coordinate-based specification (lookup by coordinate value, value sets, valid cases); "
    "it is what getScores_refines proves the model equal to, and it is evaluated by the driver (op specdata) next to "
    "the Python oracle on every data op",
]
ASSUMPTIONS = [
    "a non-finite stored value (+-inf, in any field of any input or of the climatology) is a missing value for every "
    "input (the repaired cross-input step tests isfinite; the generators put +-inf into obs, fcst, PIT and climatology)",
    "ObsAgree: inputs that store observations store equal values wherever both are non-missing",
    "init times are whole seconds >= 0",
    "getScores_refines: Data.init succeeds and every stored array has the shape its input declares (wfInput; true by "
    "construction of the op encoding); nothing is assumed about the request or about repeated / NaN coordinates; "
    "C01_same_case_set additionally ObsRangeAgree (no -obsrange, or ObsAgree); C01_obs_identical_end_to_end: ObsAgree "
    "and ObsRangeAgree, selections other than the whole array",
    "field kinds: a stored CDF / quantile column (Threshold(t), Quantile(q)), an ensemble member (Ensemble(k)), the PIT "
    "and other-score fields are named 3-D fields of an input; a requested threshold / quantile level matches a stored "
    "one by equality (np.isclose's tolerance is not modelled; generated levels are 1/2, 1, 2 and 0.1, 0.5, 0.9); a CDF / "
    "quantile column that an input does not store but can derive from its ensemble members is C08's subject and "
    "outside these streams (driver reply DERIVED); no pre-aggregation (-T); no PIT randomisation (variable without "
    "x0 / x1)",
    "-obs FIELD / -fcst FIELD: the two name different stored fields, and the field -obs names is not requested directly "
    "on the same Data object (the code keys its cache by the STORED field: -obsrange masking and borrowing on the "
    "observation path would show through a direct request; contrived, recorded in MERGE_NOTES); getScoresF_refines: "
    "Data.initF succeeds, wfInput",
    "after a request that ends in an error exit the next request of an op goes to a new Data object (the program ends "
    "at an error exit)",
]
RULE = ("data.req: generated datasets of 1-4 inputs (+ optional climatology, subtract or divide), each dimension 1-4 "
        "entries per input with partial overlap, different orders and rare repeats; fields obs/fcst and, each with "
        "p = 0.3-0.4, the PIT, 1-3 stored CDF columns (the same list, another order or another set of thresholds per "
        "input, rarely none), 1-3 stored quantile columns (likewise), 0-3 ensemble members (sizes may differ between "
        "inputs), an other-score field (absent from an input with p = 0.1); missingness per cell, per time slice, per "
        "field; observations absent from some inputs (any input may be the one that stores them, the climatology "
        "included; with p = 0.05 none does: error exit); a non-finite value (+-inf) in obs / fcst / PIT / climatology "
        "with p = 0.05 each; one station with another latitude in the later inputs with p = 0.1 (metadata of the first "
        "file); a fifth of the datasets with -obs FIELD (other-score field or PIT; rarely a CDF column: error exit) and / "
        "or -fcst FIELD (other score, PIT, stored CDF / quantile column); up to 40 requests per dataset over every "
        "field combination ([x], [obs, x], [obs, fcst, x] / [x, fcst], pairs of extra fields; fields that some input "
        "does not store: error exit), 12 axes and every slice index; data.noninterference: the request list again after "
        "every finite value of every field except the observation (fcst, PIT, CDF / quantile columns, members, other "
        "scores) of every OTHER scored input was changed; data.exh: exhaustive NaN patterns of 2 inputs x (2x1x2 "
        "cases) x {obs,fcst}; every sixth dataset with -obsrange 0,2, about a quarter of those with >= 2 files whose OWN "
        "observations disagree across the ends of the range in common cases (inside / exactly on an end in one file, "
        "outside in the other: each input is filtered by its own observation; the cross-input comparison of the case "
        "sets is made only under ObsAgree); non-trivial = some request returns >= 1 finite value")
EXHAUSTIVE = {"quick": False, "thorough": True}
EXHAUSTIVE_NOTE = "thorough: all 2^16 missingness patterns of 2 inputs x 4 cases x {obs, fcst}"
LEVEL_TEXT = ("Lean theorems about the pure model of Data: after loading, a cell of a field is missing in one input iff it "
              "is missing in any input (incl. the climatology) and otherwise keeps its own value; hence the validity mask "
              "and the contributing case list of a request do not depend on the input index, inputs without "
              "observations get the first available observation array, and changing finite forecast values of another "
              "input changes nothing (non-interference). End to end (Proofs/DataRefine.lean, getScores_refines): every "
              "request to the index-based model returns exactly the coordinate-based specification (the requested values "
              "at the verified coordinates where every input and the climatology have usable values, identical error "
              "exits); corollary C01_same_case_set: the contributing coordinates are the same for any two scored inputs; "
              "C01_obs_identical_end_to_end: under ObsAgree the observation column handed out for two scored inputs is the "
              "same vector. Field kinds (Proofs/DataFields.lean): stored CDF / quantile columns, ensemble members, PIT and "
              "other scores are named fields, so every theorem covers them; -obs FIELD / -fcst FIELD: resolving the "
              "requested field at request time as the code does loads what the unchanged loading step loads from the "
              "inputs read that way (loadAllF_resolved, init_resolved, resolved_readsAs), and getScoresF_refines: every "
              "request then returns the coordinate specification of the inputs read that way. "
              "The model is tied to the real Data class by differential correspondence; the coordinate-level Python "
              "oracle and the Lean specification (driver op specdata) both decide the property on the implementation.")
TECHNIQUE = "Lean 4 proof over a hand-written model of Data + differential correspondence against the real class"


def gen_ops(tier, rng):
    n = 400 if tier == "quick" else 6000
    for k in range(n):
        ds = dg.gen_dataset(rng)
        if k % 6 == 5:
            ds.cfg["obsrange"] = (0.0, 2.0)     # -obsrange removes the same cases for every input
            # … when the inputs' observations agree; a quarter of these: own observations that disagree across 0 / 2
            ds = dg.with_obs_disagreement(ds)
        if k % 5 == 2:
            ds = dg.add_field_options(ds, rng)  # -obs FIELD / -fcst FIELD
        dims = dg.oracle_dims(ds)
        if dims is None:
            yield "data.req", dg.enc_op(ds, [(["obs", "fcst"], 0, "no", None)])
            continue
        reqs = dg.all_requests(ds, dims, rng, 40)
        yield "data.req", dg.enc_op(ds, reqs)
        if k % 8 == 0 and len(ds.inputs) - (1 if ds.cfg.get("clim") else 0) > 1:
            yield "data.noninterference", dg.enc_op(ds, reqs[:6], head="datani")
    if tier == "thorough":
        # exhaustive missingness: 2 inputs, 2 times x 1 lead x 2 locations, obs and fcst: 16 cells
        base = {"times": [0.0, 86400.0], "leads": [0.0], "locs": [(1.0, 10.0, 10.0, 0.0), (2.0, 20.0, 20.0, 0.0)]}
        for pat in range(1 << 16):
            ins = []
            for j in range(2):
                fields = {}
                for fi, name in enumerate(("obs", "fcst")):
                    a = np.array([[[1.0 + j, 2.0]], [[3.0, 4.0 + fi]]], float)
                    if name == "obs":
                        a = np.array([[[1.0, 2.0]], [[3.0, 4.0]]], float)
                    for c in range(4):
                        if pat >> (j * 8 + fi * 4 + c) & 1:
                            a[c // 2, 0, c % 2] = np.nan
                    fields[name] = a
                ins.append(dict(base, fields=fields))
            ds = dg.DS(ins, {})
            yield "data.exh", dg.enc_op(ds, [(["obs", "fcst"], 0, "no", None), (["obs", "fcst"], 1, "no", None),
                                             (["obs"], 1, "no", None), (["fcst"], 0, "location", 1)])


def impl(op):
    if op.startswith("datani "):
        return dg.impl_noninterference(op)
    return dg.impl_data(op)


def cmp(op, impl_out, model_out):
    return tokens_close(impl_out, model_out, 1e-9, 1e-12)


def spec_op(op):
    """the Lean coordinate-based specification (Spec/DataCoord.lean) on the same encoding.  The dataset hypothesis of
    getScores_refines (arrays of the declared shape) holds by construction of the encoding (the driver would answer
    HYP otherwise); the theorem has no hypothesis on the request."""
    if op.startswith("data "):
        return "specdata " + op[len("data "):]
    return None


def _judge_spec(op, impl_out, spec_out):
    """implementation vs. the Lean specification (exact rationals, compared like the model reply)"""
    if spec_out is None or spec_out == "HYP" or spec_out.startswith("ERR driver") or impl_out.startswith("EXC:"):
        return None
    ia, sa = impl_out.split(" | "), spec_out.split(" | ")
    if (impl_out == "ERR init") != (spec_out == "ERR init"):
        return ({"kind": "coordinate-spec", "part": "init"},
                "Data() gives %s, the Lean coordinate specification %s" % (ia[0][:200], sa[0][:200]))
    if impl_out == "ERR init":
        return None
    if not tokens_close(ia[0], sa[0], 1e-9, 1e-12):
        return ({"kind": "coordinate-spec", "part": "dims"},
                "verified dimensions %s, Lean coordinate specification %s" % (ia[0][:200], sa[0][:200]))
    ds, reqs = dg.dec_op(op)
    for r, got, want in zip(reqs, ia[1:], sa[1:]):
        if want == "HYP" or want.startswith("ERR bad-req"):
            continue
        if not tokens_close(got, want, 1e-9, 1e-12):
            return ({"kind": "coordinate-spec", "part": "answer", "axis": r[2]},
                    "request fields=%s input=%d axis=%s index=%s returns %s, the Lean coordinate specification gives %s" %
                    ("+".join(r[0]), r[1], r[2], r[3], got[:200], want[:200]))
    return None


def _parse_reply(s):
    parts = s.split(" | ")
    return parts[0], parts[1:]


def judge(op, impl_out, spec_out):
    v = _judge_oracle(op, impl_out)
    if v is not None:
        return v
    if op.startswith("data "):
        return _judge_spec(op, impl_out, spec_out)
    return None


def _judge_oracle(op, impl_out):
    if op.startswith("datani "):
        if impl_out != "same":
            return ({"kind": "interference"}, "changing another input's finite forecasts changed this input's result: %s" % impl_out[:300])
        return None
    ds, reqs = dg.dec_op(op)
    dims = dg.oracle_dims(ds)
    if impl_out.startswith("EXC:"):
        return ({"kind": "exception"}, "Data raised %s" % impl_out)
    if impl_out == "ERR init":
        if dims is not None and dims[0]:
            return ({"kind": "init-error"}, "Data() stops with an error although common cases exist")
        return None
    if dims is None:
        return ({"kind": "init-no-error"}, "no common times/leadtimes/locations but Data() was built")
    head, answers = _parse_reply(impl_out)
    want_head = "T=%s;L=%s;X=%s" % (xvec(dims[0]), xvec(dims[1]), xvec(dims[2]))
    if head != want_head:
        return ({"kind": "dims"}, "verified dimensions %s, documented %s" % (head, want_head))
    per_key = {}
    # ObsAgree (ASSUMPTIONS): with observations that differ between the files the inputs are NOT scored on the same
    # cases / observations (each is filtered by its own); the per-request answer is still judged
    agree = dg.obs_agree(ds)
    for r, got in zip(reqs, answers):
        want = dg.oracle_answer(ds, dims, r)
        if want is None:
            continue
        wants = "ERR" if want == "ERR" else ";".join(xvec(c) for c in want)
        if not tokens_close(got, wants, 1e-9, 1e-12):
            return ({"kind": "answer", "axis": r[2]},
                    "request fields=%s input=%d axis=%s index=%s returns %s, documented cases give %s" %
                    ("+".join(r[0]), r[1], r[2], r[3], got[:200], wants[:200]))
        if got != "ERR":
            key = (tuple(r[0]), r[2], r[3])
            n = len(got.split(";")[0].split(","))
            obs = got.split(";")[r[0].index("obs")] if "obs" in r[0] else None
            if key in per_key and per_key[key] != (n, obs) and agree:
                return ({"kind": "case-set-differs"},
                        "inputs are scored on different cases/observations for %s: %s vs %s" % (key, per_key[key], (n, obs)))
            per_key[key] = (n, obs)
    return None


def nontrivial(op, out):
    return any(t not in ("nan", "-", "ERR") for part in out.split(" | ")[1:] for c in part.split(";") for t in c.split(","))
