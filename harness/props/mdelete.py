"""
Stream `metric.delete.data` (C04): deletion invariance at the DATASET level, through the real Metric.compute /
compute_single on a real verif.data.Data (datagen.build_data, in-memory inputs).

  op      mmd <dim>:<seed> <family> <cfg> <inputs> <reqs>      everything after the second token is an `mm` op
          (props/mmulti.py, lean/VerifModel/Driver/Multi.lean) describing the BASE dataset D and the requests
  impl    builds D' = D with one extra time (dim t), lead time (dim l) or location (dim x) spliced into EVERY input (at a random position
          of each input's own coordinate list; the new coordinate value is larger than all existing ones, so that the
          slices of every other axis keep their index and the new coordinate is the last slice of its own axis).  In
          every cell of the new slab, for every request one of the fields that request needs is MISSING (in all inputs
          or in a single input, climatology included; obs always in all inputs), in a random ENCODING: NaN, masked,
          -999, 1e31, 9.96921e36 (the NetCDF fill value); the other fields of the slab hold ordinary values.  The raw
          arrays go through the real verif.util.clean (what the NetCDF reader applies to every variable), then into
          build_data; the requests run through the real compute / compute_single on D'.  In addition every metric of the
          op is asked for the NEW slice (compute_single on the spliced axis, last index: a slice without any valid
          case) -> must be NaN, no crash; the extra last entry of compute() over the spliced axis must be NaN as well.
          The reply is that of the `mm` op on D (extra entries removed), anomalies appended after ` !`.
  model   the Lean driver answers the BASE op `mm …` on D (Driver/Multi.lean): cmp = score(D') equals the model's
          score of D.  Theorems: Proofs/C04Data.lean (C04_dataset_delete_invariance, C04_dataset_score_delete_invariance;
          column level: C04_insert_case_getScores_partial, C04_score_delete_invariance_partial).
  oracle  (1) mmulti.judge on the base op: the coordinate oracle's documented cases of D + textbook values;
          (2) metamorphic: the real code on D itself, token by token (rtol 1e-12).
"""
import math
import random
import warnings
import numpy as np
import common
from common import xr, from_xr, num_close
import datagen as dg
from props import mmulti as mm

PREFIX = "mmd "
TARGET = "Proofs.C04Data"
THEOREMS = ["VerifModel.C04Data." + t for t in [
    "finish_insertRow", "C04_insert_case_getScores_partial", "C04_score_delete_invariance_any",
    "C04_score_delete_invariance_partial", "C04_no_valid_case_nan", "filter_filter_of_bad", "specCases_spliced",
    "C04_dataset_delete_invariance", "C04_dataset_score_delete_invariance"]]
AX_T = ["no", "no", "location", "lat", "lon", "elev", "leadtime", "leadtimeday", "time", "time", "threshold"]
AX_L = ["no", "time", "location", "lat", "day", "month", "year", "week", "monthofyear", "dayofmonth", "timeofday",
        "leadtime", "leadtime"]
AX_X = ["no", "time", "leadtime", "leadtimeday", "day", "month", "year", "week", "monthofyear", "dayofmonth",
        "timeofday", "location", "location"]
OWN_AXIS = {"t": "time", "l": "leadtime", "x": "location"}
ENCODINGS = ["nan", "nan", "masked", "-999", "1e31", "fill"]
DET_EXTRA = ["rmsf", "leps", "within", "obs", "fcst", "rmsf", "leps", "within", "obs", "fcst"]
RULE = ("metric.delete.data: mmulti's datasets (2-3 inputs, optional climatology, -obsrange, stored CDF / quantile columns "
        "or ensembles, pit) and metric tokens (all translated deterministic scores incl. rmsf, leps, rankcorr, "
        "kendallcorr, within, obs / fcst (FromField, every aggregator), conditional, xconditional, count; 25 contingency "
        "scores x 8 bin types; bs bss bsrel bsres bsunc bssrel bssres ign0 spherical marginalratio, quantilescore, "
        "quantilecoverage, spread, spreadskillratio, threshold, quantile, pit, pithistdev / slope / shape); D' = D with a "
        "new time, lead time or location in every input whose cells miss (NaN / masked / -999 / 1e31 / 9.96921e36 through the real "
        "util.clean) a field of every request, in all inputs or in one; scores through the real compute_single for every "
        "input and compute over an axis; plus every metric on the new, entirely invalid slice")
TRUSTED = ("stream metric.delete.data: the splice (harness/props/mdelete.py) writes a missing value into a field that the "
           "request needs according to mmulti.field_keys (hand-written from the class descriptions)")
LEVEL_TEXT = (" Dataset-level deletion invariance THROUGH the score classes (Proofs/C04Data.lean, stream "
              "metric.delete.data): for every request, inserting a case that holds a missing value in a requested "
              "column leaves get_scores' answer unchanged (C04_insert_case_getScores_partial: Model/Data getScores, any "
              "selection other than the whole array; hypothesis: the raw columns of D' are those of D with the cases "
              "inserted — the step from spliced INPUTS to spliced columns through Data.init is tied by the stream, not "
              "proved, hence _partial), so ANY function of that answer (C04_score_delete_invariance_any) and in "
              "particular the model of compute_single with every metric kernel of Driver/Multi.lean "
              "(C04_score_delete_invariance_partial) returns the same score; when no case of a slice is valid every "
              "column handed on is the single-NaN placeholder (C04_no_valid_case_nan).  From the INPUTS "
              "(C04_dataset_delete_invariance, C04_dataset_score_delete_invariance, via getScores_over_specCases): two "
              "datasets built by Data.init from well-formed inputs, the second with extra cases each of which holds a "
              "missing value (NaN, +-inf) of a field the request uses in SOME input or the climatology, the old cases "
              "valid and valued as before (SplicedData, by coordinates) — every request with a selection other than "
              "the whole array gets the same answer and every modelled score class the same score.")


def _fields_to_kill(ds, reqs, own):
    """per request the list of candidate field keys; the same metric is also asked for the new slice of the spliced
    axis `own`, where obs / fcst (FromField) need their own field only"""
    out = []
    for m, i, ax, k in reqs:
        for axis in (ax, own):
            keys = mm.field_keys(m, axis)
            if keys and keys not in out:
                out.append(keys)
    return out


def _kill(I, key, idx, enc, masks, rng):
    f = I["fields"]
    if isinstance(key, str):
        names = [key] if key in f else []
    else:
        c08 = mm._c08()
        pre = "T" if key[0] == "thr" else "Q"
        names = [n for n in f if n[0] == pre and c08.np_isclose(from_xr(n[1:]), key[1])]
        if not names:
            names = [n for n in f if n[0] == "E"]
    for n in names:
        e = rng.choice(ENCODINGS) if enc is None else enc
        if e == "masked":
            masks[n][idx] = True
            f[n][idx] = 5.0
        else:
            f[n][idx] = {"nan": np.nan, "-999": -999.0, "1e31": 1e31, "fill": 9.96921e36}[e]


def splice(ds, reqs, dim, seed):
    """-> DS D' (fields cleaned by the real verif.util.clean)"""
    import verif.util
    rng = random.Random(seed)
    axis = {"t": 0, "l": 1, "x": 2}[dim]
    cname = {"t": "times", "l": "leads", "x": "locs"}[dim]
    if dim == "x":
        # a new location: id above all ids (the location axis is ordered by id), its own lat / lon / elev
        top = max(l[0] for I in ds.inputs for l in I["locs"])
        new = (top + rng.choice([1.0, 5.0]), rng.choice([10.0, 55.5]), rng.choice([-20.0, 7.25]), rng.choice([0.0, 1234.0]))
    else:
        top = max(max(I[cname]) for I in ds.inputs)
        new = top + (86400.0 * rng.choice([1, 40, 400]) if dim == "t" else rng.choice([1.0, 6.0, 24.0, 48.0]))
    ins, masks = [], []
    for I in ds.inputs:
        pos = rng.randint(0, len(I[cname]))
        J = dict(I)
        J[cname] = list(I[cname][:pos]) + [new] + list(I[cname][pos:])
        J["_pos"] = pos
        fields, mk = {}, {}
        for n, a in I["fields"].items():
            a = np.array(a, float)
            vals = [float(v) for v in a.flatten() if np.isfinite(v)] or [1.0]
            shape = list(a.shape)
            shape[axis] = 1
            slab = np.array([rng.choice(vals) for _ in range(int(np.prod(shape)))], float).reshape(shape)
            fields[n] = np.insert(a, pos, np.take(slab, 0, axis=axis), axis=axis)
            mk[n] = np.zeros(fields[n].shape, bool)
        J["fields"] = fields
        ins.append(J)
        masks.append(mk)
    kills = _fields_to_kill(ds, reqs, OWN_AXIS[dim])
    # the cells of the new slab by COORDINATE (the inputs have their own, partially overlapping coordinate lists)
    def others(J):
        if dim == "t":
            return [((l, x[0]), (li, xi)) for li, l in enumerate(J["leads"]) for xi, x in enumerate(J["locs"])]
        if dim == "x":
            return [((t, l), (ti, li)) for ti, t in enumerate(J["times"]) for li, l in enumerate(J["leads"])]
        return [((t, x[0]), (ti, xi)) for ti, t in enumerate(J["times"]) for xi, x in enumerate(J["locs"])]
    where = []
    for J in ins:
        w = {}
        for coord, ij in others(J):
            w.setdefault(coord, []).append(ij)      # an input may repeat a coordinate value (verif uses the first)
        where.append(w)
    for coord in sorted(set(c for w in where for c in w)):
        for keys in kills:
            key = rng.choice(keys)
            who = list(range(len(ins)))
            if key != "obs" and rng.random() < 0.5:
                who = [rng.choice(who)]
            for j in who:
                for ij in where[j].get(coord, []):
                    idx = list(ij)
                    idx.insert(axis, ins[j]["_pos"])
                    _kill(ins[j], key, tuple(idx), None, masks[j], rng)
    with warnings.catch_warnings(), np.errstate(all="ignore"):
        warnings.simplefilter("ignore")
        for J, mk in zip(ins, masks):
            del J["_pos"]
            for n in list(J["fields"]):
                J["fields"][n] = np.array(verif.util.clean(np.ma.masked_array(J["fields"][n], mask=mk[n])), float)
    return dg.DS(ins, ds.cfg)


def base_op(op):
    a = op.split(" ")
    return "mm " + " ".join(a[2:])


def gen_ops(tier, rng):
    n = 30 if tier == "quick" else 500
    for family in ("det", "cont", "prob"):
        r = random.Random(rng.random())
        done = 0
        while done < n:
            ds, dims, extra = mm.gen_ds(r, family)
            if dims is None:
                continue
            dim = r.choice("tlx")
            axes = list({"t": AX_T, "l": AX_L, "x": AX_X}[dim]) + (["obs", "fcst"] if family == "det" else [])
            nin = len(ds.inputs) - (1 if ds.cfg.get("clim") else 0)
            m = mm.gen_metric(r, family, extra)
            if family == "det" and r.random() < 0.45:
                p = m.split("~")
                p[0] = r.choice(DET_EXTRA)
                p[1] = r.choice(mm.AGGS) if p[0] in ("obs", "fcst", "rmsf") else "mean"
                m = "~".join(p)
            ax = r.choice(axes)
            size = mm.axis_size(dims, ax)
            k = "-" if ax in mm.POOLED else r.randrange(size)
            reqs = ["%s@%d@%s@%s" % (m, i, ax, k) for i in range(nin)]
            m2 = mm.gen_metric(r, family, extra) if r.random() < 0.6 else m
            ax2 = r.choice([a for a in axes if a not in mm.POOLED] + [OWN_AXIS[dim]])
            reqs.append("%s@%d@%s@*" % (m2, r.randrange(nin), ax2))
            head = "%s %s %s" % (family, dg.enc_cfg(ds.cfg), "#".join(dg.enc_input(I) for I in ds.inputs))
            yield "metric.delete.data", "mmd %s:%d %s %s" % (dim, r.randrange(10 ** 6), head, ";".join(reqs))
            done += 1


def run_spliced(op):
    """-> (main reply tokens in the shape of the base op, anomalies)"""
    a = op.split(" ")
    dim, seed = a[1].split(":")
    base = base_op(op)
    family, ds, reqs = mm.parse_op(base)
    dims = dg.oracle_dims(ds)
    ds2 = splice(ds, reqs, dim, int(seed))
    own = OWN_AXIS[dim]
    rtoks = a[5].split(";")
    extras = []
    if dims is not None:
        newk = len(dims[{"t": 0, "l": 1, "x": 2}[dim]])
        seen = set()
        for (m, i, ax, k) in reqs:
            if (m["tok"], i) not in seen:
                seen.add((m["tok"], i))
                extras.append("%s@%d@%s@%d" % (m["tok"], i, own, newk))
    op2 = "mm %s %s %s %s" % (family, dg.enc_cfg(ds2.cfg), "#".join(dg.enc_input(I) for I in ds2.inputs),
                              ";".join(rtoks + extras))
    reply = mm.impl(op2)
    if reply.startswith("MUTATED-INPUT "):
        return None, ["mutated-input"], reply
    toks = reply.split(" ")
    if reply == "ERR init" or len(toks) != len(rtoks) + len(extras):
        return None, [], reply
    main, anomalies = [], []
    for (m, i, ax, k), t in zip(reqs, toks):
        if k == "*" and ax == own and not (t == "ERR" or t.startswith("EXC:")):
            vals = t.split(",")
            if vals[-1] != "nan":
                anomalies.append("%s:compute:new-slice=%s" % (m["name"], vals[-1]))
            t = ",".join(vals[:-1]) if len(vals) > 1 else "-"
        main.append(t)
    for e, t in zip(extras, toks[len(rtoks):]):
        if t != "nan" and t != "ERR":
            anomalies.append("%s:single:new-slice=%s" % (e.split("~")[0], t))
    return main, anomalies, reply


def impl(op):
    main, anomalies, reply = run_spliced(op)
    if main is None:
        return reply if not anomalies else "MUTATED-INPUT " + reply
    return " ".join(main) + (" !" + "/".join(anomalies) if anomalies else "")


def lean_op(op):
    return base_op(op)


def spec_op(op):
    return mm.spec_op(base_op(op))


def _blank_rmsf(op, reply):
    """rmsf outside its domain (an observation <= 0 or a ratio <= 0: log of a non-positive number) is not in the model's
    domain (c05.py compares it on positive data only); its tokens are left to the oracles (the real code on D)"""
    toks = reply.split(" ")
    reqs = op.split(" ")[5].split(";")
    if len(toks) != len(reqs):
        return reply
    return " ".join("nan" if r.startswith("rmsf~") else t for r, t in zip(reqs, toks))


def cmp(op, impl_out, model_out):
    if " !" in impl_out:
        return False
    return mm.cmp(base_op(op), _blank_rmsf(op, impl_out), _blank_rmsf(op, model_out))


def _flat(reply):
    return [t for tok in reply.split(" ") for t in tok.split(",")]


def judge(op, impl_out, spec_out):
    base = base_op(op)
    if " !" in impl_out:
        what = impl_out.split(" !")[1]
        return ({"kind": "empty-slice", "metric": what.split(":")[0], "layer": "delete"},
                "a slice without any valid case does not give NaN: %s" % what)
    ref = mm.impl(base)                     # metamorphic: the real code on D itself
    r = mm.judge(base, impl_out, spec_out)
    if r:
        r0 = mm.judge(base, ref, spec_out)
        # a defect of the score itself that shows on D as well (e.g. the known C05 finding leps-perfect) is the subject
        # of C05 / C06 / C08, which run the same judge on the stream metric.multi; here only what the splice changes
        if not (r0 and r0[0] == r[0]):
            return (dict(r[0], layer="delete"), "after splicing in cases with a missing value: " + r[1])
    if impl_out == "ERR init":
        return None
    x, y = _flat(impl_out), _flat(ref)
    fam, ds, reqs = mm.parse_op(base)
    if len(x) != len(y):
        return ({"kind": "delete-invariance", "metric": reqs[0][0]["name"], "layer": "delete"},
                "reply shape changes when cases with a missing value are added: %s vs %s" % (impl_out[:150], ref[:150]))
    names = []
    for (m, i, ax, k), tok in zip(reqs, ref.split(" ")):
        names += [m["name"]] * len(tok.split(","))
    for a, b, name in zip(x, y, names):
        if a == b:
            continue
        try:
            ok = num_close(from_xr(a), from_xr(b), 1e-12, 0.0)
        except ValueError:
            ok = False
        if not ok:
            return ({"kind": "delete-invariance", "metric": name, "layer": "delete"},
                    "%s changes when cases with a missing value are added: %s (with) vs %s (without)" % (name, a, b))
    return None


def nontrivial(op, out):
    return mm.nontrivial(base_op(op), out.split(" !")[0])


def shrink(op):
    a = op.split(" ")
    reqs = a[5].split(";")
    if len(reqs) > 1:
        for r in reqs:
            yield " ".join(a[:5] + [r])
