"""C15 — aggregators (-agg / -Tagg) and the -T pre-aggregation.  Ops, implementation calls and oracle."""
import itertools
import math
import os
import shutil
import tempfile
import warnings
from fractions import Fraction

import numpy as np
import common
from common import xr, xvec, from_xr, from_xvec, num_close, tokens_close

ID = "C15"
TARGETS = ["Proofs.C15", "Proofs.C15Multi", "Proofs.C15Axis", "Proofs.GenEq.Agg", "Proofs.C15Ens"]
GEN_PREFIXES = ["agg."]
# Proofs.GenEq.Agg only ties the hand-written Agg.apply to the source (the C15 theorems are about Agg.apply, which is
# also tied by the agg.vec correspondence): tie-only obligations, DESIGN 8.7
TIE_ONLY = {"prefix": "agg.", "modules": ["Proofs.GenEq.Agg"], "gen_op_heads": ["genagg"]}
THEOREMS = {
    "Proofs.C15": ["VerifModel.C15." + t for t in [
        "C15_agg_sum", "C15_agg_mean", "C15_agg_min", "C15_agg_max", "C15_agg_range", "C15_agg_variance",
        "C15_agg_std", "C15_agg_median", "C15_agg_quantile", "C15_agg_iqr", "C15_agg_count",
        "C15_agg_meanabs", "C15_agg_absmean", "C15_agg_change", "C15_agg_abschange", "C15_agg_all",
        "C15_spec_min_least", "C15_spec_max_greatest", "C15_spec_ascending",
        "C15_quantile_zero", "C15_quantile_one", "C15_quantile_half", "C15_iqr_quartiles",
        "C15_count_ignores_nan", "C15_nan_propagates", "C15_change_endpoints", "C15_get_names", "C15_get_quantile",
        "C15_axis", "C15_axis_rank", "C15_axis_shape",
        "C15_window", "C15_window_series", "C15_window_long", "C15_window_same_for_all_fields",
        "C15_window_arr", "C15_fields_partial", "C15_applied_before_cut"]],
    "Proofs.C15Ens": ["VerifModel.C15Ens." + t for t in [
        "C15_ens_cell", "C15_ens_fields_partial", "C15_ens_fields_modelled"]],
    "Proofs.C15Multi": ["VerifModel.C15." + t for t in [
        "C15_multi_cell", "C15_multi_field", "C15_multi_wf", "C15_multi_input", "C15_multi_borrowed_obs"]],
    "Proofs.C15Axis": ["VerifModel.C15." + t for t in [
        "C15_axis_norm", "C15_axis_every_dimension", "C15_axis_any", "C15_axis_any_cells", "C15_axis_out_of_range"]],
    "Proofs.GenEq.Agg": ["VerifModel.GenEq.Agg." + t for t in [
        "mean_eq", "median_eq", "min_eq", "max_eq", "std_eq", "variance_eq", "iqr_eq", "range_eq", "count_eq_model",
        "sum_eq", "meanabs_eq", "absmean_eq", "change_eq", "abschange_eq", "quantile_eq", "call_eq",
        "classNames_cover", "classNames_quantile", "initRejects_eq", "idx_first", "idx_last", "count_eq", "pct_level"]],
}
TRUSTED_BASE = [
    "Lean 4.33 kernel; axioms propext, Classical.choice, Quot.sound only",
    "Spec/Stats.lean: my reading of the documented statistics (textbook definitions on rational samples; "
    "quantile = linear interpolation at position (n-1)p, NumPy's documented default) and of the trailing window (l-h, l]; "
    "Spec/DataCoord.lean: the coordinate-based meaning of a Data request (shared with C01-C03)",
    "Gen/Agg.lean: the __call__ body of every aggregator class (1-d reading, axis=None: which NumPy reduction, the percent "
    "levels of Iqr, self.quantile*100, max - min and isnan-count through util.nprange / util.numvalid, the ends Change reads), "
    "the class-name list of get_all() and the range test of Quantile.__init__ are regenerated from /repo by "
    "harness/translate_more.py gen_agg on every run and proved equal to Agg.apply (Proofs/GenEq/Agg.lean); the translator is "
    "trusted for the soundness of a successful translation and validated by stream agg.gen; the NumPy calls themselves are "
    "the given primitives of Model/AggPrim.lean",
    "Model/Aggregator.lean (incl. callAxis: how each class treats the axis argument), Model/Preagg.lean, Model/PreaggData.lean "
    "(-T with several inputs = every loaded field replaced by its pre-aggregate on the input's own grid, then the Data model "
    "of Model/Data.lean): hand-written mirror of aggregator.py and data.py:442-600, 783-828, tied to the real code by the "
    "correspondence streams of this check (not machine-translated)",
    "NumPy primitives np.mean/median/min/max/std/var/percentile/sum/abs, axis normalisation and fancy indexing: given Lean "
    "definitions, enter through the correspondence",
    "IEEE rounding (double for the aggregators, float32 storage of the pre-aggregated array): compared with "
    "relative tolerance 1e-9 / 2e-6 where the result is not exact by construction; np.sqrt as the parameter Tr.sqrt",
    "the Python oracle in harness/props/c15.py (fractions.Fraction statistics written from the definitions; for tdata2 "
    "windows by coordinate value on the supplying input's own grid + datagen.oracle_dims), cross-checked "
    "on every agg / preagg op against Spec.Stats evaluated by the Lean driver",
]
ASSUMPTIONS = [
    "data values are finite or NaN (verif treats +-inf as missing before scoring)",
    "window length h > 0 for the check (the driver rejects -T <= 0); C15_window holds for every coordinate order "
    "(text inputs and Data deliver ascending coordinates, NetCDF inputs may not)",
    "quantile-from-ensemble and threshold-from-ensemble fields under -T (3ab2f86: taken from the pre-aggregated members; a stored "
    "column is not read when -T is on) are in the model (Preagg.dataScore = Prob.ensQuantile / probLE on the pre-aggregated "
    "members, theorem C15_ens_fields_partial; several inputs: PreaggHist.tInput, stream data.histT.* of C18) and are judged by the "
    "oracle on every agg.data op; the cell-wise reading of the 4-D pre-aggregation against Spec.Stats.window is not a theorem "
    "(C15_window / C15_multi_field cover vectors and 3-D fields)",
    "PIT randomisation (# x0 / # x1 of the variable) before the pre-aggregation is not modelled: the in-memory and NetCDF inputs "
    "of agg.data2 carry no x0 / x1",
    "agg.data2: a window containing a missing value has several acceptable readings (NaN, or the statistic of the valid values); "
    "the oracle makes no claim for such a cell, the model comparison still applies",
]
RULE = ("agg.gen: the GENERATED class bodies (Gen.Agg.callByName) against the real aggregator(array) and the exact oracle: every "
        "vector of length <= 2 over {-1,0,1/8,1,nan} and seeded vectors of length 0..12 x all 21 aggregator names; "
        "agg.vec: every vector of length <= 3 over {-1,0,1/8,1,nan} plus seeded vectors of length 0..12 on a 1/8 grid in "
        "[-4,4] with ties and NaNs x all 14 aggregators and quantile levels {0,.1,.25,.5,.75,.9,1}; agg.axis: arrays of rank "
        "1..4 (extents 0..4), every axis; agg.axis.neg: rank 1..4, every axis named from the back (-1 ... -rank) and -rank-1; "
        "agg.axis.high: rank 5 and 6, axes 0 ... rank, -1, -rank; agg.window: irregular strictly ascending lead-time / time grids "
        "(agg.window.unsorted: shuffled, reversed, repeated coordinates), h from below the "
        "smallest gap to beyond the whole series, 1-D series and 3-D/4-D arrays, through preaggregate_leadtime / "
        "preaggregate_time; agg.data: Data(dim_agg_*) on ONE in-memory, text or NetCDF input for obs, fcst, members, "
        "threshold and quantile fields, with lead-time/time subsets; agg.data2: Data(dim_agg_*) on 1-3 inputs (+ climatology in 12 %) "
        "whose lead-time, time and location sets differ in values, order and (60 %) size, up to n-1 inputs without observations "
        "(incl. the first), fields obs, fcst, pit, an other-score field, ensemble members, -l / -t style subsets, in memory and through "
        "NetCDF files, several requests on one Data object; agg.cli: verif -m obs -T h -Tagg f -Tx axis -type csv on a text file; "
        "an op is non-trivial if its reply contains a finite number")
EXHAUSTIVE = {"quick": False, "thorough": False}
EXHAUSTIVE_NOTE = "vectors of length <= 3 over a 5-letter alphabet are enumerated completely for all 21 aggregator names; the rest is seeded-random"
LEVEL_TEXT = ("The 1-d call of each of the 15 aggregator classes is machine-translated from aggregator.py on every run and proved "
              "equal to the model function the theorems are about (GenEq.Agg.*_eq, call_eq). "
              "Lean theorems: each of the 15 aggregators, as modelled from aggregator.py, equals its textbook statistic on every "
              "NaN-free rational sample (quantile 0/1/half = min/max/median, iqr = Q3/4 - Q1/4, count ignores NaN, NaN propagates "
              "through all others); applying an aggregator along any axis of an array of any rank aggregates exactly the fibers, and "
              "the class call aggregator(array, axis) is that reduction for every aggregator and every axis -rank <= axis < rank; "
              "for every coordinate order and every h the pre-aggregated value at every position is the aggregate of the "
              "trailing window (l-h, l], for every field that is pre-aggregated; with several inputs the answer of Data is the "
              "coordinate-based specification of Data evaluated on inputs whose loaded fields are the window aggregates of each "
              "input's own series on its own grid (borrowed observations: the lender's), before the common subset is cut. "
              "The model is tied to the code by differential "
              "correspondence; an independent exact-arithmetic oracle judges the implementation on every op.")
TECHNIQUE = "Lean 4 proof over a hand-written model; differential correspondence against the real code; exact-arithmetic oracle"

BASE = ["mean", "median", "min", "max", "std", "variance", "iqr", "range", "count", "sum", "meanabs", "absmean",
        "change", "abschange"]
LEVELS = ["0", "0.1", "0.25", "0.5", "0.75", "0.9", "1"]
ALL = BASE + LEVELS
EXACT = {"min", "max", "count", "sum", "range", "change", "abschange", "median", "iqr", "0", "0.25", "0.5", "0.75", "1"}
NAN = float("nan")


# ------------------------------------------------------------------ generators
def _grid(rng):
    return rng.randint(-32, 32) / 8.0


def _vec(rng, n, pnan):
    pool = [_grid(rng) for _ in range(max(1, (n + 1) // 2))]      # few distinct values -> ties
    out = []
    for _ in range(n):
        r = rng.random()
        if r < pnan:
            out.append(NAN)
        elif r < pnan + 0.5:
            out.append(rng.choice(pool))
        else:
            out.append(_grid(rng))
    return out


def _coords(rng, n, step):
    """strictly ascending irregular grid with n entries (multiples of `step`)"""
    x = rng.choice([0, 0, 1, 3, -2]) * step
    out = []
    for _ in range(n):
        out.append(x)
        x += rng.choice([1, 1, 1, 2, 3, 6, 12]) * step
    return out


T2_FIELDS = ["obs", "fcst", "pit", "spread", "ens0", "ens1"]


def _gen_tdata2(rng):
    """op lines `tdata2 <src> <axis> <agg> <h> <cfg> <inputs> <reqs>` (cfg / inputs / reqs: the `data` encoding of
    harness/datagen.py)"""
    import datagen
    axis = rng.choice(["leadtime", "time"])
    n = rng.choice([1, 2, 2, 2, 3])
    src = rng.choice(["mem", "mem", "nc"])
    lpool = [0.0, 1.0, 2.0, 3.0, 4.5, 6.0, 9.0, 12.0]
    t0 = 946684800
    tpool = [t0 + 3600 * x for x in (0, 1, 2, 3, 6, 12, 24, 30)]
    xpool = [(float(i), 60.0 + i, 10.0 + i, 100.0 * i) for i in (1, 2, 3, 100000)]
    extra = rng.sample(["pit", "spread", "ens0", "ens1"], rng.choice([0, 1, 2, 4]))
    if "ens1" in extra and "ens0" not in extra:
        extra.append("ens0")
    pn = rng.choice([0.0, 0.0, 0.08, 0.25])
    no_obs = set()
    if n > 1 and rng.random() < 0.6:
        no_obs = set(rng.sample(range(n), rng.randint(1, n - 1)))      # at least one input keeps its observations
        if rng.random() < 0.5:
            no_obs.add(0)
            no_obs.discard(rng.choice([k for k in range(1, n)]))         # the FIRST input borrows from a later one
    inputs = []
    ref = {}
    same_shape = rng.random() < 0.4
    for k in range(n):
        def pick(pool, must, lo, hi):
            sel = set(rng.sample(pool, rng.randint(lo, hi)))
            for m in must:
                if rng.random() < 0.9:
                    sel.add(m)
            sel = sorted(sel)
            r = rng.random()
            if r < 0.25:
                rng.shuffle(sel)
            elif r < 0.35:
                sel.reverse()
            return sel
        leads = pick(lpool, [lpool[1], lpool[3], lpool[5]], 1, 6)
        times = pick(tpool, [tpool[0], tpool[2]], 1, 4)
        locs = pick(xpool, [xpool[0]], 1, 3)
        if k > 0 and same_shape:
            # same array shape as the first input, other coordinate values (a window taken on the wrong input's
            # grid then raises nothing)
            def resize(sel, pool, m):
                sel = list(sel[:m])
                free = [v for v in pool if v not in sel]
                rng.shuffle(free)
                return sel + free[:m - len(sel)]
            leads = resize(leads, lpool, len(inputs[0]["leads"]))
            times = resize(times, tpool, len(inputs[0]["times"]))
            locs = resize(locs, xpool, len(inputs[0]["locs"]))
        if rng.random() < 0.05 and len(leads) > 1:
            leads[-1] = leads[0]                          # a repeated coordinate
        shape = (len(times), len(leads), len(locs))
        fields = {}
        for name in ["obs", "fcst"] + sorted(extra):
            if name == "obs" and k in no_obs:
                continue
            a = np.array(_vec(rng, int(np.prod(shape)), pn), float).reshape(shape)
            if name == "pit":
                a = np.abs(a) / 4.0
            fields[name] = a
        if "obs" in fields and rng.random() < 0.7:
            # observations that exist agree between the inputs (the documented situation); sometimes they do not,
            # and then it matters WHOSE observations an input without observations gets
            a = fields["obs"]
            for it, t in enumerate(times):
                for il, l in enumerate(leads):
                    for ix, x in enumerate(locs):
                        if a[it, il, ix] == a[it, il, ix]:
                            a[it, il, ix] = ref.setdefault((t, l, x[0]), a[it, il, ix])
        inputs.append({"times": times, "leads": leads, "locs": locs, "fields": fields})
    cfg = {}
    if rng.random() < 0.3:
        allv = sorted(set(v for I in inputs for v in (I["leads"] if axis == "leadtime" else I["times"])))
        sub = sorted(rng.sample(allv, rng.randint(1, len(allv))))
        cfg["leads" if axis == "leadtime" else "times"] = sub
    if n > 1 and rng.random() < 0.12:
        cfg["clim"] = True                                  # the last input is the climatology (-c)
        cfg["div"] = rng.random() < 0.3
    ds = datagen.DS(inputs, cfg)
    nscored = n - (1 if cfg.get("clim") else 0)
    unit = 1
    span = 12 if axis == "leadtime" else 30
    h = rng.choice([0.5, 1, 1, 1.5, 2, 3, 3, 4.5, 6, span, span + 7]) * unit
    names = ["obs", "fcst"] + sorted(extra)
    reqs = []
    for name in names:
        for i in range(nscored):
            reqs.append(([name], i, "all", None))
    rng.shuffle(reqs)
    reqs = reqs[:6]
    if nscored > 1 and rng.random() < 0.5:
        reqs.append((["obs", "fcst"], rng.randrange(nscored), "all", None))
    for agg in rng.sample(ALL, 2):
        yield "tdata2 %s %s %s %s %s" % (src, axis, agg, xr(h), datagen.enc_op(ds, reqs, head="x")[2:])


def gen_ops(tier, rng):
    quick = tier == "quick"
    # --- name lookup
    for name in ALL + ["abs", "Mean", "quantile", "aggregator", "1.5", "-0.1", "0.0", "1.0", ".5", "0.333", "x1", "2"]:
        yield "agg.get", "aggget %s" % name
    # --- the generated class bodies (Gen/Agg.lean) executed against the real classes; own rng so that the other streams keep their sample
    import random as _random
    grng = _random.Random(repr(rng.getstate()[1][:8]) + "agg.gen")
    for n in range(0, 3):
        for v in itertools.product([-1.0, 0.0, 0.125, 1.0, NAN], repeat=n):
            for name in ALL:
                yield "agg.gen", "genagg %s %s" % (name, xvec(v))
    for _ in range(60 if quick else 1500):
        n = grng.choice([0, 1, 2, 3, 4, 5, 6, 7, 8, 9, 10, 11, 12])
        v = _vec(grng, n, grng.choice([0.0, 0.0, 0.0, 0.1, 0.3]))
        if grng.random() < 0.1 and n:
            v = [v[0]] * n
        for name in ALL:
            yield "agg.gen", "genagg %s %s" % (name, xvec(v))
    # --- vectors: exhaustive small scope, then seeded
    alpha = [-1.0, 0.0, 0.125, 1.0, NAN]
    for n in range(0, 4):
        for v in itertools.product(alpha, repeat=n):
            for name in ALL:
                yield "agg.vec.small", "agg %s %s" % (name, xvec(v))
    for _ in range(150 if quick else 3000):
        n = rng.choice([0, 1, 2, 3, 4, 5, 6, 7, 8, 9, 10, 11, 12])
        v = _vec(rng, n, rng.choice([0.0, 0.0, 0.0, 0.1, 0.3]))
        if rng.random() < 0.1 and n:
            v = [v[0]] * n
        if rng.random() < 0.1:
            v = sorted(v, key=lambda x: (x != x, x))
        for name in ALL:
            yield "agg.vec", "agg %s %s" % (name, xvec(v))
    # --- arrays, every axis
    for _ in range(100 if quick else 2000):
        rank = rng.choice([1, 2, 3, 3, 4, 4])
        dims = [rng.choice([1, 2, 2, 3, 3, 4]) for _ in range(rank)]
        if rng.random() < 0.06:
            dims[rng.randrange(rank)] = 0
        size = int(np.prod(dims))
        data = _vec(rng, size, rng.choice([0.0, 0.0, 0.05, 0.2]))
        names = rng.sample(ALL, 5)
        for k in range(rank):
            for name in names:
                yield "agg.axis", "aggaxis %s %d %s %s" % (name, k, ",".join(map(str, dims)), xvec(data))
    # --- "along any array dimension": dimensions named from the back (axis = -1 ... -rank) and arrays of rank 5 / 6,
    #     every axis, plus one axis outside the array (AxisError expected from everybody)
    for _ in range(40 if quick else 600):
        rank = rng.choice([1, 2, 3, 3, 4, 4])
        dims = [rng.choice([1, 2, 2, 3]) for _ in range(rank)]
        data = _vec(rng, int(np.prod(dims)), rng.choice([0.0, 0.0, 0.1]))
        names = rng.sample(BASE[:-2], 2) + rng.sample(LEVELS, 1) + ["change", "abschange"]
        for k in range(-rank - 1, 0):
            for name in names:
                yield "agg.axis.neg", "aggaxis %s %d %s %s" % (name, k, ",".join(map(str, dims)), xvec(data))
    for _ in range(12 if quick else 150):
        rank = rng.choice([5, 6])
        dims = [rng.choice([1, 2, 2]) for _ in range(rank)]
        data = _vec(rng, int(np.prod(dims)), rng.choice([0.0, 0.0, 0.1]))
        names = rng.sample(BASE[:-2], 2) + rng.sample(LEVELS, 1) + ["change", "abschange"]
        for k in list(range(rank + 1)) + [-1, -rank]:
            for name in names:
                yield "agg.axis.high", "aggaxis %s %d %s %s" % (name, k, ",".join(map(str, dims)), xvec(data))
    # --- trailing window on one series
    for _ in range(120 if quick else 2500):
        axis = rng.choice(["leadtime", "time"])
        n = rng.choice([1, 2, 3, 4, 5, 6, 8, 10])
        if axis == "leadtime":
            step = rng.choice([1, 1, 0.5, 0.25])
            coords = _coords(rng, n, step)
        else:
            step = rng.choice([3600, 3600, 1800, 21600])
            coords = [946684800 + c for c in _coords(rng, n, step)]
        unit = step if axis == "leadtime" else step / 3600.0
        span = (coords[-1] - coords[0]) / step if n > 1 else 1
        h = rng.choice([0.5, 1, 1, 1.5, 2, 3, 6, 12, span, span + 1, span + 7, 1000]) * unit
        vals = _vec(rng, n, rng.choice([0.0, 0.0, 0.1, 0.3]))
        for name in rng.sample(ALL, 7):
            yield "agg.window", "preagg %s %s %s %s %s" % (axis, name, xr(h), xvec(coords), xvec(vals))
    # --- hidden state: grids that share length, end points and window but differ inside, back to back in the
    #     same process (a cache keyed on too little of the grid would reuse the first grid's windows)
    for _ in range(40 if quick else 600):
        axis = rng.choice(["leadtime", "time"])
        n = rng.choice([3, 4, 5, 7])
        last = rng.choice([12, 24, 48])
        scale = 1 if axis == "leadtime" else 3600
        base = 0 if axis == "leadtime" else 946684800
        grids = []
        for _g in range(3):
            inner = sorted(rng.sample([x * 0.5 for x in range(1, 2 * last)], n - 2))
            grids.append([base + 0 * scale] + [base + c * scale for c in inner] + [base + last * scale])
        h = rng.choice([1.5, 3, 6, 12])
        name = rng.choice(ALL)
        vals = _vec(rng, n, 0.0)
        for g in grids:
            yield "agg.window.state", "preagg %s %s %s %s %s" % (axis, name, xr(h), xvec(g), xvec(vals))
    # --- the same on 3-D / 4-D arrays (time, leadtime, location[, member])
    for _ in range(40 if quick else 800):
        axis = rng.choice(["leadtime", "time"])
        rank = rng.choice([3, 3, 4])
        dims = [rng.choice([1, 2, 3, 4]), rng.choice([1, 2, 3, 5]), rng.choice([1, 2, 3])] + \
               ([rng.choice([1, 2, 3])] if rank == 4 else [])
        n = dims[1] if axis == "leadtime" else dims[0]
        if axis == "leadtime":
            coords, unit = _coords(rng, n, 1), 1
        else:
            coords, unit = [946684800 + c for c in _coords(rng, n, 3600)], 1
        h = rng.choice([1, 2, 3, 4, 7, 50])
        data = _vec(rng, int(np.prod(dims)), rng.choice([0.0, 0.0, 0.1]))
        for name in rng.sample(ALL, 4):
            yield "agg.window.arr", "preaggarr %s %s %s %s %s %s" % (
                axis, name, xr(h), xvec(coords), ",".join(map(str, dims)), xvec(data))
    # --- coordinates not strictly ascending (NetCDF input): shuffled, reversed, repeated
    for _ in range(25 if quick else 400):
        n = rng.choice([2, 3, 4, 5, 6])
        uaxis = rng.choice(["leadtime", "time"])       # both window functions (seeded change C15e: time only)
        coords = _coords(rng, n, 1) if uaxis == "leadtime" else [946684800 + c for c in _coords(rng, n, 3600)]
        kind = rng.choice(["shuffle", "shuffle", "dup", "reverse"])
        if kind == "shuffle":
            rng.shuffle(coords)
        elif kind == "reverse":
            coords = coords[::-1]
        else:
            i = rng.randrange(n - 1)
            coords[i + 1] = coords[i]
        h = rng.choice([1, 2, 3, 6, 30])
        vals = _vec(rng, n, 0.0)
        for name in rng.sample(ALL, 3):
            yield "agg.window.unsorted", "preagg %s %s %s %s %s" % (uaxis, name, xr(h), xvec(coords), xvec(vals))
    # --- through the command line: -T / -Tagg / -Tx wiring (oracle only; the driver is not modelled here)
    for _ in range(12 if quick else 120):
        axis = rng.choice(["leadtime", "time"])
        T, L, S = rng.choice([1, 2, 3]), rng.choice([1, 2, 3, 4]), rng.choice([1, 2])
        times = [946684800 + c for c in _coords(rng, T, 3600)]
        leads = [float(c) for c in _coords(rng, L, 1)]
        obs = _vec(rng, T * L * S, 0.0)
        yield "agg.cli", "tcli %s %s %d %s %s %d,%d,%d %s" % (
            axis, rng.choice(ALL), rng.choice([1, 2, 3, 5, 40]), xvec(times), xvec(leads), T, L, S, xvec(obs))
    # --- through Data: which loaded arrays are pre-aggregated, before the subset is cut
    for j in range(45 if quick else 600):
        src = rng.choice(["mem", "mem", "text", "nc"])
        axis = rng.choice(["leadtime", "time"])
        T, L, S, M = rng.choice([1, 2, 3, 4]), rng.choice([1, 2, 3, 4, 5]), rng.choice([1, 2]), rng.choice([1, 2, 3, 4])
        times = [946684800 + c for c in _coords(rng, T, 3600)]
        leads = [float(c) for c in _coords(rng, L, 1)]
        if src == "nc" and rng.random() < 0.5 and L > 1:
            rng.shuffle(leads)                       # NetCDF keeps the file's order
        if src == "nc" and rng.random() < 0.5 and T > 1:
            rng.shuffle(times)                       # ... of the times too (late runs appended out of order)
        h = rng.choice([1, 2, 3, 5, 40])
        pn = rng.choice([0.0, 0.0, 0.1])
        obs, fcst, ens = _vec(rng, T * L * S, pn), _vec(rng, T * L * S, pn), _vec(rng, T * L * S * M, pn)
        name = rng.choice(ALL)
        sel = "-"
        if rng.random() < 0.4:
            if axis == "leadtime" and L > 1:
                sel = "l:" + xvec(sorted(rng.sample(leads, rng.randint(1, L - 1))))
            elif axis == "time" and T > 1:
                sel = "t:" + xvec(sorted(rng.sample(times, rng.randint(1, T - 1))))
        fields = ["obs", "fcst", "ens:%d" % rng.randrange(M), "thr:%s" % xr(_grid(rng)), "q:%s" % rng.choice(["0.5", "0.25", "0.9"])]
        for field in fields:
            yield "agg.data", "tdata %s %s %s %s %s %s %d,%d,%d,%d %s %s %s %s %s" % (
                src, axis, name, xr(h), xvec(times), xvec(leads), T, L, S, M, xvec(obs), xvec(fcst), xvec(ens), field, sel)

    # --- -T with SEVERAL inputs (tdata2): every input on its own grid (different lead-time / time sets, different
    #     order, different locations), some inputs without observations (they borrow the first input that has them:
    #     pre-aggregated on the LENDER's grid), pit, an other-score field and ensemble members as fields, subsets of
    #     times / lead times, in memory and through NetCDF files (which keep the file's coordinate order)
    for j in range(60 if quick else 900):
        for line in _gen_tdata2(rng):
            yield "agg.data2", line


# ------------------------------------------------------------------ implementation side
def _get(name):
    import verif.aggregator
    return verif.aggregator.get(name)


def _call(f):
    with warnings.catch_warnings():
        warnings.simplefilter("ignore")
        try:
            with np.errstate(all="ignore"):
                return f()
        except (ValueError, IndexError, AssertionError):
            return "EXC"


def _show_arr(r):
    r = np.asarray(r)
    return "%s;%s" % (",".join(str(d) for d in r.shape) if r.ndim else "-", xvec(r.flatten().tolist()))


_TMP = None


def _tmpdir():
    global _TMP
    if _TMP is None:
        import atexit
        _TMP = tempfile.mkdtemp(prefix="c15_")
        atexit.register(shutil.rmtree, _TMP, True)
    return _TMP


def _make_input(src, times, leads, dims, obs, fcst, ens):
    """an input object of the real classes: Fake (in memory), Text (file), Netcdf (file)"""
    import verif.input
    T, L, S, M = dims
    obs = np.array(obs, float).reshape(T, L, S)
    fcst = np.array(fcst, float).reshape(T, L, S)
    ens = np.array(ens, float).reshape(T, L, S, M)
    if src == "mem":
        inp = verif.input.Fake(obs, fcst, times=np.array(times, float), leadtimes=np.array(leads, float))
        inp.ensemble = ens
        return inp
    d = _tmpdir()
    if src == "text":
        path = os.path.join(d, "in.txt")
        rows = []
        for t in range(T):
            for l in range(L):
                for s in range(S):
                    def tok(x):
                        return "nan" if x != x else repr(float(x))
                    rows.append("%d %s %d 0 %d 0 %s %s %s" % (times[t], repr(float(leads[l])), s, s, tok(obs[t, l, s]),
                                                              tok(fcst[t, l, s]), " ".join(tok(x) for x in ens[t, l, s])))
        rows.reverse()            # file order is irrelevant for text input
        with open(path, "w") as f:
            f.write("unixtime leadtime location lat lon elev obs fcst %s\n" % " ".join("e%d" % m for m in range(M)))
            f.write("\n".join(rows) + "\n")
        return verif.input.Text(path)
    import netCDF4
    path = os.path.join(d, "in.nc")
    if os.path.exists(path):
        os.remove(path)
    nc = netCDF4.Dataset(path, "w")
    nc.createDimension("time", T)
    nc.createDimension("leadtime", L)
    nc.createDimension("location", S)
    nc.createDimension("ensemble_member", M)
    for nm, dm, val in [("time", ("time",), times), ("leadtime", ("leadtime",), leads), ("location", ("location",), range(S)),
                        ("lat", ("location",), [0] * S), ("lon", ("location",), range(S)), ("altitude", ("location",), [0] * S)]:
        v = nc.createVariable(nm, "f8", dm)
        v[:] = np.array(list(val), float)
    for nm, val in [("obs", obs), ("fcst", fcst)]:
        v = nc.createVariable(nm, "f8", ("time", "leadtime", "location"))
        v[:] = val
    v = nc.createVariable("ensemble", "f8", ("time", "leadtime", "location", "ensemble_member"))
    v[:] = ens
    nc.close()
    return verif.input.Netcdf(path)


def _field(tok):
    import verif.field
    if tok == "obs":
        return verif.field.Obs()
    if tok == "fcst":
        return verif.field.Fcst()
    k, v = tok.split(":")
    if k == "ens":
        return verif.field.Ensemble(int(v))
    if k == "thr":
        return verif.field.Threshold(from_xr(v))
    return verif.field.Quantile(float(v))


def _tdata(a):
    import verif.data
    import verif.axis
    src, axis, name, h = a[1], a[2], a[3], from_xr(a[4])
    times, leads = from_xvec(a[5]), from_xvec(a[6])
    dims = [int(x) for x in a[7].split(",")]
    inp = _make_input(src, times, leads, dims, from_xvec(a[8]), from_xvec(a[9]), from_xvec(a[10]))
    kw = {}
    if a[12].startswith("l:"):
        kw["leadtimes"] = np.array(from_xvec(a[12][2:]))
    if a[12].startswith("t:"):
        kw["times"] = np.array(from_xvec(a[12][2:]))
    data = verif.data.Data([inp], dim_agg_length=h, dim_agg_method=_get(name),
                           dim_agg_axis=verif.axis.Leadtime() if axis == "leadtime" else verif.axis.Time(), **kw)
    r = data.get_scores(_field(a[11]), 0, verif.axis.All())
    return _show_arr(r)


def _t2_decode(a):
    """-> src, axis, name, h, ds, reqs"""
    import datagen
    ds, reqs = datagen.dec_op("data " + " ".join(a[5:8]))
    return a[1], a[2], a[3], from_xr(a[4]), ds, reqs


def _t2_input(src, I, k):
    """input k of a tdata2 dataset as an object of the real classes (in memory / NetCDF file)"""
    import datagen
    f = I["fields"]
    ens = [n for n in sorted(f) if n.startswith("ens")]
    if src == "mem":
        m = datagen.mem_input({"times": I["times"], "leads": I["leads"], "locs": I["locs"],
                               "fields": {n: a for n, a in f.items() if not n.startswith("ens")}}, "in%d" % k)
        if ens:
            m.ensemble = np.stack([np.array(f[n], float) for n in ens], axis=3)
        return m
    import netCDF4
    import verif.input
    path = os.path.join(_tmpdir(), "t2_%d.nc" % k)
    if os.path.exists(path):
        os.remove(path)
    nc = netCDF4.Dataset(path, "w")
    T, L, S = len(I["times"]), len(I["leads"]), len(I["locs"])
    nc.createDimension("time", T)
    nc.createDimension("leadtime", L)
    nc.createDimension("location", S)
    for nm, dm, val in [("time", ("time",), I["times"]), ("leadtime", ("leadtime",), I["leads"]),
                        ("location", ("location",), [x[0] for x in I["locs"]]), ("lat", ("location",), [x[1] for x in I["locs"]]),
                        ("lon", ("location",), [x[2] for x in I["locs"]]), ("altitude", ("location",), [x[3] for x in I["locs"]])]:
        v = nc.createVariable(nm, "f8", dm)
        v[:] = np.array(list(val), float)
    for nm, val in f.items():
        if not nm.startswith("ens"):
            v = nc.createVariable(nm, "f8", ("time", "leadtime", "location"))
            v[:] = np.array(val, float).reshape(T, L, S)
    if ens:
        nc.createDimension("ensemble_member", len(ens))
        v = nc.createVariable("ensemble", "f8", ("time", "leadtime", "location", "ensemble_member"))
        v[:] = np.stack([np.array(f[n], float).reshape(T, L, S) for n in ens], axis=3)
    nc.close()
    return verif.input.Netcdf(path)


def _t2_field(name):
    import datagen
    import verif.field
    if name.startswith("ens"):
        return verif.field.Ensemble(int(name[3:]))
    return datagen.field_obj(name)


def _tdata2(a):
    """-T on several inputs: ONE Data object, the requests one after the other"""
    import datagen
    import verif.data
    import verif.axis
    src, axis, name, h, ds, reqs = _t2_decode(a)
    ins = [_t2_input(src, I, k) for k, I in enumerate(ds.inputs)]
    kw = {}
    if ds.cfg.get("clim"):
        kw["clim"] = ins[-1]
        kw["clim_type"] = "divide" if ds.cfg.get("div") else "subtract"
        ins = ins[:-1]
    if ds.cfg.get("times") is not None:
        kw["times"] = np.array(ds.cfg["times"], float)
    if ds.cfg.get("leads") is not None:
        kw["leadtimes"] = np.array(ds.cfg["leads"], float)
    try:
        data = verif.data.Data(ins, dim_agg_length=h, dim_agg_method=_get(name),
                               dim_agg_axis=verif.axis.Leadtime() if axis == "leadtime" else verif.axis.Time(), **kw)
    except SystemExit:
        return "ERR init"
    out = [datagen.head_of(data)]
    for (f, i, ax, k) in reqs:
        try:
            r = data.get_scores([_t2_field(n) for n in f], i, verif.axis.All())
            out.append(";".join(xvec(np.array(o, float).flatten()) for o in r))
        except SystemExit:
            out.append("ERR")
    return " | ".join(out)


def _tcli(a):
    """verif <file> -m obs -T h -Tagg name -Tx axis -x axis -type csv; returns the value column"""
    import contextlib
    import io
    import verif.driver
    axis, name, h = a[1], a[2], a[3]
    times, leads = from_xvec(a[4]), from_xvec(a[5])
    T, L, S = [int(x) for x in a[6].split(",")]
    obs = np.array(from_xvec(a[7]), float).reshape(T, L, S)
    path = os.path.join(_tmpdir(), "cli.txt")
    with open(path, "w") as f:
        f.write("unixtime leadtime location lat lon elev obs fcst\n")
        for t in range(T):
            for l in range(L):
                for s in range(S):
                    f.write("%d %r %d 0 %d 0 %r 0\n" % (times[t], float(leads[l]), s, s, float(obs[t, l, s])))
    buf = io.StringIO()
    with warnings.catch_warnings():
        warnings.simplefilter("ignore")
        with contextlib.redirect_stdout(buf):
            verif.driver.run(["verif", path, "-m", "obs", "-T", h, "-Tagg", name, "-Tx", axis, "-x", axis, "-type", "csv"])
    rows = buf.getvalue().strip().splitlines()[1:]
    return ",".join(xr(float(r.split(",")[-1])) for r in rows) if rows else "-"


def _ungen(op):
    """a `genagg` op is the `agg` op executed with the generated definitions on the Lean side"""
    return "agg" + op[6:] if op.startswith("genagg ") else op


def impl(op):
    import verif.data
    op = _ungen(op)
    a = op.split(" ")
    k = a[0]
    try:
        if k == "aggget":
            g = _get(a[1])
            return "quantile:%s" % xr(g.quantile) if g.name() == "quantile" else g.name()
        if k == "agg":
            g = _get(a[1])
            v = np.array(from_xvec(a[2]), float)
            guard = common.Unchanged(v)
            r = _call(lambda: g(v))
            return guard.tag(r if isinstance(r, str) else xr(r))
        if k == "aggaxis":
            g = _get(a[1])
            dims = [int(x) for x in a[3].split(",")]
            arr = np.array(from_xvec(a[4]), float).reshape(dims)
            guard = common.Unchanged(arr)
            r = _call(lambda: g(arr, axis=int(a[2])))
            return guard.tag(r if isinstance(r, str) else _show_arr(r))
        if k in ("preagg", "preaggarr"):
            g = _get(a[2])
            h = from_xr(a[3])
            coords = np.array(from_xvec(a[4]), float)
            if k == "preagg":
                v = np.array(from_xvec(a[5]), float)
                arr = v.reshape(1, len(v), 1) if a[1] == "leadtime" else v.reshape(len(v), 1, 1)
            else:
                arr = np.array(from_xvec(a[6]), float).reshape([int(x) for x in a[5].split(",")])
            f = verif.data.preaggregate_leadtime if a[1] == "leadtime" else verif.data.preaggregate_time
            r = _call(lambda: f(arr, coords, g, h))
            if isinstance(r, str):
                return r
            return xvec(r.flatten().tolist()) if k == "preagg" else _show_arr(r)
        if k == "tdata":
            r = _call(lambda: _tdata(a))
            return r
        if k == "tcli":
            return _tcli(a)
        if k == "tdata2":
            import contextlib
            import io
            with contextlib.redirect_stdout(io.StringIO()):
                return _call(lambda: _tdata2(a))
    except SystemExit:
        return "ERR"
    raise ValueError(op)


# ------------------------------------------------------------------ the oracle: textbook statistics, exact
def _F(x):
    return Fraction(x)


def _sorted(xs):
    return sorted(xs)


def _quantile(xs, p):
    """linear interpolation between order statistics at position (n-1)p"""
    s, n = _sorted(xs), len(xs)
    pos = (n - 1) * p
    k = pos.numerator // pos.denominator
    g = pos - k
    if g == 0:
        return s[k]
    return (1 - g) * s[k] + g * s[k + 1]


def stat(name, xs):
    """statistic `name` of the complete sample xs (Fractions).  -> Fraction, ('sqrt', Fraction) or None = undefined"""
    n = len(xs)
    if name == "count":
        return Fraction(n)
    if name == "sum":
        return sum(xs, Fraction(0))
    if n == 0:
        return None
    mean = sum(xs, Fraction(0)) / n
    if name == "mean":
        return mean
    if name == "median":
        s = _sorted(xs)
        return s[n // 2] if n % 2 else (s[n // 2 - 1] + s[n // 2]) / 2
    if name == "min":
        return min(xs)
    if name == "max":
        return max(xs)
    if name == "variance":
        return sum((x - mean) ** 2 for x in xs) / n
    if name == "std":
        return ("sqrt", sum((x - mean) ** 2 for x in xs) / n)
    if name == "iqr":
        return _quantile(xs, Fraction(3, 4)) - _quantile(xs, Fraction(1, 4))
    if name == "range":
        return max(xs) - min(xs)
    if name == "meanabs":
        return sum(abs(x) for x in xs) / n
    if name == "absmean":
        return abs(mean)
    if name == "change":
        return xs[-1] - xs[0]
    if name == "abschange":
        return abs(xs[-1] - xs[0])
    p = Fraction(name)
    if 0 <= p <= 1:
        return _quantile(xs, p)
    raise ValueError(name)


def expected(name, vals):
    """vals: floats, NaN = missing.  -> list of acceptable answers: floats, 'nonnumber' (nan or an exception)"""
    valid = [_F(v) for v in vals if v == v]
    missing = len(valid) != len(vals)
    if name == "count":
        return [float(len(valid))]
    if name in ("change", "abschange"):
        if not vals:
            return ["nonnumber"]
        if vals[0] != vals[0] or vals[-1] != vals[-1]:
            return ["nonnumber"]
        return [_tofloat(stat(name, [_F(vals[0]), _F(vals[-1])]))]
    if missing:
        # a statistic of a sample with a missing value is undefined; the statistic of the valid values is tolerated
        s = stat(name, valid)
        return ["nonnumber"] + ([_tofloat(s)] if s is not None else [])
    s = stat(name, valid)
    return ["nonnumber"] if s is None else [_tofloat(s)]


def _tofloat(s):
    if isinstance(s, tuple):
        return math.sqrt(s[1])
    return float(s)


def _matches(tok, acc, rtol, atol):
    """tok: protocol token of the implementation's answer; acc: acceptable answers"""
    if tok.startswith("EXC") or tok == "nan":
        return "nonnumber" in acc
    try:
        x = from_xr(tok)
    except (ValueError, ZeroDivisionError):
        return False
    if math.isinf(x):
        return False
    return any(isinstance(e, float) and num_close(x, e, rtol, atol) for e in acc)


def _fmt(acc):
    return "/".join("undefined" if e == "nonnumber" else repr(e) for e in acc)


def _is_asc(c):
    return all(c[i] < c[i + 1] for i in range(len(c) - 1))


def _window(coords, h, l):
    return [j for j, c in enumerate(coords) if l - h < c <= l]


def _cells(dims):
    return itertools.product(*[range(d) for d in dims])


def spec_op(op):
    op = _ungen(op)
    a = op.split(" ")
    if a[0] == "agg":
        return "spec_agg %s %s" % (a[1], a[2])
    if a[0] == "preagg" and from_xr(a[3]) > 0 and len(from_xvec(a[4])) == len(from_xvec(a[5])):
        return "spec_preagg %s %s %s %s %s" % (a[1], a[2], a[3], a[4], a[5])
    return None


def _spec_agrees(spec_tok, acc):
    """cross-check of the Lean Spec against the Python oracle: 'undef'/'missing' <-> undefined"""
    if spec_tok in ("undef", "missing"):
        return "nonnumber" in acc
    return _matches(spec_tok, acc, 1e-9, 1e-12)


def judge(op, impl_out, spec_out):
    op = _ungen(op)
    a = op.split(" ")
    k = a[0]
    if common.mutated_verdict(op, impl_out):
        return common.mutated_verdict(op, impl_out)
    if (impl_out.startswith("EXC:") or impl_out.startswith("EXIT:")) and k not in ("aggget", "aggaxis"):
        return ({"kind": "exception", "op": k}, "%s ended in %s" % (op[:200], impl_out))
    if k == "aggget":
        name = a[1]
        want = name if name in BASE else None
        if want is None:
            try:
                p = Fraction(name)
                want = "quantile" if 0 <= p <= 1 else "ERR"
            except ValueError:
                want = "ERR"
        got = impl_out.split(":")[0]
        if want == "ERR" and got == "EXC":
            return None          # an undocumented name is refused, by message or by exception (get("quantile"): TypeError)
        if got != want:
            return ({"kind": "get", "name": name}, "aggregator.get(%s) gives %s, documented %s" % (name, impl_out, want))
        if want == "quantile" and not num_close(from_xr(impl_out.split(":")[1]), float(Fraction(name))):
            return ({"kind": "get", "name": name}, "quantile level %s for name %s" % (impl_out, name))
        return None
    if k == "agg":
        if impl_out == "ERR":
            return ({"kind": "get", "name": a[1]}, "aggregator %s not available" % a[1])
        acc = expected(a[1], from_xvec(a[2]))
        if spec_out is not None and not _spec_agrees(spec_out, acc):
            return ({"kind": "oracle-disagreement"}, "Spec.Stats says %s, Python oracle %s for %s" % (spec_out, _fmt(acc), op))
        if not _matches(impl_out, acc, 1e-9, 1e-12):
            return ({"kind": "statistic", "agg": a[1]},
                    "%s of [%s] is %s, the implementation returns %s" % (a[1], a[2], _fmt(acc), impl_out))
        return None
    if k == "aggaxis":
        name, ax0 = a[1], int(a[2])
        dims = [int(x) for x in a[3].split(",")]
        data = from_xvec(a[4])
        rank = len(dims)
        if not (-rank <= ax0 < rank):
            # not a dimension of the array: the call must not return anything
            if impl_out.startswith("EXC"):
                return None
            return ({"kind": "axis-range", "agg": name}, "%s along axis %d of shape %s returned %s" % (name, ax0, a[3], impl_out[:80]))
        ax = ax0 + rank if ax0 < 0 else ax0        # dimensions are named from the front, or from the back when negative
        n = dims[ax]
        odims = dims[:ax] + dims[ax + 1:]
        strides = [int(np.prod(dims[i + 1:])) for i in range(len(dims))]
        accs = []
        for idx in _cells(odims):
            fiber = []
            for j in range(n):
                full = list(idx[:ax]) + [j] + list(idx[ax:])
                fiber.append(data[sum(i * s for i, s in zip(full, strides))])
            accs.append(expected(name, fiber))
        if impl_out.startswith("EXC"):
            # an exception is acceptable only if the statistic is undefined for the fibers (empty axis)
            if n == 0 and "nonnumber" in expected(name, []):
                return None
            return ({"kind": "axis-raise", "axis": "negative" if ax0 < 0 else "ge5" if ax0 >= 5 else "0-4", "agg": name},
                    "%s along axis %d of an array of shape %s raised %s (dimension %d of %d; the statistic of every fiber is defined)"
                    % (name, ax0, a[3], impl_out, ax, rank))
        sh, vals = impl_out.split(";")
        want_sh = ",".join(map(str, odims)) if odims else "-"
        toks = [] if vals == "-" else vals.split(",")
        if sh != want_sh or len(toks) != len(accs):
            return ({"kind": "axis-shape", "agg": name}, "result shape %s, expected %s" % (sh, want_sh))
        for i, (t, acc) in enumerate(zip(toks, accs)):
            if not _matches(t, acc, 1e-9, 1e-12):
                return ({"kind": "axis", "agg": name},
                        "%s along axis %d of shape %s: cell %d is %s, the statistic of that fiber is %s" %
                        (name, ax0, a[3], i, t, _fmt(acc)))
        return None
    if k in ("preagg", "preaggarr"):
        axis, name, h = a[1], a[2], from_xr(a[3])
        coords = from_xvec(a[4])
        scale = 1 if axis == "leadtime" else 3600
        if h <= 0:
            return None          # -T <= 0 is rejected by the driver; outside the property
        if k == "preagg":
            vals = from_xvec(a[5])
            dims = [1, len(vals), 1] if axis == "leadtime" else [len(vals), 1, 1]
        else:
            dims = [int(x) for x in a[5].split(",")]
            vals = from_xvec(a[6])
        ax = 1 if axis == "leadtime" else 0
        if len(coords) != dims[ax]:
            return None
        order = "ascending" if _is_asc(coords) else "not-ascending"
        sig = {"kind": "window", "coords": order, "via": "function"}
        if impl_out.startswith("EXC"):
            return (sig, "pre-aggregation raised for %s" % op[:200])
        toks = impl_out.split(";")[-1].split(",") if impl_out not in ("-", "") else []
        if spec_out is not None:
            stoks = spec_out.split(";")
        strides = [int(np.prod(dims[i + 1:])) for i in range(len(dims))]
        for flat, idx in enumerate(_cells(dims)):
            l = coords[idx[ax]]
            win = _window(coords, h * scale, l)
            series = []
            for j in win:
                full = list(idx)
                full[ax] = j
                series.append(vals[sum(i * s for i, s in zip(full, strides))])
            acc = expected(name, series)
            if k == "preagg" and spec_out is not None and not _spec_agrees(stoks[idx[ax]], acc):
                return ({"kind": "oracle-disagreement"}, "Spec says %s, Python oracle %s at %d for %s" %
                        (stoks[idx[ax]], _fmt(acc), idx[ax], op))
            if flat >= len(toks) or not _matches(toks[flat], acc, 2e-6, 1e-6):
                return (sig, "-T %s -Tagg %s -Tx %s: at coordinate %s the %s of the window (%s, %s] = values [%s] is %s, "
                        "the implementation has %s" % (a[3], name, axis, xr(l), name, xr(l - h * scale), xr(l),
                                                       xvec(series), _fmt(acc), toks[flat] if flat < len(toks) else None))
        return None
    if k == "tdata":
        return _judge_tdata(a, impl_out)
    if k == "tdata2":
        return _judge_tdata2(a, impl_out)
    if k == "tcli":
        axis, name, h = a[1], a[2], int(a[3])
        times, leads = from_xvec(a[4]), from_xvec(a[5])
        T, L, S = [int(x) for x in a[6].split(",")]
        obs = np.array(from_xvec(a[7]), float).reshape(T, L, S)
        sig = {"kind": "window", "coords": "ascending", "via": "cli"}
        if impl_out.startswith("E"):
            return (sig, "verif -T %s -Tagg %s -Tx %s ended in %s" % (a[3], name, axis, impl_out))
        toks = [] if impl_out == "-" else impl_out.split(",")
        n = L if axis == "leadtime" else T
        if len(toks) != n:
            return (sig, "%d rows printed, expected %d" % (len(toks), n))
        for r in range(n):
            cells = []
            for t in range(T):
                for l in range(L):
                    if (l if axis == "leadtime" else t) != r:
                        continue
                    for s in range(S):
                        if axis == "leadtime":
                            series = [obs[t, j, s] for j in _window(leads, h, leads[l])]
                        else:
                            series = [obs[j, l, s] for j in _window(times, h * 3600, times[t])]
                        acc = expected(name, series)
                        cells.append(acc[0])
            want = sum(cells) / len(cells)
            if not num_close(from_xr(toks[r]), want, 2e-5, 2e-6):
                return (sig, "verif -m obs -T %s -Tagg %s -Tx %s -x %s: row %d prints %s, the mean of the %s over the trailing "
                        "windows is %r" % (a[3], name, axis, axis, r, toks[r], name, want))
        return None
    return None


def _judge_tdata(a, impl_out):
    src, axis, name, h = a[1], a[2], a[3], from_xr(a[4])
    times, leads = from_xvec(a[5]), from_xvec(a[6])
    T, L, S, M = [int(x) for x in a[7].split(",")]
    obs = np.array(from_xvec(a[8]), float).reshape(T, L, S)
    fcst = np.array(from_xvec(a[9]), float).reshape(T, L, S)
    ens = np.array(from_xvec(a[10]), float).reshape(T, L, S, M)
    field, sel = a[11], a[12]
    fk = field.split(":")[0]
    coords = leads if axis == "leadtime" else times
    scale = 1 if axis == "leadtime" else 3600
    order = "ascending" if _is_asc(coords) else "not-ascending"
    sig = {"kind": "window", "coords": order, "via": "Data", "field": fk}
    if impl_out.startswith("E"):
        return (sig, "Data with -T raised %s for %s" % (impl_out, " ".join(a[:8])))
    keep_t = sorted(set(times) & set(from_xvec(sel[2:]))) if sel.startswith("t:") else sorted(set(times))
    keep_l = sorted(set(leads) & set(from_xvec(sel[2:]))) if sel.startswith("l:") else sorted(set(leads))

    def agg_series(arr4):
        """arr4: (T, L, S, K) -> acceptable-answer lists per kept (t, l, s, k), windows by coordinate over the FULL series"""
        out = {}
        K = arr4.shape[3]
        for ti, t in enumerate(keep_t):
            for li, l in enumerate(keep_l):
                t0, l0 = times.index(t), leads.index(l)
                for s in range(S):
                    for m in range(K):
                        if axis == "leadtime":
                            series = [arr4[t0, j, s, m] for j in _window(leads, h, l)]
                        else:
                            series = [arr4[j, l0, s, m] for j in _window(times, h * 3600, t)]
                        out[(ti, li, s, m)] = (expected(name, series), series)
        return out

    sh, vals = impl_out.split(";")
    toks = [] if vals == "-" else vals.split(",")
    if sh != "%d,%d,%d" % (len(keep_t), len(keep_l), S) or len(toks) != len(keep_t) * len(keep_l) * S:
        return ({"kind": "data-shape"}, "result shape %s, expected %d,%d,%d" % (sh, len(keep_t), len(keep_l), S))
    if fk in ("obs", "fcst", "ens"):
        arr = obs[..., None] if fk == "obs" else fcst[..., None] if fk == "fcst" else ens[..., [int(field.split(":")[1])]]
        exp = agg_series(arr)
        i = 0
        for ti in range(len(keep_t)):
            for li in range(len(keep_l)):
                for s in range(S):
                    acc, series = exp[(ti, li, s, 0)]
                    if not _matches(toks[i], acc, 2e-6, 1e-6):
                        return (sig, "-T %s -Tagg %s -Tx %s, field %s (%s input): at time %s lead %s location %d the %s of the "
                                "trailing window values [%s] is %s, Data returns %s" %
                                (a[4], name, axis, field, src, xr(keep_t[ti]), xr(keep_l[li]), s, name, xvec(series),
                                 _fmt(acc), toks[i]))
                    i += 1
        return None
    # derived from the ensemble: every member must have been replaced by its aggregate first
    exp = agg_series(ens)
    i = 0
    for ti in range(len(keep_t)):
        for li in range(len(keep_l)):
            for s in range(S):
                accs = [exp[(ti, li, s, m)][0] for m in range(M)]
                if any(len(acc) != 1 for acc in accs):
                    i += 1
                    continue         # a window with missing members: several readings, no claim
                mem = [acc[0] for acc in accs]
                valid = [x for x in mem if x != "nonnumber"]
                if fk == "thr":
                    thr = from_xr(field.split(":")[1])
                    # skip cells where a member's aggregate is within rounding of the threshold
                    if any(abs(x - thr) < 1e-5 and x != thr for x in valid):
                        i += 1
                        continue
                    want = ["nonnumber"] if not valid else [sum(1.0 for x in valid if x <= thr) / len(valid)]
                else:
                    if len(valid) != M:
                        want = ["nonnumber"]
                    else:
                        with warnings.catch_warnings():
                            warnings.simplefilter("ignore")
                            want = [float(np.quantile(np.array(valid), float(field.split(":")[1]), method="normal_unbiased"))]
                if not _matches(toks[i], want, 2e-6, 1e-6):
                    return (dict(sig, field="quantile" if fk == "q" else "threshold"),
                            "-T %s -Tagg %s -Tx %s, field %s (%s input): at time %s lead %s location %d the pre-aggregated "
                            "members are [%s] giving %s, Data returns %s" %
                            (a[4], name, axis, field, src, xr(keep_t[ti]), xr(keep_l[li]), s,
                             ",".join(_fmt([m]) for m in mem), _fmt(want), toks[i]))
                i += 1
    return None


def _judge_tdata2(a, impl_out):
    """-T on several inputs, from the documentation, by COORDINATES: the verified dimensions are the values every input
    has (and the user's subset allows); the value of field F of input i at (t, l, x) is the aggregate of the series
    that the input SUPPLYING F to i stores (i itself; for observations the first input that has them when i has
    none) over the trailing window on the supplier's own grid, all of its stored lead times / times taking part
    whether verified or not; a case is missing for everybody when it is missing for anybody (C01)."""
    import datagen
    src, axis, name, h, ds, reqs = _t2_decode(a)
    sig = {"kind": "window", "via": "Data2", "src": src}
    dims = datagen.oracle_dims(ds)
    if impl_out.startswith("E"):
        if dims is None and impl_out == "ERR init":
            return None
        return (sig, "Data with -T on %d inputs ended in %s: %s" % (len(ds.inputs), impl_out, " ".join(a)[:300]))
    if dims is None:
        return (dict(sig, kind="data-dims"), "Data was built although the inputs have no common times / lead times / locations")
    parts = impl_out.split(" | ")
    want_head = "T=%s;L=%s;X=%s" % (xvec(dims[0]), xvec(dims[1]), xvec(dims[2]))
    if parts[0] != want_head:
        return (dict(sig, kind="data-dims"), "verified dimensions %s, documented %s" % (parts[0], want_head))
    clim = ds.inputs[-1] if ds.cfg.get("clim") else None
    scored = ds.inputs[:-1] if clim is not None else ds.inputs
    scale = 1 if axis == "leadtime" else 3600
    cache = {}

    def supplier(J, nm):
        if nm == "obs" and "obs" not in J["fields"]:
            return next(K for K in ds.inputs if "obs" in K["fields"])
        return J

    def acc_at(J, nm, c):
        K = supplier(J, nm)
        key = (id(K), nm, c)
        if key not in cache:
            arr = np.array(K["fields"][nm], float)
            it, il = datagen._first_index(K["times"], c[0]), datagen._first_index(K["leads"], c[1])
            ix = datagen._first_index([x[0] for x in K["locs"]], c[2])
            if axis == "leadtime":
                series = [float(arr[it, j, ix]) for j in _window(K["leads"], h, c[1])]
            else:
                series = [float(arr[j, il, ix]) for j in _window(K["times"], h * scale, c[0])]
            cache[key] = (expected(name, series), series)
        return cache[key]

    cases = [(t, l, x) for t in dims[0] for l in dims[1] for x in dims[2]]
    for (f, i, ax, k), reply in zip(reqs, parts[1:]):
        do_clim = clim is not None and ("obs" in f or "fcst" in f)
        eff = list(f) + (["fcst"] if do_clim and "fcst" not in f else [])
        err = False
        for nm in eff:
            have = [nm in J["fields"] for J in ds.inputs]
            if (nm == "obs" and not any(have)) or (nm != "obs" and not all(have)):
                err = True
        if err:
            if reply != "ERR":
                return (dict(sig, kind="data-field"), "request %s of input %d: a field is missing in some input, reply %s" % (f, i, reply[:80]))
            continue
        if reply == "ERR":
            return (dict(sig, kind="data-field"), "request %s of input %d stopped with an error although every input has the fields" % (f, i))
        cols = [([] if c == "-" else c.split(",")) for c in reply.split(";")]
        if len(cols) != len(f) or any(len(c) != len(cases) for c in cols):
            return (dict(sig, kind="data-shape"), "request %s: %s values per field, expected %d" % (f, [len(c) for c in cols], len(cases)))
        for ci, c in enumerate(cases):
            accs = [acc_at(J, nm, c)[0] for nm in eff for J in ds.inputs]
            if any(len(acc) != 1 for acc in accs):
                continue              # a window with a missing value inside: several readings, no claim
            missing = any(acc[0] == "nonnumber" for acc in accs)
            for fi, nm in enumerate(f):
                acc, series = acc_at(scored[i], nm, c)
                want = acc[0]
                if not missing and do_clim and nm in ("obs", "fcst"):
                    cv = acc_at(clim, "fcst", c)[0][0]
                    with np.errstate(all="ignore"):
                        want = float(np.float64(want) / np.float64(cv)) if ds.cfg.get("div") else want - cv
                    if want != want or math.isinf(want):
                        missing = True
            for fi, nm in enumerate(f):
                acc, series = acc_at(scored[i], nm, c)
                want = acc[0]
                if missing:
                    want = "nonnumber"
                elif do_clim and nm in ("obs", "fcst"):
                    cv = acc_at(clim, "fcst", c)[0][0]
                    want = float(np.float64(want) / np.float64(cv)) if ds.cfg.get("div") else want - cv
                if not _matches(cols[fi][ci], [want], 2e-6, 2e-6):
                    K = supplier(scored[i], nm)
                    lender = ds.inputs.index(K)
                    return (dict(sig, field=nm, borrowed=(lender != i)),
                            "-T %s -Tagg %s -Tx %s on %d inputs (%s): field %s of input %d at time %s lead %s location %s: the %s over "
                            "the trailing window of input %d's own series (values [%s] on its %s %s) is %s%s, Data returns %s" %
                            (a[4], name, axis, len(ds.inputs), src, nm, i, xr(c[0]), xr(c[1]), xr(c[2]), name, lender,
                             xvec(series), "lead times" if axis == "leadtime" else "times",
                             xvec(K["leads"] if axis == "leadtime" else K["times"]), _fmt(acc),
                             " (case missing in another input / after the climatology)" if missing and acc[0] != "nonnumber" else "",
                             cols[fi][ci]))
    return None


def cmp(op, impl_out, model_out):
    op = _ungen(op)
    a = op.split(" ")
    if model_out == "UNMODELLED" or a[0] == "tcli":
        return True
    if impl_out.startswith("EXC") or model_out.startswith("EXC") or impl_out == "ERR" or model_out == "ERR":
        return impl_out.split(":")[0] == model_out
    if a[0] == "aggget":
        return tokens_close(impl_out, model_out)
    if a[0] == "tdata2":
        pi, pm = impl_out.split(" | "), model_out.split(" | ")
        return len(pi) == len(pm) and pi[0] == pm[0] and all(
            x == y or tokens_close(x.replace(";", ","), y.replace(";", ","), 2e-6, 2e-6) for x, y in zip(pi[1:], pm[1:]))
    name = a[1] if a[0] in ("agg", "aggaxis") else a[2] if a[0] in ("preagg", "preaggarr") else a[3]
    if name in EXACT and a[0] != "tdata":
        return impl_out == model_out
    if a[0] in ("agg", "aggaxis"):
        return tokens_close(impl_out, model_out, 1e-9, 1e-12)
    return tokens_close(impl_out, model_out, 2e-6, 1e-6)       # float32 storage


def nontrivial(op, out):
    if out.startswith("E") or out in ("nan", "-"):
        return False
    return any(t not in ("nan", "-", "") for t in out.split(";")[-1].split(","))


def shrink(op):
    """drop trailing entries of a 1-D sample / series"""
    a = op.split(" ")
    if a[0] in ("agg", "genagg"):
        v = a[2].split(",") if a[2] != "-" else []
        for n in range(0, len(v)):
            for cand in (v[:n], v[len(v) - n:]):
                yield "%s %s %s" % (a[0], a[1], ",".join(cand) if cand else "-")
    if a[0] == "preagg":
        c, v = a[4].split(","), a[5].split(",")
        for n in range(1, len(c)):
            yield "preagg %s %s %s %s %s" % (a[1], a[2], a[3], ",".join(c[:n]), ",".join(v[:n]))
