"""C03 — verified dimensions = intersection of inputs and the user's subset."""
import datagen as dg
import props.c01 as c01
from common import tokens_close

ID = "C03"
TARGETS = ["Proofs.C03", "Proofs.DataRefine"]
GEN_PREFIXES = []
THEOREMS = {"Proofs.C03": ["VerifModel.C03." + t for t in [
    "C03_sortU", "strictAsc_filter", "memX_filter", "C03_commonValues", "C03_ranges_inclusive",
    "C03_obsrange_value", "C03_obsrange_other", "C03_empty_nan", "C03_empty_error"]],
    "Proofs.DataRefine": ["VerifModel.DataRefine." + t for t in [
        "getScores_refines", "C03_dims_are_intersection", "C03_dims_error"]]}
TRUSTED_BASE = c01.TRUSTED_BASE + [
    "option parsing (driver.py -> Data constructor arguments) is not part of this check (see C13); the check "
    "passes already-parsed values to Data(...)"]
ASSUMPTIONS = ["init times are whole seconds >= 0 (so that int(t/86400) is the UTC day)",
               "-tod takes hours of day; init times at whole hours",
               "C03_dims_are_intersection / C03_dims_error: no hypothesis beyond the result of Data.init; "
               "getScores_refines: arrays of the declared shapes (wfInput)"]
RULE = ("data.subset: generated datasets (datagen.gen_dataset, see C01: every field kind, stations whose metadata differ "
        "between the files) with each of the nine subsetting options (+ -obsrange) present with p=1/2: "
        "values from the data's own coordinates, values matching nothing, repeated values, range end points equal to a "
        "station's coordinate or 0.5 off, dates/hours selecting strict subsets; observable = verified times/leadtimes/"
        "locations, error exit, and every request's answer; thorough adds all 2^9 option subsets on 20 datasets")
EXHAUSTIVE = {"quick": False, "thorough": True}
EXHAUSTIVE_NOTE = "thorough: all 2^9 subsets of the nine options on 20 datasets"
LEVEL_TEXT = ("Lean theorems: the verified value list is strictly ascending (hence duplicate-free), NaN-free and contains a "
              "value iff it is in the user's list and in every input; range tests are inclusive at both ends; -obsrange "
              "keeps an observation iff it is inside the inclusive range and touches no other field; no valid case gives "
              "NaN and an empty dimension gives the error exit. End to end (Proofs/DataRefine.lean): "
              "C03_dims_are_intersection / C03_dims_error prove that Data.init returns exactly the dimensions of the "
              "value-based specification specDims (ascending duplicate-free values present in every input incl. the "
              "climatology and inside the user's options, set semantics of -l/-lx/-latrange/-lonrange/-elevrange/-d/-tod) "
              "and stops with an error exactly when the specification has none; getScores_refines extends this to every "
              "request's answer. Tied to the real Data class by correspondence; the documented set semantics is "
              "evaluated independently by the Python oracle and by the Lean specification (driver op specdata).")
TECHNIQUE = c01.TECHNIQUE


def gen_ops(tier, rng):
    n = 300 if tier == "quick" else 5000
    for _ in range(n):
        ds = dg.add_subset_options(dg.gen_dataset(rng, with_clim=(rng.random() < 0.15)), rng)
        dims = dg.oracle_dims(ds)
        if dims is None or not dims[0]:
            yield "data.subset", dg.enc_op(ds, [(["obs", "fcst"], 0, "no", None), (["fcst"], 0, "all", None)])
        else:
            yield "data.subset", dg.enc_op(ds, dg.all_requests(ds, dims, rng, 12))
    # a long -d list on sub-daily runs: 2-3 initialisations per day over four weeks, 14-22 requested dates in any order
    # with repeats, so that days that were NOT asked for hold several times (seeded change C03g: np.isin(...,
    # assume_unique=True) on the day of every time is wrong exactly there, and only when numpy takes its sort-based
    # branch, i.e. for many dates; C11g: the times in the order the dates were typed)
    for k in range(12 if tier == "quick" else 200):
        base = 1325376000 + 86400 * rng.choice([0, 40, 300])
        ndays = rng.choice([24, 28, 35])
        hours = rng.choice([(0, 12), (0, 12), (0, 6, 18), (6, 18)])
        times = [float(base + d * 86400 + h * 3600) for d in range(ndays) for h in hours if rng.random() < 0.95]
        leads, locs = [0.0, 12.0][:rng.choice([1, 2])], [(1.0, 50.0, 10.0, 100.0)]
        def field():
            return [[[float(rng.choice([0, 1, 2, 3, 5])) for _ in locs] for _ in leads] for _ in times]
        I = {"times": times, "leads": leads, "locs": locs, "fields": {"obs": field(), "fcst": field()}}
        days = [float(base + d * 86400) for d in range(ndays)]
        dates = rng.sample(days, rng.randint(14, min(22, ndays - 2)))
        if rng.random() < 0.5:
            dates.sort()
        if rng.random() < 0.3:
            dates.append(dates[0])
        cfg = {"dates": dates}
        if rng.random() < 0.3:
            cfg["tods"] = [float(rng.choice(hours))]
        ds = dg.DS([I], cfg)
        dims = dg.oracle_dims(ds)
        reqs = [(["obs", "fcst"], 0, "no", None), (["fcst"], 0, "all", None)]
        if dims is not None and dims[0]:
            reqs += dg.all_requests(ds, dims, rng, 6)
        yield "data.subset.longdates", dg.enc_op(ds, reqs)
    if tier == "thorough":
        keys = ["times", "leads", "dates", "tods", "l", "lx", "lat", "lon", "elev"]
        for _ in range(20):
            full = None
            while full is None or len(full.cfg) < 9:
                full = dg.add_subset_options(dg.gen_dataset(rng, with_clim=False), rng)
                full.cfg.pop("obsrange", None)
                for _k in range(30):
                    if all(k in full.cfg for k in keys):
                        break
                    extra = dg.add_subset_options(dg.DS(full.inputs, {}), rng).cfg
                    for k in keys:
                        if k not in full.cfg and k in extra:
                            full.cfg[k] = extra[k]
                if not all(k in full.cfg for k in keys):
                    full = None
            for mask in range(1 << 9):
                cfg = {k: full.cfg[k] for b, k in enumerate(keys) if mask >> b & 1}
                yield "data.subset.exh", dg.enc_op(dg.DS(full.inputs, cfg), [(["obs", "fcst"], 0, "no", None)])


def impl(op):
    return dg.impl_data(op)


def cmp(op, impl_out, model_out):
    return tokens_close(impl_out, model_out, 1e-9, 1e-12)


spec_op = c01.spec_op
judge = c01.judge
nontrivial = c01.nontrivial
