"""C03 — verified dimensions = intersection of inputs and the user's subset."""
import datagen as dg
import props.c01 as c01
from common import from_xvec, tokens_close, xr, xvec

ID = "C03"
TARGETS = ["Proofs.C03", "Proofs.DataRefine", "Proofs.GenEq.Subset", "Proofs.GenEq.DateFilter"]
GEN_PREFIXES = ["subset.", "datefilter."]
THEOREMS = {"Proofs.C03": ["VerifModel.C03." + t for t in [
    "C03_sortU", "strictAsc_filter", "memX_filter", "C03_commonValues", "C03_ranges_inclusive",
    "C03_obsrange_value", "C03_obsrange_other", "C03_empty_nan", "C03_empty_error"]],
    "Proofs.DataRefine": ["VerifModel.DataRefine." + t for t in [
        "getScores_refines", "C03_dims_are_intersection", "C03_dims_error"]],
    "Proofs.GenEq.Subset": ["VerifModel.GenEq.Subset." + t for t in [
        "latlonKeep_eq", "latlonId_eq", "elevKeep_eq", "elevId_eq", "latlonSelect_eq", "excludeX_eq",
        "useLocationsGen_eq", "gen_latrange_inclusive", "gen_elevrange_inclusive"]],
    "Proofs.GenEq.DateFilter": ["VerifModel.GenEq.DateFilter." + t for t in [
        "trunc_int", "day_eq", "dateKeep_eq", "mod_floor", "hour_eq", "todKeep_eq", "C03_tod_exact_hour"]]}
TRUSTED_BASE = c01.TRUSTED_BASE + [
    "option parsing (driver.py -> Data constructor arguments) is not part of this check (see C13); the check "
    "passes already-parsed values to Data(...)"]
ASSUMPTIONS = ["init times are whole seconds >= 0 (so that int(t/86400) is the UTC day)",
               "-tod takes hours of day; init times at whole hours",
               "C03_dims_are_intersection / C03_dims_error: no hypothesis beyond the result of Data.init; "
               "getScores_refines: arrays of the declared shapes (wfInput)"]
RULE = ("data.subset: generated datasets (datagen.gen_dataset, see C01: every field kind, stations whose metadata differ "
        "between the files) with each of the nine subsetting options (+ -obsrange) present with p=1/2: "
        "values from the data's own coordinates, values matching nothing, repeated values, range end points equal to a "
        "station's coordinate or 0.5 off, dates/hours selecting strict subsets; observable = verified times/leadtimes/"
        "locations, error exit, and every request's answer; thorough adds all 2^9 option subsets on 20 datasets")
EXHAUSTIVE = {"quick": False, "thorough": True}
EXHAUSTIVE_NOTE = "thorough: all 2^9 subsets of the nine options on 20 datasets"
LEVEL_TEXT = ("Lean theorems: the verified value list is strictly ascending (hence duplicate-free), NaN-free and contains a "
              "value iff it is in the user's list and in every input; range tests are inclusive at both ends; -obsrange "
              "keeps an observation iff it is inside the inclusive range and touches no other field; no valid case gives "
              "NaN and an empty dimension gives the error exit. End to end (Proofs/DataRefine.lean): "
              "C03_dims_are_intersection / C03_dims_error prove that Data.init returns exactly the dimensions of the "
              "value-based specification specDims (ascending duplicate-free values present in every input incl. the "
              "climatology and inside the user's options, set semantics of -l/-lx/-latrange/-lonrange/-elevrange/-d/-tod) "
              "and stops with an error exactly when the specification has none; getScores_refines extends this to every "
              "request's answer. Tied to the real Data class by correspondence; the documented set semantics is "
              "evaluated independently by the Python oracle and by the Lean specification (driver op specdata).")
TECHNIQUE = c01.TECHNIQUE


def gen_ops(tier, rng):
    n = 300 if tier == "quick" else 5000
    for _ in range(n):
        ds = dg.add_subset_options(dg.gen_dataset(rng, with_clim=(rng.random() < 0.15)), rng)
        dims = dg.oracle_dims(ds)
        if dims is None or not dims[0]:
            yield "data.subset", dg.enc_op(ds, [(["obs", "fcst"], 0, "no", None), (["fcst"], 0, "all", None)])
        else:
            yield "data.subset", dg.enc_op(ds, dg.all_requests(ds, dims, rng, 12))
    # a long -d list on sub-daily runs: 2-3 initialisations per day over four weeks, 14-22 requested dates in any order
    # with repeats, so that days that were NOT asked for hold several times (seeded change C03g: np.isin(...,
    # assume_unique=True) on the day of every time is wrong exactly there, and only when numpy takes its sort-based
    # branch, i.e. for many dates; C11g: the times in the order the dates were typed)
    for k in range(12 if tier == "quick" else 200):
        base = 1325376000 + 86400 * rng.choice([0, 40, 300])
        ndays = rng.choice([24, 28, 35])
        hours = rng.choice([(0, 12), (0, 12), (0, 6, 18), (6, 18)])
        times = [float(base + d * 86400 + h * 3600) for d in range(ndays) for h in hours if rng.random() < 0.95]
        leads, locs = [0.0, 12.0][:rng.choice([1, 2])], [(1.0, 50.0, 10.0, 100.0)]
        def field():
            return [[[float(rng.choice([0, 1, 2, 3, 5])) for _ in locs] for _ in leads] for _ in times]
        I = {"times": times, "leads": leads, "locs": locs, "fields": {"obs": field(), "fcst": field()}}
        days = [float(base + d * 86400) for d in range(ndays)]
        dates = rng.sample(days, rng.randint(14, min(22, ndays - 2)))
        if rng.random() < 0.5:
            dates.sort()
        if rng.random() < 0.3:
            dates.append(dates[0])
        cfg = {"dates": dates}
        if rng.random() < 0.3:
            cfg["tods"] = [float(rng.choice(hours))]
        ds = dg.DS([I], cfg)
        dims = dg.oracle_dims(ds)
        reqs = [(["obs", "fcst"], 0, "no", None), (["fcst"], 0, "all", None)]
        if dims is not None and dims[0]:
            reqs += dg.all_requests(ds, dims, rng, 6)
        yield "data.subset.longdates", dg.enc_op(ds, reqs)
    if tier == "thorough":
        keys = ["times", "leads", "dates", "tods", "l", "lx", "lat", "lon", "elev"]
        for _ in range(20):
            full = None
            while full is None or len(full.cfg) < 9:
                full = dg.add_subset_options(dg.gen_dataset(rng, with_clim=False), rng)
                full.cfg.pop("obsrange", None)
                for _k in range(30):
                    if all(k in full.cfg for k in keys):
                        break
                    extra = dg.add_subset_options(dg.DS(full.inputs, {}), rng).cfg
                    for k in keys:
                        if k not in full.cfg and k in extra:
                            full.cfg[k] = extra[k]
                if not all(k in full.cfg for k in keys):
                    full = None
            for mask in range(1 << 9):
                cfg = {k: full.cfg[k] for b, k in enumerate(keys) if mask >> b & 1}
                yield "data.subset.exh", dg.enc_op(dg.DS(full.inputs, cfg), [(["obs", "fcst"], 0, "no", None)])


# ---- translator extension (harness/translate_more.py gen_subset)
TRUSTED_BASE = TRUSTED_BASE + [
    "harness/translate_more.py gen_subset: the range tests of -latrange / -lonrange / -elevrange with their default "
    "bounds, the id a kept station contributes, the -l selection inside the lat/lon block and the -lx exclusion are read "
    "from Data.__init__ on every run (Gen/Subset.lean); the glue (which block runs, verif.util.intersect, the error "
    "exits) is Model/SubsetGen.lean useLocationsGen = Model/Data.lean useLocations (GenEq.Subset.useLocationsGen_eq); "
    "validated each run by stream data.gensubset, which executes the assembled pieces against the real constructor"]
RULE += ("; data.subset with -obsrange (p = 0.3): about 30 % of these datasets have >= 2 files (climatology file included) whose OWN "
         "observations disagree across the ends of the inclusive range in common cases (lo | lo-1/2, hi+1/2 | hi, inside | outside): "
         "an input is filtered by its own observation (datagen.with_obs_disagreement)")
RULE += ("; data.gensubset: one input with 1-8 stations on a small coordinate grid, -l / -lx / -latrange / -lonrange / "
         "-elevrange each present with p about 1/2, range ends on a station's coordinate or 0.5 off; observable = the "
         "verified location ids or the error exit, judged by the documented set semantics written in Python")
LEVEL_TEXT += (" The range predicates themselves are machine-translated from /repo on every run and proved to be the "
               "model's inclusive tests (latlonKeep_eq, elevKeep_eq, gen_latrange_inclusive, gen_elevrange_inclusive), the "
               "-l / -lx filters likewise (latlonSelect_eq, excludeX_eq).")


# ---- translator extension (harness/translate_more.py gen_datefilter, AUDIT4 row C03)
TRUSTED_BASE = TRUSTED_BASE + [
    "harness/translate_more.py gen_datefilter: the -d / -tod tests of Data.__init__ (`int(t // 86400)*86400 in dates_times`, "
    "`int(t % 86400)/3600 in tods`) are read from /repo on every run (Gen/DateFilter.lean) operator by operator into the "
    "primitives of Model/DatePrim.lean (Python float //, %, *, / by a positive integer literal, int() = truncation toward "
    "zero, on exact rationals); GenEq.DateFilter.dateKeep_eq / todKeep_eq prove them equal to the tests of Model/Data.lean "
    "Data.init (memX (dayStart t), memX (hourOfDay t)); validated each run by stream data.gendates"]
ASSUMPTIONS = [a for a in ASSUMPTIONS if not a.startswith(("init times are whole seconds >= 0", "-tod takes hours"))] + [
    "-d / -tod: any finite init time, negative (before 1970) and fractional included, in the theorems (the day is the floor "
    "of t / 86400); the data.gendates stream uses whole seconds (the input files hold integer times)"]
RULE += ("; data.gendates: one input, one station, 1-4 consecutive days starting 3 days before the epoch .. 1 day after (or in "
         "2012), times at whole and half hours and 1 s off, -d with dates inside / next to the data, -tod with whole and "
         "half hours; observable = the verified times, judged with exact fractions from the help text (a time belongs to the "
         "UTC day that contains it; -tod hh selects hh:00:00 only)")
LEVEL_TEXT += (" The -d / -tod tests are machine-translated from /repo on every run and proved to be the model's for every "
               "time (dateKeep_eq, todKeep_eq: floor semantics before 1970); C03_tod_exact_hour: a time s seconds past the "
               "whole hour h is selected by -tod h iff s = 0 (hh:30 is not).")


# ---- stream data.gensubset: the location-subsetting pieces machine-translated from Data.__init__ (Gen/Subset.lean,
# assembled by Model/SubsetGen.lean) executed against the real constructor: one input, several stations, the options
# -l -lx -latrange -lonrange -elevrange; reply = the verified location ids, ERR = an error exit
def _gensubset_ops(tier, rng):
    import random
    r = random.Random(repr(rng.getstate()[1][:4]) + "gensubset")     # derived without advancing rng: the other streams keep their samples
    for _ in range(250 if tier == "quick" else 4000):
        n = r.choice([1, 2, 3, 4, 6, 8])
        ids = r.sample([1.0, 2.0, 3.0, 5.0, 8.0, 13.0, 21.0, 34.0, 55.0], n)
        grid = [-10.0, 0.0, 40.0, 40.5, 50.0, 60.0]
        locs = [(i, r.choice(grid), r.choice(grid), r.choice([0.0, 10.0, 100.0, 100.5, 2500.0])) for i in ids]
        cfg = {}

        def some(vals, extra):
            out = r.sample(vals, r.randint(max(0, len(vals) - 2), len(vals))) + ([extra] if r.random() < 0.3 else [])
            r.shuffle(out)
            return out + (out[:1] if r.random() < 0.2 else [])

        def rr(vals):
            a, b = r.choice(vals), r.choice(vals)
            return (min(a, b) + r.choice([0.0, 0.0, 0.0, -0.5, 0.5]), max(a, b) + r.choice([0.0, 0.0, 0.0, 0.5, -0.5]))
        if r.random() < 0.4:
            cfg["l"] = some(ids + [9.0], 7.0)
        if r.random() < 0.35:
            cfg["lx"] = some(ids, 7.0)
        if r.random() < 0.5:
            cfg["lat"] = rr([l[1] for l in locs])
        if r.random() < 0.5:
            cfg["lon"] = rr([l[2] for l in locs])
        if r.random() < 0.5:
            cfg["elev"] = rr([l[3] for l in locs])
        yield "data.gensubset", "gensubset %s %s" % (dg.enc_cfg(cfg), ";".join(":".join(xr(v) for v in l) for l in locs))


def _gensubset_dec(op):
    a = op.split(" ")
    z = ",".join(["0"] * len(a[2].split(";")))
    ds, _ = dg.dec_op("data %s 0|0|%s|obs=%s;fcst=%s -" % (a[1], a[2], z, z))
    return ds


def _gensubset_impl(op):
    import warnings
    ds = _gensubset_dec(op)
    with warnings.catch_warnings():
        warnings.simplefilter("ignore")
        try:
            data = dg.build_data(ds)
        except SystemExit:
            return "ERR"
    return xvec([l.id for l in data.locations])


def _gensubset_judge(op, impl_out):
    """the documented set semantics, written from the help text: a station is verified iff its latitude, longitude
    and elevation lie inside the given ranges (end points included), its id is listed in -l (if given) and not in -lx"""
    ds = _gensubset_dec(op)
    c = ds.cfg
    keep = []
    for (i, lat, lon, elev) in ds.inputs[0]["locs"]:
        ok = all(c.get(k) is None or c[k][0] <= v <= c[k][1] for k, v in (("lat", lat), ("lon", lon), ("elev", elev)))
        ok = ok and (c.get("l") is None or i in c["l"]) and (c.get("lx") is None or i not in c["lx"])
        if ok:
            keep.append(i)
    want = xvec(sorted(set(keep))) if keep else "ERR"
    if impl_out != want:
        return ({"kind": "subset-locations"}, "verified locations %s, the options select %s (%s)" % (impl_out, want, op.split(" ")[1]))
    return None


# ---- stream data.gendates: the -d / -tod tests machine-translated from Data.__init__ (Gen/DateFilter.lean) executed
# against the real constructor: one input, one station, times around the epoch (negative = before 1970), at whole and
# half hours, some one second off (whole seconds: the input files hold integer times); reply = the verified times, EMPTY = none left
def _gendates_ops(tier, rng):
    import random
    r = random.Random(repr(rng.getstate()[1][:4]) + "gendates")      # derived without advancing rng
    for _ in range(200 if tier == "quick" else 3000):
        day0 = r.choice([-3, -2, -1, 0, 1, 15400])
        days = [day0 + k for k in range(r.choice([1, 2, 3, 4]))]
        secs = [0, 1800, 3600, 5400, 21600, 23400, 43200, 45000, 84600, 86399, 1, 3599, 3601]
        times = sorted(set(float(d * 86400 + s) for d in days for s in r.sample(secs, r.randint(1, 5))))
        cfg = {}
        if r.random() < 0.7:
            pool = [float(d * 86400) for d in days + [day0 - 1, days[-1] + 1]]
            cfg["dates"] = r.sample(pool, r.randint(1, len(pool) - 1))
            if r.random() < 0.2:
                cfg["dates"].append(cfg["dates"][0])
        if r.random() < 0.7 or not cfg:
            cfg["tods"] = r.sample([0.0, 1.0, 6.0, 12.0, 23.0, 0.5, 1.5], r.randint(1, 3))
        yield "data.gendates", "gendates %s %s" % (dg.enc_cfg(cfg), xvec(times))


def _gendates_dec(op):
    a = op.split(" ")
    ds, _ = dg.dec_op("data %s 0|0|1:50:10:100|obs=0;fcst=0 -" % a[1])
    times = [float(x) for x in from_xvec(a[2])]
    one = [[[0.0]] for _ in times]
    return dg.DS([{"times": times, "leads": [0.0], "locs": [(1.0, 50.0, 10.0, 100.0)],
                   "fields": {"obs": one, "fcst": one}}], ds.cfg), times


def _gendates_impl(op):
    import warnings
    ds, _ = _gendates_dec(op)
    with warnings.catch_warnings():
        warnings.simplefilter("ignore")
        try:
            data = dg.build_data(ds)
        except SystemExit:
            return "ERR"
    return xvec([float(t) for t in data.times]) if len(data.times) else "EMPTY"


def _gendates_judge(op, impl_out):
    """the documented semantics, written from the help text with exact fractions: -d keeps the initialisation times
    that lie within one of the dates (00:00:00 <= t < 24:00:00 UTC of that day, also before 1970); -tod keeps those
    whose hour of day, to the whole second, is one of the listed hours (hh:30 is not hour hh)"""
    from fractions import Fraction as F
    ds, times = _gendates_dec(op)
    c = ds.cfg
    keep = []
    for t in times:
        q = F(t)
        ok = c.get("dates") is None or any(F(d) <= q < F(d) + 86400 for d in c["dates"])
        if ok and c.get("tods") is not None:
            whole = q.numerator // q.denominator                    # whole seconds (floor)
            sod = whole % 86400                                     # second of the day, 0 .. 86399
            ok = any(F(h) * 3600 == sod for h in c["tods"])
        if ok:
            keep.append(t)
    want = xvec(keep) if keep else "EMPTY"
    if impl_out != want:
        return ({"kind": "date-filter"}, "verified times %s, the options select %s (%s)" % (impl_out, want, op.split(" ")[1]))
    return None


def gen_ops(tier, rng, _base=gen_ops):
    for x in _base(tier, rng):
        yield x
    for x in _gensubset_ops(tier, rng):
        yield x
    for x in _gendates_ops(tier, rng):
        yield x


def impl(op):
    if op.startswith("gensubset "):
        return _gensubset_impl(op)
    if op.startswith("gendates "):
        return _gendates_impl(op)
    return dg.impl_data(op)


def cmp(op, impl_out, model_out):
    if op.startswith(("gensubset ", "gendates ")):
        return impl_out == model_out
    return tokens_close(impl_out, model_out, 1e-9, 1e-12)


def spec_op(op):
    return None if op.startswith(("gensubset ", "gendates ")) else c01.spec_op(op)


def judge(op, impl_out, spec_out):
    if op.startswith("gensubset "):
        return _gensubset_judge(op, impl_out)
    if op.startswith("gendates "):
        return _gendates_judge(op, impl_out)
    return c01.judge(op, impl_out, spec_out)


def nontrivial(op, out):
    if op.startswith("gensubset "):
        return out != "ERR"
    if op.startswith("gendates "):
        return out not in ("ERR", "EMPTY")
    return c01.nontrivial(op, out)
