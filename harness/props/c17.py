"""C17 — plot appearance options are honoured in the produced figure.

Ops (one line each, same line to the real code and to the Lean driver, see lean/VerifModel/Driver/Fig.lean):

  figprops <plot> <n> <opts>          the canonical FigProps line of the figure produced by
                                      verif.driver.run([files…, -m …, options…, -f tmp/out.<ext>])
  figindep <plot> <n> <opts> <flag>   flags whose documented property differs with / without <flag>

<plot>: a plot kind of PLOTS (the standard plot on a lead-time / location / date axis, -type map / rank / impact /
maprank, every documented diagram, -hist, -sort).
<opts>: `;`-separated `flag=value` in command-line order, values in canonical form (numbers as protocol tokens
`25/2`, an rgb colour as `[r:g:b]`, a flag without value as `1`, dates as YYYYMMDD integers, `-f=out.<ext>` last).
`impl` translates them to command-line spelling, runs the REAL driver in-process (Agg backend) and reads the live
matplotlib figure back (Output._save_plot and mpl.savefig are intercepted from here; nothing in /repo is touched).
"""
import atexit
import contextlib
import io
import math
import os
import random
import shutil
import struct
import tempfile
import warnings

from common import xr, from_xr

ID = "C17"
TARGETS = ["Proofs.C17", "Proofs.GenEq.Appearance", "Proofs.C17Kinds", "Proofs.C17Time"]
GEN_PREFIXES = ["appearance.", "wiring."]

# (flag, field name in the FigProps line) in the order of Spec.Appearance.Field.all
TABLE = [("-title", "title"), ("-titlefs", "titlefs"), ("-xlabel", "xlabel"), ("-ylabel", "ylabel"),
         ("-clabel", "clabel"), ("-labfs", "labfs"), ("-xlim", "xlim"), ("-ylim", "ylim"), ("-clim", "clim"),
         ("-xticks", "xticks"), ("-yticks", "yticks"), ("-xticklabels", "xticklabels"),
         ("-yticklabels", "yticklabels"), ("-xrot", "xrot"), ("-yrot", "yrot"), ("-xlog", "xlog"), ("-ylog", "ylog"),
         ("-leg", "leg"), ("-legfs", "legfs"), ("-legloc", "legloc"), ("-lc", "lc"), ("-ls", "ls"), ("-lw", "lw"),
         ("-ma", "ma"), ("-ms", "ms"), ("-tickfs", "tickfs"), ("-afs", "afs"), ("-gc", "gc"), ("-gs", "gs"),
         ("-gw", "gw"), ("-nogrid", "nogrid"), ("-sp", "sp"), ("-aspect", "aspect"), ("-fs", "fs"), ("-dpi", "dpi"),
         ("-left", "left"), ("-right", "right"), ("-top", "top"), ("-bottom", "bottom"), ("-nomargin", "nomargin"),
         ("-a", "a"), ("-af", "af"), ("-f", "fmt")]
FLAGS = [f for f, _ in TABLE]
NAME = dict(TABLE)

THEOREMS = {
    "Proofs.C17": ["VerifModel.C17." + t for t in
                   ["C17_connected", "C17_parsers", "C17_order", "C17_effect_documented", "C17_independent",
                    "C17_independent_of_other_flags"] + ["C17_effect_" + f.lstrip("-") for f in FLAGS]],
    "Proofs.GenEq.Appearance": ["VerifModel.GenEq.Appearance." + t for t in
                                ["tables_interned", "reads_interned", "setters_interned"]],
    "Proofs.C17Kinds": ["VerifModel.C17Kinds." + t for t in
                        ["C17_kinds_wired", "C17_shown_partial", "C17_droc_log_not_shown", "C17_render_shows",
                         "C17_wired_effect", "C17_meteo_labels_not_shown"]],
    "Proofs.C17Time": ["VerifModel.C17Time." + t for t in
                       ["C17_time_axis", "C17_time_values", "C17_time_limits", "C17_time_kinds"]],
}
TRUSTED_BASE = [
    "Lean 4.33 kernel; axioms propext, Classical.choice, Quot.sound only",
    "Spec/Appearance.lean: my reading of the help text (flag -> figure property, value type, '_' convention, the "
    "documented dependencies -nogrid/-legfs 0/-a/-nomargin/-f) and of the descriptions of the diagrams (which plot kinds "
    "draw one line / set of points / set of bars per input, which are made of panels, which have a legend that names the "
    "inputs, a date axis, a perfect score); Spec/TimeAxis.lean: a date lies on a date axis as many days from 1970-01-01 as "
    "the textbook calendar counts",
    "harness/translate.py gen_appearance: AST walk of driver.run (argument loop, pl.<attr> block, Data keywords) and of "
    "output.py (reads, enclosing `if self.<attr>` tests, flow of self.<attr> into call arguments); gen_wiring: the output "
    "class and entry method the driver selects, per class where the dictionary of _get_plot_options goes, the form of "
    "_adjust_axes / _legend, legends drawn by the core methods, skip_log, default_axis, is_time_like; both validated each "
    "run by the correspondence itself: the model reply is computed from these tables and must equal what is read from the "
    "live figure",
    "Model/PlotKinds.lean majorLabelsHidden (hand-written, not regenerated): Meteo._plot_core hides the labels of the major "
    "x ticks, so _adjust_axis's relabelling / rotation of ax.get_xticklabels() shows nothing there; meteoXrotRepaired / "
    "METEO_XROT_REPAIRED: merge switch for fix_meteo_xrot.diff; both tied by fig.core / the corpus witnesses on the live figure",
    "Model/FigProps.lean setterField: the meaning of ~50 matplotlib calls (ax.set_xlim sets the x limits, …) — "
    "hand-written, tied by the streams on the live figure",
    "that mpl.plot(**opts) / mpl.bar(color=…, lw=…) draw with these styles, that Data.get_legend() carries the -leg names, "
    "that the maps adjust each panel inside _map_core: read back from the live figure for every plot kind (all 28 "
    "documented diagrams, -hist, -sort, the standard plot on three axes, -type map / rank / impact / maprank)",
    "matplotlib: artist properties <-> pixels, colour-name table, savefig writers (format checked by magic bytes, "
    "raster size and dpi metadata); date numbers count days from 1970-01-01 (matplotlib's default epoch, 3.11.2 here) — "
    "the oracle measures date limits against the plotted data points, so another epoch shows as a correspondence "
    "mismatch, not as a false pass",
]
ASSUMPTIONS = [
    "values are valid for the option (known legend location, valid colour / line style / marker, lower < upper, "
    "positive limits and ticks, as many tick labels as ticks, as many -leg names as inputs; on a date axis -xlim / -xticks "
    "are calendar dates YYYYMMDD of 1900..2100, around the data only on the meteogram, and no -xlog together with them)",
    "per-input line options are judged where the plot kind draws one line / point set / bar set per input, legend "
    "options where a legend exists, -sp where the plot kind has a perfect score, -clabel/-clim on -type map, -a/-af/-afs "
    "on the standard plot and the map ('not supported by all metrics') — Spec.Appearance.applicable, proved to agree with "
    "the regenerated wiring tables (C17_kinds_wired)",
    "on the 30 diagrams of fig.core every wired option (wired(plot) = the model's PlotKinds.shown, stream fig.wired) is "
    "exercised: quick once per diagram in a group of 1-4 options, thorough also alone and in random subsets; the property "
    "is read from the axes the diagram's _adjust_axes adjusts (gca, or every panel on pithist / against / igncontrib / map — "
    "C17_kinds_wired.panels); -type rank / impact / maprank get the core options alone, not the random subsets",
    "recorded deviations (known findings, left out of the canonical line on both sides, still judged by the oracle): "
    "-xlog / -ylog on droc / droc0, -xrot / -xticklabels on the meteogram",
]
RULE = ("fig.props: random subsets (inclusion probability 0.1-0.5 per option) and values of the 42 appearance options "
        "on -m mae -x leadtime (2 and 5 inputs), -x location, -x time (dates as limits / ticks), -m pithist, "
        "-m reliability -r 5, -m against (3 inputs) and -m mae -type map, written to png/jpg/pdf/svg/eps; fig.single: every "
        "option alone on every such plot kind it applies to, every core option alone on -x time and -type rank / impact / "
        "maprank, -sp on every kind with a perfect score; fig.core: EVERY wired option (per diagram the documented table "
        "minus the recorded deviations = PlotKinds.shown of the model, composed from the regenerated wiring tables; 28-38 "
        "options per diagram: the 16 core options and -titlefs -xticks -yticks -xticklabels -yticklabels -xrot -yrot -legloc "
        "-ls -ma -ms -gc -gs -gw -sp -aspect -left -right -top -bottom -nomargin) on all 28 documented diagrams and -hist / "
        "-sort, on deterministic / probabilistic / ensemble text files: quick one figure per group of 1-4 options and "
        "diagram (every wired option in exactly one group), thorough also every wired option alone (and every recorded "
        "deviation alone), 8 random subsets of the core options and 4 of all wired options per diagram; fig.wired: for each "
        "of the 37 plot kinds the list of wired options of the harness against the model's; fig.indep: for each multi-option figure one "
        "option is dropped and every other option's property is compared between the two live figures; an op is "
        "non-trivial if the reply shows at least one property")
EXHAUSTIVE = {"quick": False, "thorough": False}
EXHAUSTIVE_NOTE = ("every option alone on every applicable plot kind of fig.single, every wired (option, diagram) pair of the "
                   "30 diagrams of fig.core is enumerated (quick: in a group, thorough: alone); subsets and values are sampled")
LEVEL_TEXT = ("Lean theorems on tables regenerated from driver.py/output.py/axis.py each run: every documented appearance "
              "flag is parsed into a local that is assigned to an Output attribute (or Data keyword) that an output "
              "method reads, lands in exactly the documented figure property, no other flag lands there, no read is "
              "guarded by another option's attribute except documented dependencies; for each of the 37 plot kinds the "
              "selected output class runs its core method, adjusts the axes (every panel where the diagram has panels), "
              "hands the _get_plot_options dictionary to the drawing call exactly where the Spec says per-input styles "
              "apply, has a -legfs-guarded legend exactly where the Spec says a legend exists, a time-like axis exactly "
              "where the x-axis shows dates; in the model each option sets its property to its value (last occurrence "
              "wins), changes no other option's property, and is shown on every plot kind the Spec lists (C17_wired_effect: "
              "for all 37 kinds x 43 options, the canonical line carries the documented value), except the log "
              "scales of droc/droc0 and the x tick labels / rotation of the meteogram (known findings, _partial); on a date axis the x limits / ticks that reach the axis "
              "are the day numbers of the given dates for every valid date of 1900-2100. Rendering by matplotlib and the "
              "meaning of the ~50 setter calls are tied by reading back the live figure.")
TECHNIQUE = ("Lean 4 proof over tables regenerated from source by a translator (decide +kernel) plus generic record-update "
             "lemmas and a calendar proof resting on the kernel walk over 1900-2100; differential correspondence against "
             "the live matplotlib figure; metamorphic independence runs")

PLOTS = {"mae": (2, ["-m", "mae", "-x", "leadtime"]),
         "loc": (2, ["-m", "mae", "-x", "location"]),
         "pithist": (2, ["-m", "pithist"]),
         "reliability": (2, ["-m", "reliability", "-r", "5"]),
         "against": (3, ["-m", "against"]),
         "map": (2, ["-m", "mae", "-type", "map"]),
         # the standard plot with five inputs: more lines than entries in any -lc / -ls / -ma / -lw / -ms list, lists of
         # lengths 2 and 3 side by side (seeded change C17e: one combined style cycle of length max instead of
         # one cycle per option). Same plot kind as "mae" for the Lean model (lean_op).
         "mae5": (5, ["-m", "mae", "-x", "leadtime"]),
         # a time-like x-axis: the only way into the `if self.axis.is_time_like` branch of Output._adjust_axis
         # (-xlim / -xticks are YYYYMMDD dates there, converted to matplotlib date numbers)
         "time": (2, ["-m", "mae", "-x", "time"]),
         # the other plot types of the standard output
         "rank": (2, ["-m", "mae", "-type", "rank"]),
         "impact": (2, ["-m", "mae", "-type", "impact", "-r", "0:2:10"]),
         "maprank": (2, ["-m", "mae", "-type", "maprank"])}

# every other documented diagram (`verif --help`, "Special diagrams", plus -hist / -sort): stream fig.core
DIAGRAMS = {"qq": (2, ["-m", "qq"]),
            "scatter": (2, ["-m", "scatter"]),
            "cond": (2, ["-m", "cond", "-r", "2,4,6,8"]),
            "freq": (2, ["-m", "freq", "-r", "2,4,6,8"]),
            "marginal": (2, ["-m", "marginal"]),
            "invreliability": (2, ["-m", "invreliability", "-q", "0.9"]),
            "discrimination": (2, ["-m", "discrimination", "-r", "5"]),
            "roc": (2, ["-m", "roc", "-r", "5"]),
            "droc": (2, ["-m", "droc", "-r", "5"]),
            "droc0": (2, ["-m", "droc0", "-r", "5"]),
            "performance": (2, ["-m", "performance", "-r", "5"]),
            "taylor": (2, ["-m", "taylor"]),
            "error": (2, ["-m", "error"]),
            "spreadskill": (2, ["-m", "spreadskill", "-r", "0:1:6"]),
            "murphy": (2, ["-m", "murphy", "-r", "5"]),
            "economicvalue": (2, ["-m", "economicvalue", "-r", "5"]),
            "bsdecomp": (2, ["-m", "bsdecomp", "-r", "5"]),
            "igncontrib": (2, ["-m", "igncontrib", "-r", "5"]),
            "fss": (2, ["-m", "fss", "-r", "5"]),
            "autocorr": (2, ["-m", "autocorr"]),
            "autocov": (2, ["-m", "autocov"]),
            "timeseries": (2, ["-m", "timeseries"]),
            "meteo": (1, ["-m", "meteo"]),
            "change": (2, ["-m", "change"]),
            "obsfcst": (2, ["-m", "obsfcst"]),
            "hist": (2, ["-m", "fcst", "-hist"]),
            "sort": (2, ["-m", "fcst", "-sort"])}
PLOTS.update(DIAGRAMS)
# the diagrams of fig.core: the 27 above and the three special diagrams that fig.props already draws
CORE_KINDS = list(DIAGRAMS) + ["pithist", "reliability", "against"]
# input files per kind: deterministic (obs fcst), probabilistic (+ p5 pit q0.1 q0.5 q0.9; the default), ensemble (+ e0 e1 e2)
FAMILY = dict.fromkeys(["qq", "scatter", "cond", "freq", "droc", "droc0", "performance", "taylor", "error", "fss",
                        "autocorr", "autocov", "change", "obsfcst", "hist", "sort"], "det")
FAMILY["timeseries"] = "ens"

# ---- structure of each plot kind, written from the descriptions of the diagrams (mirror of Spec/Appearance.lean)
# every axes of the figure is a sub-plot of equal rank (one per input / pair / panel): options apply to each of them
ALL_AXES = {"pithist", "against", "map", "igncontrib"}
# the x-axis shows dates
TIME_AXIS = {"time", "timeseries", "meteo"}
# one line per input, labelled with the input's legend name (format of the label); MARKERS: drawn as markers only
LINE_LABEL = {k: "%s" for k in ["mae", "mae5", "loc", "time", "reliability", "qq", "scatter", "freq", "marginal",
                                 "invreliability", "roc", "droc", "droc0", "performance", "taylor", "error", "spreadskill",
                                 "murphy", "economicvalue", "bsdecomp", "igncontrib", "fss", "autocorr", "autocov",
                                 "timeseries", "change", "obsfcst", "hist", "sort"]}
LINE_LABEL["cond"] = "%s (F|O)"
MARKERS = {"loc", "scatter", "performance", "taylor", "error", "bsdecomp", "autocorr", "autocov"}
# one set of bars per input (or per rank) in the input's colour
BAR_LABEL = {"discrimination": "%s observed", "rank": "%s"}
# legend: entries that are not input names, and decorations of the input names
LEGEND_CONST = {"freq": ["Observed"], "marginal": ["Observed"], "scatter": ["1%", "10%-90%", "99%"],
                "autocorr": ["1%", "10%-90%", "99%"], "autocov": ["1%", "10%-90%", "99%"], "obsfcst": ["Observed"],
                "timeseries": ["obs"], "performance": ["Bias frequency", "Threat score"],
                "taylor": ["Observed", "CRMSE", "Min CRMSE"], "rank": ["None"], "maprank": ["similar"]}
LEGEND_SUFFIX = {"cond": [" (F|O)", " (O|F)"], "discrimination": [" not observed", " observed"],
                 "impact": [" is worse"], "maprank": [" is higher"]}
NO_LEGEND = {"pithist", "against", "map"}
NO_LEGEND_NAMES = NO_LEGEND | {"meteo"}          # the meteogram's legend names its own lines (one input only)
# shape of the perfect-score line that -sp shows
SP_SHAPE = {"mae": "zero", "mae5": "zero", "loc": "zero", "time": "zero", "change": "zero", "qq": "diagonal",
            "scatter": "diagonal", "cond": "diagonal", "reliability": "diagonal", "roc": "corner", "droc": "corner",
            "droc0": "corner", "spreadskill": "ray"}


def K(plot):
    return "mae" if plot == "mae5" else plot


def lean_op(op):
    return op.replace(" mae5 ", " mae ", 1)
LOCS = [(3, 50.0, 10.0, 12.0), (7, 52.5, 11.5, 250.0), (11, 55.0, 8.0, 40.0), (18, 47.5, 14.0, 900.0)]
LEADS = [1, 6, 12, 24]
DATES = [20120101, 20120102, 20120103, 20120104, 20120105, 20120106]
DEPENDS = {("-gc", "-nogrid"), ("-gs", "-nogrid"), ("-gw", "-nogrid"), ("-leg", "-legfs"), ("-legloc", "-legfs"),
           ("-af", "-a"), ("-afs", "-a"), ("-dpi", "-f"), ("-xticklabels", "-xticks"), ("-yticklabels", "-yticks"),
           ("-left", "-nomargin"), ("-right", "-nomargin"), ("-top", "-nomargin"), ("-bottom", "-nomargin")}
BOOL = {"-xlog", "-ylog", "-nogrid", "-sp", "-nomargin", "-a"}
NUMBER = {"-titlefs", "-labfs", "-tickfs", "-legfs", "-afs", "-gw", "-aspect", "-xrot", "-yrot", "-left", "-right",
          "-top", "-bottom", "-dpi"}
VECTOR = {"-xlim", "-ylim", "-clim", "-xticks", "-yticks", "-lw", "-ms", "-fs"}
SERIES = {"-lc", "-ls", "-lw", "-ma", "-ms"}

_TMP = {"dir": None}
_CACHE = {}


# ------------------------------------------------------------------ input files (written once per run)
def _tmpdir():
    if _TMP["dir"] is None:
        d = tempfile.mkdtemp(prefix="c17_")
        _TMP["dir"] = d
        atexit.register(shutil.rmtree, d, True)
        rng = random.Random(12345)
        for f in range(5):
            # three files per input: probabilistic in<f>.txt (threshold probability, pit, three quantiles),
            # deterministic det<f>.txt (obs fcst only), ensemble ens<f>.txt (three members and the quantiles)
            with open(os.path.join(d, "in%d.txt" % f), "w") as fh, open(os.path.join(d, "det%d.txt" % f), "w") as fd, \
                    open(os.path.join(d, "ens%d.txt" % f), "w") as fe:
                fh.write("date leadtime location lat lon altitude obs fcst p5 pit q0.1 q0.5 q0.9\n")
                fd.write("date leadtime location lat lon altitude obs fcst\n")
                fe.write("date leadtime location lat lon altitude obs fcst e0 e1 e2 q0.1 q0.9\n")
                for date in DATES:
                    for lt in LEADS:
                        for (i, la, lo, el) in LOCS:
                            r2 = random.Random(date * 1000 + lt * 37 + i)
                            obs = round(r2.uniform(1, 9), 1)
                            fc = round(obs + rng.uniform(-2, 2) + 0.3 * f + 0.02 * i, 1)
                            p5 = round(min(1, max(0, (5 - fc) / 6 + 0.5 + rng.uniform(-.2, .2))), 2)
                            pit = round(rng.random(), 2)
                            s = round(random.Random(date * 7 + lt * 11 + i * 3 + f).uniform(0.5, 2.5), 1)   # spread
                            head = "%d %d %d %g %g %g %g %g" % (date, lt, i, la, lo, el, obs, fc)
                            fh.write("%s %g %g %g %g %g\n" % (head, p5, pit, fc - s, fc, fc + s))
                            fd.write(head + "\n")
                            fe.write("%s %g %g %g %g %g\n" % (head, fc - 0.7 * s, fc + 0.1 * s, fc + 0.8 * s, fc - s, fc + s))
    return _TMP["dir"]


def input_names(plot):
    """base names of the input files of a plot kind (= the default legend names)"""
    return ["%s%d.txt" % (FAMILY.get(plot, "in"), i) for i in range(PLOTS[plot][0])]


# ------------------------------------------------------------------ op encoding
def parse_opts(s):
    if s == "-":
        return []
    out = []
    for item in s.split(";"):
        f, v = item.split("=", 1)
        out.append((f, v))
    return out


def enc_opts(opts):
    return ";".join("%s=%s" % fv for fv in opts) if opts else "-"


EMPTY = "<empty>"


def _num(tok):
    x = from_xr(tok)
    return repr(int(x)) if x == int(x) else repr(x)


def cli_value(flag, v):
    """canonical value -> command-line spelling"""
    if flag in NUMBER:
        return _num(v)
    if flag in VECTOR:
        return ",".join(_num(t) for t in v.split(","))
    if flag in ("-lc", "-gc"):
        return ",".join(t.replace(":", ",") if t.startswith("[") else t for t in v.split(","))
    if v == EMPTY:
        return ""            # -title "" / -ylabel "": the documented way to remove an automatic text
    return v


def argv_of(plot, opts, outfile):
    n, base = PLOTS[plot]
    d = _tmpdir()
    argv = ["verif"] + [os.path.join(d, nm) for nm in input_names(plot)] + list(base)
    for f, v in opts:
        if f == "-f":
            continue
        argv.append(f)
        if f not in BOOL:
            argv.append(cli_value(f, v))
    return argv + ["-f", outfile]


def cmdline(plot, opts):
    """the failing command line, for messages"""
    ext = dict(opts).get("-f", "out.png")
    a = argv_of(plot, opts, ext)
    return " ".join(os.path.basename(x) if x.startswith(_tmpdir()) else ("'%s'" % x if any(c in x for c in "[]*: ") else x)
                    for x in a)


# ------------------------------------------------------------------ running the real code, reading the figure back
def _file_info(path):
    info = {"fmt": "none", "px": None, "dpi": None}
    if not os.path.exists(path):
        return info
    with open(path, "rb") as fh:
        b = fh.read()
    if b[:8] == b"\x89PNG\r\n\x1a\n":
        info["fmt"] = "png"
        info["px"] = struct.unpack(">II", b[16:24])
        i = b.find(b"pHYs")
        if i > 0:
            ppm = struct.unpack(">I", b[i + 4:i + 8])[0]
            info["dpi"] = int(round(ppm * 0.0254))
    elif b[:3] == b"\xff\xd8\xff":
        info["fmt"] = "jpg"
        try:
            from PIL import Image
            with Image.open(path) as im:
                info["px"] = im.size
                d = im.info.get("dpi")
                info["dpi"] = int(round(d[0])) if d else None
        except Exception:
            pass
    elif b[:5] == b"%PDF-":
        info["fmt"] = "pdf"
    elif b[:10] == b"%!PS-Adobe" and b"EPSF" in b[:40]:
        info["fmt"] = "eps"
    elif b.lstrip()[:5] == b"<?xml" and b"<svg" in b[:2000]:
        info["fmt"] = "svg"
    else:
        info["fmt"] = "unknown"
    return info


def _hex(c):
    import matplotlib.colors
    try:
        return matplotlib.colors.to_hex(c)
    except (ValueError, TypeError):
        return "bad:%r" % (c,)


def _axis_raw(ax, names, plot="mae"):
    import matplotlib.container
    leg = ax.get_legend()
    lines = ax.get_lines()
    series = []
    fmt = LINE_LABEL.get(plot)
    for nm in names if fmt else []:
        ls = [l for l in lines if l.get_label() == fmt % nm]
        if ls:
            l = ls[0]
            series.append({"color": _hex(l.get_color()), "ls": l.get_linestyle(), "lw": float(l.get_linewidth()),
                           "marker": str(l.get_marker()), "ms": float(l.get_markersize()),
                           "x": [float(v) for v in l.get_xdata()], "y": [float(v) for v in l.get_ydata()]})
    bfmt = BAR_LABEL.get(plot)
    for nm in names if bfmt else []:         # one bar container per input: colour and edge width of its bars
        bs = [c for c in ax.containers if isinstance(c, matplotlib.container.BarContainer) and c.get_label() == bfmt % nm]
        if bs and len(bs[0].patches):
            ps = bs[0].patches
            series.append({"color": same(_hex(q.get_facecolor()) for q in ps), "ls": "bar",
                           "lw": same(float(q.get_linewidth()) for q in ps), "marker": "bar", "ms": 0.0, "x": [], "y": []})
    ideal = [l for l in lines if l.get_label() == "ideal"]
    if plot == "reliability":               # the perfect-reliability diagonal carries no label
        ideal = [l for l in lines if [float(v) for v in l.get_xdata()] == [0.0, 1.0]
                 and [float(v) for v in l.get_ydata()] == [0.0, 1.0]]
    # earliest plotted data point of a date axis (the perfect-score line spans the axis, not the data)
    xs = [float(v) for l in lines if l.get_label() != "ideal"
          for v in (l.get_xdata() if hasattr(l.get_xdata(), "__len__") else [l.get_xdata()])
          if plot in TIME_AXIS and v == v]
    grid = [g for g in ax.xaxis.get_gridlines() + ax.yaxis.get_gridlines()]
    xt = [t for t in ax.get_xticklabels()]
    yt = [t for t in ax.get_yticklabels()]
    asp = ax.get_aspect()
    coll = []
    for c in ax.collections:
        arr = c.get_array()
        if arr is not None:
            coll.append({"clim": tuple(c.get_clim()), "values": [float(v) for v in arr]})
    return {
        "title": ax.get_title(), "titlefs": float(ax.title.get_fontsize()),
        "xlabel": ax.get_xlabel(), "ylabel": ax.get_ylabel(),
        "labfs": [float(ax.xaxis.label.get_fontsize()), float(ax.yaxis.label.get_fontsize())],
        "xlim": [float(v) for v in ax.get_xlim()], "ylim": [float(v) for v in ax.get_ylim()],
        "xticks": [float(v) for v in ax.get_xticks()], "yticks": [float(v) for v in ax.get_yticks()],
        "xticklabels": [t.get_text() for t in xt], "yticklabels": [t.get_text() for t in yt],
        "xrot": sorted({float(t.get_rotation()) % 360 for t in xt}), "yrot": sorted({float(t.get_rotation()) % 360 for t in yt}),
        "xrot_minor": sorted({float(t.get_rotation()) % 360 for t in ax.xaxis.get_minorticklabels() if t.get_text()}),
        "tickfs": sorted({float(t.get_fontsize()) for t in xt + yt}),
        "xscale": ax.get_xscale(), "yscale": ax.get_yscale(),
        "aspect": asp if isinstance(asp, str) else float(asp),
        "grid_on": any(bool(g.get_visible()) for g in grid),
        "grid": sorted({(_hex(g.get_color()), str(g.get_linestyle()), float(g.get_linewidth())) for g in grid}),
        "legend": None if leg is None else {"texts": [t.get_text() for t in leg.get_texts()],
                                            "sizes": sorted({float(t.get_fontsize()) for t in leg.get_texts()}),
                                            "loc": leg._loc},
        "series": series,
        "ideal": [[float(v) for v in l.get_ydata()] for l in ideal],
        "idealx": [[float(v) for v in l.get_xdata()] for l in ideal],
        "minx": min(xs) if xs else None,
        "texts": [(t.get_text(), float(t.get_fontsize())) for t in ax.texts],
        "collections": coll,
    }


def observe(plot, opts):
    """run the real driver with these options; -> raw observation dict (cached per (plot, opts))"""
    key = (plot, tuple(opts))
    if key in _CACHE:
        return _CACHE[key]
    import matplotlib
    import matplotlib.pyplot as mpl
    import verif.driver
    import verif.output
    ext = dict(opts).get("-f", "out.png").rsplit(".", 1)[-1]
    outfile = os.path.join(_tmpdir(), "out_%d.%s" % (os.getpid(), ext))
    if os.path.exists(outfile):
        os.remove(outfile)
    n = PLOTS[plot][0]
    od = dict(opts)
    names = [s.replace("_", " ") for s in od["-leg"].split(",")] if "-leg" in od else input_names(plot)
    cap = {}
    orig_save_plot = verif.output.Output._save_plot
    orig_savefig = mpl.savefig

    def savefig(*a, **k):
        cap["savefig"] = (len(a), dict(k))
        return orig_savefig(*a, **k)

    def save_plot(self, data):
        orig_save_plot(self, data)
        fig = mpl.gcf()
        if "savefig" not in cap:
            fig.canvas.draw()
        gca = mpl.gca()
        axes = list(fig.axes)
        cbars = [a for a in axes if a.get_label() == "<colorbar>"]
        if plot in ALL_AXES:
            adjusted = [a for a in axes if a not in cbars]
        else:
            adjusted = [gca]
        sp = fig.subplotpars
        cap["raw"] = {
            "axes": [dict(_axis_raw(a, names, plot), gca=(a is gca)) for a in adjusted], "naxes": len(axes),
            "cbar": [{"label": a.get_ylabel(), "fs": float(a.yaxis.label.get_fontsize())} for a in cbars],
            "size": [float(v) for v in fig.get_size_inches()],
            "pars": [float(sp.left), float(sp.right), float(sp.top), float(sp.bottom), float(sp.wspace), float(sp.hspace)],
        }

    raw = {}
    mpl.close("all")
    verif.output.Output._save_plot = save_plot
    mpl.savefig = savefig
    try:
        with warnings.catch_warnings(), contextlib.redirect_stdout(io.StringIO()), contextlib.redirect_stderr(io.StringIO()):
            warnings.simplefilter("ignore")
            try:
                verif.driver.run(argv_of(plot, opts, outfile))
                raw = cap.get("raw", {"error": "EXC:no-figure"})
            except SystemExit as e:
                raw = {"error": "EXIT:%s" % (e.code,)}
            except Exception as e:
                raw = {"error": "EXC:%s" % type(e).__name__, "message": str(e)[:200]}
    finally:
        verif.output.Output._save_plot = orig_save_plot
        mpl.savefig = orig_savefig
        mpl.close("all")
    if "error" not in raw:
        raw["savefig"] = cap.get("savefig")
        raw["file"] = _file_info(outfile)
    _CACHE[key] = raw
    return raw


# ------------------------------------------------------------------ the documented property of each option, as observed
def esc(s):
    return s.replace(" ", "%20")


def same(values):
    vals = []
    for v in values:
        if v not in vals:
            vals.append(v)
    if len(vals) == 1:
        return vals[0]
    if not vals:
        return "none"
    return "MIXED(" + "|".join(str(v) for v in vals) + ")"


def vec(xs):
    return ",".join(xr(x) for x in xs) if len(xs) else "none"


def cyc(items, n):
    return [items[i % len(items)] for i in range(n)]


def _color_hex(tok):
    import matplotlib.colors
    if tok.startswith("["):
        return matplotlib.colors.to_hex([float(x) for x in tok.strip("[]").split(":")])
    return matplotlib.colors.to_hex(tok)


def _legloc_name(code):
    import matplotlib.legend
    for k, v in matplotlib.legend.Legend.codes.items():
        if v == code:
            return k
    return str(code)


def _annotation_columns(plot, raw):
    """annotation texts -> list of columns (each a sorted list of strings) and candidate columns per field name"""
    texts = [t for a in raw["axes"] for (t, _) in a["texts"]]
    rows = [t.split() for t in texts]
    cand = {}
    nser = sum(len(a["series"]) for a in raw["axes"])
    if K(plot) == "mae":
        cand["score"] = ["%g" % y for a in raw["axes"] for s in a["series"] for y in s["y"]]
        cand["key"] = ["%g" % x for a in raw["axes"] for s in a["series"] for x in s["x"]]
    elif plot == "loc":
        cand["score"] = ["%g" % y for a in raw["axes"] for s in a["series"] for y in s["y"]]
        cand["key"] = ["%g" % l[0] for _ in range(nser) for l in LOCS]
    elif plot == "map":
        cand["score"] = ["%g" % v for a in raw["axes"] for c in a["collections"][:1] for v in c["values"]]
        cand["key"] = ["%g" % l[0] for _ in raw["axes"] for l in LOCS]
        nser = len(raw["axes"])
    if plot in ("loc", "map"):
        for j, nm in ((1, "lat"), (2, "lon"), (3, "elev"), (0, "location")):
            cand[nm] = ["%g" % l[j] for _ in range(nser) for l in LOCS]
    return rows, {k: sorted(v) for k, v in cand.items()}


def legend_names(plot, texts):
    """the input names that a legend shows: entries that belong to the diagram itself (observation line, quantile
    lines, …) dropped, decorations of a name (` (F|O)`, ` observed`, …) removed, repeats of a name merged"""
    out = []
    for t in texts:
        if t in LEGEND_CONST.get(plot, []):
            continue
        for suf in LEGEND_SUFFIX.get(plot, []):
            if t.endswith(suf):
                t = t[:-len(suf)]
                break
        if not out or out[-1] != t:
            out.append(t)
    return out


def _perfect_line(shape, a):
    """is the line that indicates the perfect score present in axes `a`?  zero: a horizontal line at the perfect
    score 0; diagonal: forecast = observation across the axes; corner: through hit rate 1 at false alarm rate 0;
    ray: from the origin with a positive slope (spread ~ skill)"""
    for x, y in zip(a.get("idealx", []), a["ideal"]):
        if shape == "zero" and len(y) >= 2 and all(v == 0.0 for v in y):
            return True
        if shape == "diagonal" and len(y) >= 2 and x == y and x[0] < x[-1]:
            return True
        if shape == "corner" and (0.0, 1.0) in list(zip(x, y)) and (0.0, 0.0) in list(zip(x, y)) and (1.0, 1.0) in list(zip(x, y)):
            return True
        if shape == "ray" and len(y) == 2 and x[0] == 0.0 and y[0] == 0.0 and x[1] > 0 and y[1] > 0:
            return True
    return False


def daynum(ymd):
    """days from 1970-01-01 to the calendar date YYYYMMDD (Python's proleptic Gregorian ordinal; no matplotlib)"""
    import datetime
    ymd = int(ymd)
    return datetime.date(ymd // 10000, ymd // 100 % 100, ymd % 100).toordinal() - datetime.date(1970, 1, 1).toordinal()


# first data point of the time axes: DATES[0] (the standard plot) / DATES[0] + LEADS[0] hours (time series)
T0 = {"time": 0.0, "timeseries": LEADS[0] / 24.0, "meteo": LEADS[0] / 24.0}


def axis_offset(plot, raw):
    """where the time axis of the live figure puts 1970-01-01: the x of the first data point minus its calendar day
    number (0 with matplotlib's default epoch) — so that `lands at that date` is judged against the plotted data"""
    xs = [a["minx"] for a in raw["axes"] if a.get("minx") is not None]
    if not xs:
        return 0.0
    return min(xs) - (daynum(DATES[0]) + T0[plot])


def observed(flag, value, plot, raw):
    """canonical string of the figure property that `flag` documents, read from the raw observation.
    `value` (the requested canonical value) is only used to choose among equivalent spellings."""
    if "error" in raw:
        return "ERR"
    A = raw["axes"]
    if flag == "-title":
        return esc(same(a["title"] for a in A))
    if flag == "-titlefs":
        return same(xr(a["titlefs"]) for a in A)
    if flag == "-xlabel":
        return esc(same(a["xlabel"] for a in A))
    if flag == "-ylabel":
        return esc(same(a["ylabel"] for a in A))
    if flag == "-clabel":
        return esc(same(c["label"] for c in raw["cbar"]))
    if flag == "-labfs":
        return same(xr(v) for a in A for v in a["labfs"])
    if flag in ("-xlim", "-ylim"):
        return same(vec(a[flag[1:]]) for a in A)
    if flag == "-clim":
        return same(vec(c["clim"]) for a in A for c in a["collections"][:1])
    if flag in ("-xticks", "-yticks"):
        return same(vec(a[flag[1:]]) for a in A)
    if flag in ("-xticklabels", "-yticklabels"):
        return same(",".join(esc(t) for t in a[flag[1:]]) for a in A)
    if flag == "-xrot" and plot == "meteo":
        # the values shown on the meteogram's x-axis are the hour labels of the minor ticks (and the date labels of
        # the major ticks that are visible): every visible label of the axis
        return same(xr(v) for a in A for v in sorted(set(a["xrot"]) | set(a["xrot_minor"])))
    if flag in ("-xrot", "-yrot"):
        return same(xr(v) for a in A for v in a[flag[1:]])
    if flag == "-tickfs":
        return same(xr(v) for a in A for v in a["tickfs"])
    if flag in ("-xlog", "-ylog"):
        return same("1" if a[flag[1] + "scale"] == "log" else "0" for a in A)
    n = PLOTS[plot][0]
    if plot == "igncontrib" and (flag in SERIES or flag in ("-leg", "-legfs", "-legloc")):
        A = [a for a in A if a.get("gca")]      # the labelled curves and the legend are in the upper panel
    if flag == "-leg":
        return same("none" if a["legend"] is None else ",".join(esc(t) for t in legend_names(plot, a["legend"]["texts"])[:n])
                    for a in A)
    if flag == "-legfs":
        return same("0" if a["legend"] is None else same(xr(v) for v in a["legend"]["sizes"]) for a in A)
    if flag == "-legloc":
        return same("none" if a["legend"] is None else esc(_legloc_name(a["legend"]["loc"])) for a in A)
    if flag in SERIES:
        key = {"-lc": "color", "-ls": "ls", "-lw": "lw", "-ma": "marker", "-ms": "ms"}[flag]
        out = []
        for a in A:
            vals = [s[key] for s in a["series"]]
            if len(vals) != n:
                out.append("series:%d" % len(vals))
            elif flag in ("-lw", "-ms"):
                out.append(vec(vals) if all(isinstance(v, float) for v in vals) else ",".join(str(v) for v in vals))
            elif flag == "-lc":
                want = cyc(value.split(","), n)
                try:
                    ok = [_color_hex(w) for w in want] == vals
                except ValueError:
                    ok = False
                out.append(",".join(want) if ok else ",".join(vals))
            else:
                out.append(",".join(vals))
        return same(out)
    if flag in ("-gc", "-gs", "-gw"):
        j = {"-gc": 0, "-gs": 1, "-gw": 2}[flag]
        vals = []
        for a in A:
            for g in a["grid"]:
                v = g[j]
                if flag == "-gc":
                    try:
                        v = value if _color_hex(value) == v else v
                    except ValueError:
                        pass
                elif flag == "-gw":
                    v = xr(v)
                vals.append(v)
        return same(vals)
    if flag == "-nogrid":
        return same("0" if a["grid_on"] else "1" for a in A)
    if flag == "-sp":
        return same("1" if _perfect_line(SP_SHAPE.get(plot), a) else "0" for a in A)
    if flag == "-aspect":
        return same(a["aspect"] if isinstance(a["aspect"], str) else xr(a["aspect"]) for a in A)
    if flag == "-fs":
        return vec(raw["size"])
    if flag == "-dpi":
        f = raw["file"]
        if f["fmt"] in ("png", "jpg"):
            return "none" if f["dpi"] is None else str(f["dpi"])
        k = (raw.get("savefig") or (0, {}))[1]
        return xr(k["dpi"]) if "dpi" in k else "none"
    if flag in ("-left", "-right", "-top", "-bottom"):
        return xr(raw["pars"][["-left", "-right", "-top", "-bottom"].index(flag)])
    if flag == "-nomargin":
        return "1" if raw["pars"] == [0.0, 1.0, 1.0, 0.0, 0.0, 0.0] else "0"
    if flag == "-a":
        return "1" if any(a["texts"] for a in A) else "0"
    if flag == "-afs":
        return same(xr(s) for a in A for (_, s) in a["texts"])
    if flag == "-af":
        rows, cand = _annotation_columns(plot, raw)
        req = value.split(",")
        if not rows or any(len(r) != len(rows[0]) for r in rows):
            return "none" if not rows else "ragged"
        out = []
        for j in range(len(rows[0])):
            col = sorted(r[j] for r in rows)
            match = [k for k in ("score", "key", "lat", "lon", "elev", "location") if cand.get(k) == col]
            if j < len(req) and req[j] in match:
                out.append(req[j])
            else:
                out.append(match[0] if match else "?")
        return ",".join(out)
    if flag == "-f":
        return raw["file"]["fmt"]
    return "?"


def wanted(flag, value, plot, raw=None):
    """the documented property value, written from the help text (independent of verif and of the model)"""
    n = PLOTS[plot][0]
    if plot in TIME_AXIS and flag in ("-xlim", "-xticks"):
        # a date axis: the values are dates (YYYYMMDD, as everywhere in verif) and land at those dates on the axis
        off = axis_offset(plot, raw) if raw is not None else 0.0
        return X(*[daynum(from_xr(t)) + off for t in value.split(",")])
    if value == EMPTY and flag in ("-title", "-xlabel", "-ylabel", "-clabel"):
        return ""
    if flag in ("-title", "-legloc"):
        return esc(value.replace("_", " "))
    if flag == "-leg":
        return ",".join(esc(s.replace("_", " ")) for s in value.split(","))
    if flag in ("-xlabel", "-ylabel", "-clabel"):
        return esc(value)
    if flag in SERIES:
        return ",".join(cyc(value.split(","), n))
    if flag == "-f":
        return value.rsplit(".", 1)[-1]
    return value


def applicable(plot, flag):
    """mirror of Spec.Appearance.applicable (which properties exist on which plot kind)"""
    k = K(plot)
    if flag in ("-clabel", "-clim"):
        return k == "map"
    if flag in ("-a", "-af", "-afs"):
        return k in ("mae", "loc", "map")
    if flag == "-lc":
        return k in LINE_LABEL or k in BAR_LABEL
    if flag == "-lw":
        return (k in LINE_LABEL and (k not in MARKERS or k == "loc")) or k == "discrimination"
    if flag in ("-ma", "-ms"):
        return k in LINE_LABEL
    if flag == "-ls":
        return k in LINE_LABEL and k not in MARKERS
    if flag == "-leg":
        return k not in NO_LEGEND_NAMES
    if flag in ("-legfs", "-legloc"):
        return k not in NO_LEGEND
    if flag == "-sp":
        return k in SP_SHAPE
    return True


# plot kinds whose class sets `skip_log` (mirror of Model.PlotKinds.skipLog, which reads it from the regenerated
# tables): Output._adjust_axis leaves the axis scales alone there
SKIP_LOG = {"droc", "droc0"}

# (diagram, flag) pairs on which the code does not do what the help text says and which are RECORDED as known
# findings (known_findings.txt): the oracle below still judges them against the documentation — its verdict is
# matched by the `known:` lines — while the model mirrors the code (Model.PlotKinds.shown), so the canonical line
# leaves the property out on both sides.
KNOWN_DEVIATIONS = {(p, f) for p in SKIP_LOG for f in ("-xlog", "-ylog")}
# Meteo._plot_core hides the label of every major (date) tick and shows hour labels on the minor ticks;
# Output._adjust_axis relabels / rotates the major labels only (known findings meteo-xticklabels, meteo-xrot).
# METEO_XROT_REPAIRED: merge switch for the proposed patch fix_meteo_xrot.diff (keep equal to
# Model.PlotKinds.meteoXrotRepaired): True = /repo carries the patch, -xrot is part of the canonical line of meteo.
METEO_XROT_REPAIRED = True
KNOWN_DEVIATIONS |= {("meteo", "-xticklabels")} | (set() if METEO_XROT_REPAIRED else {("meteo", "-xrot")})

# (diagram, flag) pairs found to deviate and NOT YET DECIDED (fix or known finding).  A failure of the oracle on such
# a pair is printed as a PENDING-FINDING line (once) and is not a violation; the proposed `known:` line for each is
# in MERGE_NOTES.md.  Nothing is pending at the moment: hist -leg, meteo -nogrid, -type maprank -legfs 0 and
# meteo -xlim / -xticks are repaired in /repo (fix_*.diff), droc / droc0 -xlog / -ylog are known findings.
PENDING_FINDINGS = [
    # {"match": {"kind": "wrong-value", "diagram": "<kind>", "flag": "<-flag>"}, "what": "<one line>"},
]
_PENDING_SEEN = set()


def is_pending(sig, message):
    for e in PENDING_FINDINGS:
        if all(sig.get(k) == v for k, v in e["match"].items()):
            key = tuple(sorted(e["match"].items()))
            if key not in _PENDING_SEEN:
                _PENDING_SEEN.add(key)
                print("PENDING-FINDING: property=C17 %s e.g. %s" % (e["what"], message[:300]))
            return True
    return False


def observable(plot, od, flag, documented=False):
    """is the property of `flag` part of the canonical line?  documented=True: is it part of what the help text
    promises (the oracle's question — known deviations of the code included)"""
    if not applicable(plot, flag):
        return False
    if not documented and (K(plot), flag) in KNOWN_DEVIATIONS:
        return False
    if flag in ("-gc", "-gs", "-gw"):
        return "-nogrid" not in od
    if flag in ("-leg", "-legloc"):
        return od.get("-legfs") != "0"
    if flag in ("-af", "-afs"):
        return "-a" in od
    if flag in ("-left", "-right", "-top", "-bottom"):
        return "-nomargin" not in od
    return True


def last_wins(opts):
    od = {}
    for f, v in opts:
        od[f] = v
    return od


def canon(plot, opts, raw):
    if "error" in raw:
        return raw["error"]
    od = last_wins(opts)
    parts = []
    for f in FLAGS:
        if f in od and observable(plot, od, f):
            parts.append("%s=%s" % (NAME[f], observed(f, od[f], plot, raw)))
    return " ".join(parts) if parts else "-"


# ------------------------------------------------------------------ impl
def wired(plot):
    """the options whose documented property the code shows on a plot kind — Python mirror of the model's
    `PlotKinds.shown` (Spec.Appearance.applicable minus the recorded deviations, composed from the regenerated wiring
    tables); stream fig.wired compares the two for every plot kind on every run"""
    return [f for f in FLAGS if applicable(plot, f) and (K(plot), f) not in KNOWN_DEVIATIONS]


def _split(op):
    a = op.split(" ")
    if a[0] == "figwired":
        return a[0], a[1], 0, [], None
    return a[0], a[1], int(a[2]), parse_opts(a[3]), (a[4] if len(a) > 4 else None)


def impl(op):
    kind, plot, n, opts, flag = _split(op)
    if kind == "figwired":
        return ",".join(wired(plot)) or "-"
    raw = observe(plot, opts)
    if kind == "figprops":
        return canon(plot, opts, raw)
    if kind == "figindep":
        opts2 = [o for o in opts if o[0] != flag]
        raw2 = observe(plot, opts2)
        if "error" in raw or "error" in raw2:
            return raw.get("error") or raw2.get("error")
        od, od2 = last_wins(opts), last_wins(opts2)
        diff = []
        for f, _ in opts:
            if f in (flag, "-f") or (f, flag) in DEPENDS or f in diff:
                continue
            if observable(plot, od, f) and observable(plot, od2, f):
                if observed(f, od[f], plot, raw) != observed(f, od[f], plot, raw2):
                    diff.append(f)
        return ",".join(diff) if diff else "-"
    raise ValueError(op)


# ------------------------------------------------------------------ oracle
def _log_ticks(od, flag):
    return (flag in ("-xticks", "-xticklabels") and "-xlog" in od) or (flag in ("-yticks", "-yticklabels") and "-ylog" in od)


def judge(op, impl_out, spec_out):
    kind, plot, n, opts, flag = _split(op)
    if kind == "figwired":
        return None
    od = last_wins(opts)
    cl = cmdline(plot, opts)
    if impl_out.startswith("EXC:") or impl_out.startswith("EXIT:"):
        sig = {"kind": "exception", "plot": plot, "exc": impl_out,
               "log_ticks": any(_log_ticks(od, f) for f in od)}
        if od.get("-gc", "").startswith("["):
            sig["gc_form"] = "rgb-list"
        return (sig, "%s ended in %s" % (cl, impl_out))
    if kind == "figindep":
        if impl_out == "-":
            return None
        f = impl_out.split(",")[0]
        if _log_ticks(od, f) and flag in ("-xlog", "-ylog"):
            sig = {"kind": "ticks-lost-under-log", "option": f}
        else:
            sig = {"kind": "depends-on", "option": f, "other": flag, "plot": plot}
        raw, raw2 = observe(plot, opts), observe(plot, [o for o in opts if o[0] != flag])
        return (sig, "the property documented for %s is %s with %s and %s without it: %s" %
                (f, observed(f, od[f], plot, raw), flag, observed(f, od[f], plot, raw2), cl))
    raw = observe(plot, opts)
    # every documented property is read from the live figure (not from the canonical line, which leaves out the
    # recorded deviations); the recorded deviations are judged last so that they never hide another failure
    order = [f for f in FLAGS if (K(plot), f) not in KNOWN_DEVIATIONS] + [f for f in FLAGS if (K(plot), f) in KNOWN_DEVIATIONS]
    for f in order:
        if f not in od or not observable(plot, od, f, documented=True):
            continue
        want, have = wanted(f, od[f], plot, raw), observed(f, od[f], plot, raw)
        if want == have:
            continue
        if _log_ticks(od, f):
            sig = {"kind": "ticks-lost-under-log", "option": f}
        elif f == "-ms" and have == ",".join(str(int(from_xr(t))) for t in want.split(",")):
            sig = {"kind": "truncated", "option": f}
        else:
            sig = {"kind": "wrong-value", "option": f, "plot": plot, "diagram": K(plot), "flag": f}
        msg = "%s %s: figure shows %s, documented %s: %s" % (f, od[f], have, want, cl)
        if is_pending(sig, msg):
            continue
        return (sig, msg)
    # the image file: size in pixels when the bounding box is not tightened (a boundary option is given)
    fi = raw["file"]
    if fi["fmt"] in ("png", "jpg") and "-fs" in od and any(m in od for m in ("-left", "-right", "-top", "-bottom")):
        dpi = int(from_xr(od.get("-dpi", "100")))
        w, h = [from_xr(t) for t in od["-fs"].split(",")]
        want_px = (int(math.floor(w * dpi + 1e-9)), int(math.floor(h * dpi + 1e-9)))
        if tuple(fi["px"]) != want_px:
            return ({"kind": "file-size", "option": "-fs", "plot": plot},
                    "image is %sx%s pixels, -fs %s at %d dpi is %dx%d: %s" % (fi["px"] + (od["-fs"], dpi) + want_px + (cl,)))
    return None


def cmp(op, impl_out, model_out):
    kind, plot, n, opts, flag = _split(op)
    return impl_out == model_out.replace(EMPTY, "")


def nontrivial(op, out):
    if out == "ERR" or out.startswith("E"):
        return False
    return op.startswith("figindep") or out != "-"     # an independence op always compares >= 1 other option


# ------------------------------------------------------------------ generators
TEXTS = ["T", "Hello", "My_title", "x(1)", "a.b", "Mean_abs_err", EMPTY]
LABELS = ["XL", "Lead", "y-axis", "abc", "m/s", EMPTY]
SIZES = [6, 9, 12.5, 20, 7.3]
COLORS = ["red", "blue", "k", "0.3", "g", "[0:0.2:1]", "[1:0:0]", "m"]
# dates for -xlim / -xticks on a time axis: around the data (2012-01-01 … 06), month / year / leap-day boundaries, the
# epoch and the day before it, and the ends of the calendar range of the theorem (1900 … 2100)
TIME_DATES = [19000101, 19691231, 19700101, 19991231, 20000229, 20111225, 20111231, 20120101, 20120102, 20120103,
              20120105, 20120106, 20120108, 20120115, 20120229, 20120301, 20121231, 20130101, 21001231]
LEGLOCS = ["upper_left", "lower_right", "center", "best", "upper_right", "lower_left", "center_left", "lower_center"]


def X(*vals):
    """floats -> canonical value (exact doubles, comma separated)"""
    return ",".join(xr(float(v)) for v in vals)


def _ln(rng, plot):
    """length of a per-line style list: with five lines, lengths 2 and 3 (neither divides the other, both < 5)"""
    return rng.choice([2, 3, 2, 3, 1, 4]) if plot == "mae5" else rng.choice([1, 2, 3])


def gen_value(flag, rng, plot, chosen):
    n = PLOTS[plot][0]
    if flag in BOOL:
        return "1"
    if flag == "-title":
        return rng.choice(TEXTS)
    if flag in ("-xlabel", "-ylabel", "-clabel"):
        return rng.choice(LABELS)
    if flag in ("-titlefs", "-labfs", "-tickfs", "-afs"):
        return X(rng.choice(SIZES))
    if flag == "-legfs":
        return X(rng.choice(SIZES + [0]))
    if plot in TIME_AXIS and flag in ("-xlim", "-xticks"):
        # the meteogram puts a tick on every day and every sixth hour of its axis: a few days around the data only
        pool = [d for d in TIME_DATES if 20111225 <= d <= 20120108] if plot == "meteo" else TIME_DATES
        if flag == "-xlim":                             # two dates, lower < upper
            i = rng.randrange(len(pool) - 1)
            return X(pool[i], rng.choice(pool[i + 1:]))
        return X(*sorted(rng.sample(pool, rng.choice([2, 3, 4, 5]))))
    if flag in ("-xlim", "-ylim", "-clim"):
        return X(rng.choice([0.5, 1, 2, 0.75, 0.3]), rng.choice([5, 12, 30, 7.5, 9.9]))
    if flag in ("-xticks", "-yticks"):
        pool = [0.5, 1, 2, 3, 5, 8, 10, 12.5, 20, 24, 0.7]
        return X(*sorted(rng.sample(pool, rng.choice([2, 3, 4, 5]))))
    if flag in ("-xticklabels", "-yticklabels"):
        k = len(chosen[flag.replace("labels", "s")].split(","))
        return ",".join(rng.sample(["a", "b", "c", "d", "e", "lo", "hi", "mid", "X1"], k))
    if flag in ("-xrot", "-yrot"):
        return X(rng.choice([0, 30, 45, 90, 22.5]))
    if flag == "-leg":
        return ",".join(rng.sample(["A", "B_x", "Model_1", "ctl", "raw", "New"], n))
    if flag == "-legloc":
        return rng.choice(LEGLOCS)
    if flag == "-lc":
        return ",".join(rng.choice(COLORS) for _ in range(_ln(rng, plot)))
    if flag == "-ls":
        return ",".join(rng.choice(["-", "--", ":", "-."]) for _ in range(_ln(rng, plot)))
    if flag == "-lw":
        return X(*[rng.choice([1, 3, 2.5, 0.5, 1.3]) for _ in range(_ln(rng, plot))])
    if flag == "-ma":
        return ",".join(rng.choice(["o", "*", "x", "s", "^", "."]) for _ in range(_ln(rng, plot)))
    if flag == "-ms":
        pool = [3, 6, 10, 12, 4.5]
        return X(*[rng.choice(pool) for _ in range(_ln(rng, plot))])
    if flag == "-gc":
        return rng.choice(["red", "0.3", "blue", "k", "g", "[0:0.5:0]", "[0.3:0:0]"])
    if flag == "-gs":
        return rng.choice(["-", "--", ":", "-."])
    if flag == "-gw":
        return X(rng.choice([0.5, 2, 2.5, 3, 1.7]))
    if flag == "-aspect":
        return X(rng.choice([0.5, 1, 2, 0.8]))
    if flag == "-fs":
        return X(*rng.choice([(4.5, 3.5), (6, 4), (8, 6), (5, 5), (6.5, 4.25), (6.4, 4.8)]))
    if flag == "-dpi":
        return X(rng.choice([50, 72, 120, 150]))
    if flag == "-left":
        return X(rng.choice([0.1, 0.2, 0.25]))
    if flag == "-right":
        return X(rng.choice([0.85, 0.95, 0.8]))
    if flag == "-bottom":
        return X(rng.choice([0.1, 0.25, 0.15]))
    if flag == "-top":
        return X(rng.choice([0.8, 0.9, 0.95]))
    if flag == "-af":
        pool = ["score", "key"] + (["lat", "lon", "elev", "location"] if plot in ("loc", "map") else [])
        return ",".join(rng.sample(pool, rng.choice([1, 2, min(3, len(pool))])))
    raise ValueError(flag)


def gen_config(rng, plot, p, fmt):
    chosen = {}
    order = [f for f in FLAGS if f != "-f"]
    for f in order:
        if not applicable(plot, f) and rng.random() < 0.8:
            continue        # inapplicable options are still passed now and then: they must not disturb anything
        if rng.random() >= p:
            continue
        if f in ("-xticklabels", "-yticklabels") and f.replace("labels", "s") not in chosen:
            continue
        v = gen_value(f, rng, plot, chosen)
        chosen[f] = v
    if plot in TIME_AXIS and ("-xlim" in chosen or "-xticks" in chosen):
        chosen.pop("-xlog", None)           # dates before 1970 are negative axis values: not valid on a log axis
    items = list(chosen.items())
    rng.shuffle(items)
    if items and rng.random() < 0.1:        # an option given twice: the last occurrence counts
        f, v = rng.choice(items)
        if f not in BOOL and not f.endswith("ticks") and not f.endswith("ticklabels") and f not in ("-leg", "-af"):
            other = gen_value(f, rng, plot, chosen)
            items.insert(rng.randrange(0, [g for g, _ in items].index(f) + 1), (f, other))
    # tick labels after their ticks is not required by the tool; any order is a valid command line
    return items + [("-f", "out.%s" % fmt)]


def _observe_job(key):
    plot, opts = key
    return key, observe(plot, list(opts))


def prefetch(ops):
    """run the real driver for all figures of `ops` in forked worker processes and keep the observations
    (impl/judge then find them in the cache).  Falls back to in-process evaluation if forking fails."""
    keys = []
    for op in ops:
        kind, plot, n, opts, flag = _split(op)
        if kind == "figwired":
            continue
        keys.append((plot, tuple(opts)))
        if kind == "figindep":
            keys.append((plot, tuple(o for o in opts if o[0] != flag)))
    keys = [k for k in dict.fromkeys(keys) if k not in _CACHE]
    nproc = min(int(os.environ.get("C17_WORKERS", "8")), os.cpu_count() or 1)
    if nproc <= 1 or len(keys) < 8:
        return
    _tmpdir()
    try:
        import multiprocessing
        import verif.driver       # import before forking
        import matplotlib.pyplot
        with multiprocessing.get_context("fork").Pool(nproc) as pool:
            for key, raw in pool.imap_unordered(_observe_job, keys, chunksize=4):
                _CACHE[key] = raw
    except Exception:
        pass


def _fmt(rng):
    return rng.choice(["png"] * 6 + ["jpg", "pdf", "svg", "eps"])


def _plot(rng):
    return rng.choice(["mae"] * 5 + ["mae5"] * 3 + ["loc"] * 2 + ["pithist"] * 3 + ["reliability"] * 3 + ["against"] * 3 +
                      ["map"] * 2 + ["time"] * 3 + ["rank", "impact", "maprank"])


# plot kinds of fig.props / fig.single (every option); the 27 other diagrams are in fig.core (core options)
SINGLE_KINDS = ["mae", "loc", "pithist", "reliability", "against", "map", "mae5", "time", "rank", "impact", "maprank"]
NEW_KINDS = ["time", "rank", "impact", "maprank"]
CORE = ["-title", "-xlabel", "-ylabel", "-xlim", "-ylim", "-lc", "-lw", "-leg", "-legfs", "-xlog", "-ylog", "-labfs",
        "-tickfs", "-nogrid", "-dpi", "-fs"]
# core options drawn together in the quick tier (one figure per group and diagram)
CORE_GROUPS = [["-title", "-xlabel", "-ylabel"], ["-labfs", "-tickfs"], ["-xlim", "-ylim"], ["-xlog", "-ylog"],
               ["-lc", "-lw"], ["-leg", "-legfs"], ["-nogrid", "-fs", "-dpi"]]


def _one(plot, f, rng):
    """op line: option f alone (plus what it needs) on a plot kind"""
    chosen = {}
    opts = []
    for need in [f.replace("labels", "s")] if f.endswith("ticklabels") else []:
        chosen[need] = gen_value(need, rng, plot, chosen)
        opts.append((need, chosen[need]))
    if f in ("-af", "-afs"):
        opts.append(("-a", "1"))
    v = gen_value(f, rng, plot, chosen)
    if f == "-af":      # every annotation field the plot kind offers
        v = "score,key" if K(plot) == "mae" else "lat,lon,elev,location,score,key"
    opts.append((f, v))
    return "figprops %s %d %s" % (plot, PLOTS[plot][0], enc_opts(opts + [("-f", "out.png")]))


def pair_ops(rng):
    """-xticks and -xlim together, in both orders, on every date-axis kind: _adjust_axis converts the dates of each of
    them (seeded change C17f: after set_xticks had replaced the date locator, the limits were no longer recognised as
    dates and applied raw)"""
    for plot in sorted(TIME_AXIS & set(PLOTS)):
        chosen = {}
        for order in (("-xticks", "-xlim"), ("-xlim", "-xticks")):
            opts = []
            for f in order:
                if not applicable(plot, f):
                    break
                chosen.setdefault(f, gen_value(f, rng, plot, chosen))
                opts.append((f, chosen[f]))
            else:
                yield "figprops %s %d %s" % (plot, PLOTS[plot][0], enc_opts(opts + [("-f", "out.png")]))


def single_ops(rng, all_plots):
    """every option alone (plus what it needs) on every plot kind it applies to / on a rotating plot kind; every core
    option alone on the date axis and on -type rank / impact / maprank; -sp on every kind with a perfect score"""
    k = 0
    seen = set()
    for f in FLAGS:
        if f == "-f":
            for fmt in ("png", "jpg", "pdf", "svg", "eps"):
                yield "figprops mae 2 %s" % enc_opts([("-f", "out.%s" % fmt)])
            continue
        app = [p for p in SINGLE_KINDS if applicable(p, f)]
        todo = app if (all_plots or f == "-af") else [app[k % len(app)]]
        if f in CORE or f == "-xticks":
            todo = todo + [p for p in NEW_KINDS if p in app and p not in todo]
        if f == "-sp":
            todo = [p for p in PLOTS if applicable(p, f)]
        k += 1
        for plot in todo:
            seen.add((plot, f))
            yield _one(plot, f, rng)


# the remaining documented options, drawn together in the quick tier (one figure per group and diagram; no group
# holds an option together with one that makes it void: -nogrid / -nomargin / -legfs 0 are elsewhere)
REST_GROUPS = [["-xticks", "-xticklabels", "-xrot"], ["-yticks", "-yticklabels", "-yrot"], ["-ls", "-ma", "-ms"],
               ["-gc", "-gs", "-gw"], ["-left", "-right", "-top", "-bottom"], ["-titlefs", "-legloc", "-aspect"],
               ["-nomargin", "-sp"], ["-clabel", "-clim"], ["-a", "-af", "-afs"]]
assert sorted(f for g in CORE_GROUPS + REST_GROUPS for f in g) == sorted(f for f in FLAGS if f != "-f")


def _group_op(plot, fl, rng, fmt="png"):
    chosen = {}
    opts = []
    for f in fl:                                    # tick labels are generated after their ticks
        chosen[f] = gen_value(f, rng, plot, chosen)
        opts.append((f, chosen[f]))
    rng.shuffle(opts)
    return "figprops %s %d %s" % (plot, PLOTS[plot][0], enc_opts(opts + [("-f", "out.%s" % fmt)]))


def core_ops(rng, tier):
    """fig.core: on every documented diagram every option that is wired for it (wired(plot): the documented table
    minus the recorded deviations = the model's PlotKinds.shown from the regenerated wiring tables, compared by
    stream fig.wired).  quick: one figure per group of options and diagram, every wired option in exactly one group;
    thorough: every wired option alone as well, random subsets of the core options and of all wired options"""
    for plot in CORE_KINDS:
        w = [f for f in wired(plot) if f != "-f"]
        # the recorded deviations are run too (alone): the oracle's verdict on them is matched by the known findings
        dev = [f for f in FLAGS if (K(plot), f) in KNOWN_DEVIATIONS]
        app = [f for f in CORE if f in w]
        if tier == "thorough":
            for f in w + dev:
                yield _one(plot, f, rng)
        for g in CORE_GROUPS + REST_GROUPS:
            fl = [f for f in g if f in w and not (f.endswith("ticklabels") and f.replace("labels", "s") not in w)]
            if fl:
                yield _group_op(plot, fl, rng)
        for j in range(12 if tier == "thorough" else 0):
            pool, p = (app, 0.4) if j < 8 else (w, 0.25)
            fl = [f for f in pool if rng.random() < p]
            if plot in TIME_AXIS and ("-xlim" in fl or "-xticks" in fl) and "-xlog" in fl:
                fl.remove("-xlog")
            fl = [f for f in fl if not (f.endswith("ticklabels") and f.replace("labels", "s") not in fl)]
            yield _group_op(plot, fl, rng, _fmt(rng))


def _indep_op(rng, plot, cfg):
    flags = [f for f, _ in cfg if f != "-f"]
    droppable = [f for f in flags if not (f.endswith("ticks") and f.replace("ticks", "ticklabels") in flags)]
    if len(flags) >= 2 and droppable:
        return "figindep %s %d %s %s" % (plot, PLOTS[plot][0], enc_opts(cfg), rng.choice(droppable))
    return None


def gen_ops(tier, rng):
    out = [("fig.single", op) for op in single_ops(rng, tier == "thorough")]
    out += [("fig.pair", op) for op in pair_ops(rng)]
    core = list(core_ops(rng, tier))
    out += [("fig.core", op) for op in core]
    out += [("fig.wired", "figwired %s" % k) for k in PLOTS if k != "mae5"]
    nrand = 150 if tier == "quick" else 1500
    indep = []
    for _ in range(nrand):
        plot = _plot(rng)
        cfg = gen_config(rng, plot, rng.choice([0.1, 0.25, 0.25, 0.5]), _fmt(rng))
        out.append(("fig.props", "figprops %s %d %s" % (plot, PLOTS[plot][0], enc_opts(cfg))))
        indep.append(_indep_op(rng, plot, cfg))
    if tier == "thorough":      # independence on the diagrams of fig.core as well
        for op in core:
            kind, plot, n, opts, flag = _split(op)
            if rng.random() < 0.5:
                indep.append(_indep_op(rng, plot, opts))
    out += [("fig.indep", op) for op in indep if op]
    prefetch([op for _, op in out])
    return out


def search_ops(rng):
    """failing-input search after a broken obligation / mismatch: every option alone on every plot kind of fig.single,
    every core option alone on every diagram"""
    out = [("fig.single", op) for op in single_ops(rng, True)] + [("fig.core", op) for op in core_ops(rng, "thorough")]
    prefetch([op for _, op in out])
    return out


def shrink(op):
    kind, plot, n, opts, flag = _split(op)
    if kind == "figwired":
        return
    core = [o for o in opts if o[0] != "-f"]
    fo = [o for o in opts if o[0] == "-f"]
    tail = (" " + flag) if flag else ""

    def ok(sub):
        fl = [f for f, _ in sub]
        for ax in "xy":
            if "-%sticklabels" % ax in fl and "-%sticks" % ax not in fl:
                return False
        return flag is None or flag in fl

    seen = set()
    cands = [[o] for o in core] + [[a, b] for i, a in enumerate(core) for b in core[i + 1:]] + \
            [[a, b, c] for i, a in enumerate(core) for j, b in enumerate(core[i + 1:], i + 1) for c in core[j + 1:]][:200] + \
            [core[:i] + core[i + 1:] for i in range(len(core))]
    for sub in cands:
        if len(sub) < len(core) and ok(sub):
            s = "%s %s %d %s%s" % (kind, plot, n, enc_opts(sub + fo), tail)
            if s not in seen:
                seen.add(s)
                yield s


def extra_evidence(rows):
    plots, fmts, nopt, flags = {}, {}, {}, {}
    for r in rows:
        try:
            kind, plot, n, opts, flag = _split(r["op"])
        except Exception:
            continue
        if kind == "figwired":
            continue
        plots[plot] = plots.get(plot, 0) + 1
        ext = dict(opts).get("-f", "out.png").rsplit(".", 1)[-1]
        fmts[ext] = fmts.get(ext, 0) + 1
        k = len(opts) - 1
        b = "0-1" if k <= 1 else "2-4" if k <= 4 else "5-9" if k <= 9 else "10+"
        nopt[b] = nopt.get(b, 0) + 1
        for f, _ in opts:
            flags[f] = flags.get(f, 0) + 1
    return {"input_distribution": {"plots": plots, "formats": fmts, "options_per_figure": nopt,
                                   "figures_per_option": flags, "real_driver_runs": len(_CACHE)}}
