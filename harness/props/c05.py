"""C05 — deterministic scores equal their published definitions."""
import itertools
import math
import warnings
import numpy as np
import common
from props import mmulti
from common import xr, xvec, from_xr, from_xvec, num_close

ID = "C05"
TARGETS = ["Proofs.C05", "Proofs.C05Rank", "Proofs.C05Cond", "Proofs.GenEq.Det"]
GEN_PREFIXES = ["det."]
TRANSLATED = ["mae", "bias", "diff", "ratio", "ef", "stderror", "obsstddev", "fcststddev", "rmse", "rmsf", "cmae",
              "nsec", "nnsec", "alphaindex", "dmb", "mbias", "derror"]
TRANSLATED_LIB = ["corr", "kge"]    # machine-translated too, with np.corrcoef(obs, fcst)[1, 0] as the primitive corrCore
HAND = ["corr", "kge", "rankcorr", "kendallcorr", "leps"]   # models in Model/DetMetrics, DetRank (corr, kge: = generated)
SPEC_HAND = ["corr", "kge", "rankcorr", "kendallcorr"]     # ... whose Lean Spec (Spec/Rank.lean) is also an oracle
IMPL_ONLY = []                                             # metrics without a Lean model: none left
RANK_THEOREMS = [
    "C05_bound_pearson_sq", "C05_corr_def", "C05_bound_pearson", "C05_corr_def_exact", "C05_corr_undefined",
    "C05_bound_corr", "C05_perfect_corr", "C05_pearson_symm", "C05_rankcorr_def", "C05_avgRanks_strictMono",
    "C05_spearman_strictMono", "C05_spearman_symm", "C05_bound_spearman_sq", "C05_bound_rankcorr",
    "C05_perfect_rankcorr", "C05_rankcorr_undefined", "C05_kendall_def", "C05_kendall_undefined",
    "C05_bound_kendallcorr", "C05_bound_kendall", "C05_kendall_def_exact", "C05_perfect_kendallcorr",
    "C05_tauB_strictMono", "C05_tauB_symm", "C05_kge_def", "C05_kge_undefined", "C05_perfect_kge",
    "C05_perfect_kge_mean0", "C05_bound_kge", "C05_leps_never_perfect_with", "C05_leps_never_perfect",
    "C05_leps_def_partial", "C05_leps_spec_perfect", "C05_n0_eq", "C05_symm", "C05_rank_invariant",
    "rankdata_fins", "kendall_partition", "qfcst_fins", "TrEx_lawful", "TrEx_pos"]
AGG_METRICS = ["mae", "bias", "diff", "ratio", "rmse", "rmsf", "cmae"]
AGGS = ["mean", "sum", "min", "max", "meanabs", "absmean", "range", "variance", "std", "median",
        "count", "iqr", "change", "abschange", "0.25", "0.75", "0.5"]
# quantile levels are dyadic: on the 1/8 grid NumPy's interpolation is then exact (with 0.3 the virtual index
# 6 * 0.3 = 1.7999999999999998 turns an exact 0 / 0 of `ratio` into 1 — rounding, outside the exact-arithmetic model)
SINGLE_AGGS = ["mean", "median", "sum", "min", "max", "count", "iqr", "change", "abschange", "0.25", "0.75", "range", "std"]
THEOREMS = {
    "Proofs.C05": ["VerifModel.C05." + t for t in [
        "C05_missing_pair_dropped", "C05_no_pairs_nan", "mean_zeroPreserving", "C05_perfect_mae",
        "C05_perfect_bias", "C05_perfect_diff", "C05_perfect_ratio", "C05_perfect_rmse", "C05_perfect_cmae",
        "C05_perfect_stderror", "C05_perfect_nsec", "C05_perfect_nnsec", "C05_perfect_alphaindex",
        "C05_perfect_dmb", "C05_perfect_mbias", "C05_perfect_derror", "C05_bound_mae", "C05_bound_rmse",
        "C05_bound_stderror", "C05_bound_nsec", "C05_bound_alphaindex", "C05_declared_perfect",
        "C05_selectWithin", "C05_fromfield_obs_by_fcst", "C05_fromfield_fcst_by_obs", "C05_fromfield_empty_bin",
        "C05_obsfcst_by_obs"]],
    "Proofs.C05Rank": ["VerifModel.C05." + t for t in RANK_THEOREMS],
    "Proofs.C05Cond": ["VerifModel.C05." + t for t in [
        "zip_self_filter", "selectWithin_self", "C05_conditional_def", "C05_xconditional_def", "C05_count_def",
        "C05_fromfield_aux", "C05_fromfield_aux_by_axis"]],
    "Proofs.GenEq.Det": ["VerifModel.GenEq.Det.%s_eq" % n for n in TRANSLATED + TRANSLATED_LIB],
}
TRUSTED_BASE = [
    "Lean 4.33 kernel; axioms propext, Classical.choice, Quot.sound only",
    "Spec/Det.lean: textbook definitions of 17 deterministic scores (Wilks; Jolliffe & Stephenson; Nash-Sutcliffe; "
    "Koh & Ng 2009), NaN where a denominator is zero; Spec/Rank.lean: Pearson's r, average ranks, Spearman, Kendall "
    "tau-b, KGE (Gupta et al. 2009), LEPS (Ward & Folland 1991) as published",
    "harness/translate.py for the 17 _compute_from_obs_fcst bodies incl. the NumPy vector primitives it maps to "
    "Base/Vec.lean (np.mean/sum/std/var/sort/abs/len, broadcasting) — validated each run by stream metric.det",
    "hand-written models tied by correspondence (metric.det/small/rank/decimal/perfect/sequence): corr, kge "
    "(np.corrcoef = covariance sum / root / root, clipped to [-1,1]), rankcorr (scipy.stats.spearmanr = np.corrcoef "
    "of rankdata; rankdata 'average' = (#<= + #< + 1)/2), kendallcorr (scipy.stats.kendalltau: tot, xtie, ytie, ntie, "
    "dis, con-dis = tot-xtie-ytie+ntie-2dis, one root of the product instead of SciPy's two, clipped), leps (the "
    "loop, np.argsort as a stable argsort, np.sort). NumPy/SciPy themselves are trusted primitives",
    "sqrt/exp/log/cube root as the parameter Tr (theorems for every lawful Tr); facts about the root that no "
    "rational-valued function satisfies everywhere (sqrt(q)^2 = q) are hypotheses at the one argument used "
    "(Base/TrSqrt.lean: SqrtExactAt, SqrtBelowAt, SqrtPos), shown satisfiable; IEEE rounding (tolerance 1e-9 on "
    "the 1/8 grid where sums are exact, 1e-6 on decimal inputs) — e.g. corr(obs, obs) = 0.9999999999999998",
]
ASSUMPTIONS = ["obs and fcst have equal length", "aggregator-parametrised perfect-score theorems assume the "
               "aggregator maps an all-zero vector to 0 (true of all but count)",
               "leps: model and code are compared on observations without ties only (np.argsort's default kind is "
               "not stable, the order of tied indices - hence verif's LEPS - depends on NumPy's sort implementation); "
               "the theorem that 0 is unreachable holds for every order argsort may return",
               "perfect-score theorems of corr/rankcorr/kendallcorr/kge: the computed root of the sum of squares "
               "is exact or rounded down (then the clip to [-1,1] gives exactly 1); otherwise 1 - O(eps)"]
RULE = ("metric.det: obs/fcst vectors of length 0..12 on a 1/8 grid (ties, constants, negatives, zeros, NaNs, "
        "obs=fcst) x 22 modelled metrics x aggregators (for the metrics that take -agg: mean sum min max meanabs absmean "
        "range variance std median count iqr change abschange and the dyadic quantile levels 0.25 0.5 0.75 — the C15 aggregator "
        "models reused, Driver/Det.lean aggByName); metric.single additionally draws count iqr change abschange 0.25 "
        "0.75 range std for obs / fcst / mae / bias through the real compute_single (oracle: c05._agg_py, NumPy's "
        "documented linear percentile); metric.single.aux: FromField(Other(x), aux = none / obs / fcst) under -x no / obs "
        "/ fcst with the same aggregators, x / obs / fcst independently missing; metric.small: exhaustive over all pairs of vectors in "
        "{-1,0,1,2}^n, n<=2 (quick) / n<=3 (thorough); metric.rank: rankcorr, kendallcorr, leps, corr, kge on "
        "rank-shaped data (1-3 distinct values, constant series, n = 1, 2, 3, permutations, monotone / reversed "
        "forecasts, forecasts equal to observed values); metric.decimal: realistic decimals (tolerance); "
        "metric.perfect: fcst=obs for all 22 metrics; metric.single: the compute_single layer under -x obs / -x fcst; "
        "metric.sequence: 3..8 scores one after the other on one Data object, each compared with the model and with "
        "the same score computed on its own; non-trivial = finite reply")
EXHAUSTIVE = {"quick": True, "thorough": True}
EXHAUSTIVE_NOTE = "all vector pairs over {-1,0,1,2}^n for n<=2 (quick), n<=3 (thorough), all modelled metrics"
LEVEL_TEXT = ("Lean theorems: 17 formula bodies, machine-translated from /repo on every run, equal the textbook "
              "definitions for all non-empty lists of finite pairs, every aggregator and every Tr; pairs with a "
              "missing member are dropped and no pair gives NaN (for every metric); fcst=obs attains the declared "
              "perfect score wherever defined; MAE/RMSE/stderror/alpha >= 0 and NSE <= 1. corr, rankcorr, kendallcorr, "
              "kge (hand-written models of the NumPy/SciPy calls, tied by correspondence): equal to Pearson's r / "
              "Spearman (Pearson of average ranks) / Kendall tau-b / Gupta's KGE limited to [-1,1], NaN exactly for "
              "fewer than two pairs or a constant series; value always in [-1,1] (kge <= 1) for every Tr and all data; "
              "Cauchy-Schwarz and |C-D| <= untied pairs; 1 for fcst=obs on every non-constant series; unchanged under "
              "strictly increasing maps (ranks, tau-b) and under swapping obs and fcst. leps: the code's forecast term "
              "is the empirical CDF, its observation term is argsort/N: the perfect score 0 is unreachable for every "
              "non-empty input (known finding leps-perfect, theorem C05_leps_never_perfect).")
TECHNIQUE = "Lean 4 proof; formulas regenerated from source by a translator and re-proved each run; differential correspondence"
# ---- translator extension: corr and kge are machine-translated too (np.corrcoef(obs, fcst)[1, 0] = primitive corrCore)
TRUSTED_BASE = TRUSTED_BASE + [
    "harness/pyexpr.py: `np.corrcoef(x, y)[1, 0]` is the primitive corrCore of Model/Corrcoef.lean (covariance sum / root / "
    "root, limited to [-1, 1]); `np.nan in [computed numbers]` is False (identity semantics of `in`); with these Corr and "
    "Kge._compute_from_obs_fcst are regenerated into Gen/Det.lean (m_corr, m_kge), executed by the streams metric.det / "
    "small / rank / decimal, and GenEq.Det.corr_eq / kge_eq prove them equal to the models `corr` / `kge` of "
    "Model/DetMetrics.lean (whose relation to Pearson's r / Gupta's KGE is C05_corr_def / C05_kge_def) for ALL vectors"]
LEVEL_TEXT += (" corr and kge: their guards and arithmetic are machine-translated as well (np.corrcoef as a primitive) and "
               "proved equal to the models the rank theorems are about (corr_eq, kge_eq).")
GRID = [-1.0, -0.5, 0.0, 0.125, 0.5, 1.0, 1.5, 2.0, 3.25]


def gen_ops(tier, rng):
    n_small = 2 if tier == "quick" else 3
    base = [-1.0, 0.0, 1.0, 2.0]
    for n in range(1, n_small + 1):
        for o in itertools.product(base, repeat=n):
            for f in itertools.product(base, repeat=n):
                for m in TRANSLATED + HAND:
                    if m == "rmsf":
                        continue
                    yield "metric.small", "det %s mean %s %s" % (m, xvec(o), xvec(f))
    n = 400 if tier == "quick" else 8000
    for _ in range(n):
        L = rng.choice([0, 1, 2, 3, 5, 8, 12])
        kind = rng.random()
        obs = [rng.choice(GRID) for _ in range(L)]
        if kind < 0.1:
            obs = [rng.choice(GRID)] * L
        fcst = [rng.choice(GRID) for _ in range(L)]
        if kind > 0.85:
            fcst = list(obs)
        if 0.1 < kind < 0.2:
            fcst = [rng.choice(GRID)] * L
        for v in (obs, fcst):
            for i in range(L):
                if rng.random() < 0.08:
                    v[i] = float("nan")
        for m in rng.sample(TRANSLATED + HAND, 5) + [rng.choice(["rankcorr", "kendallcorr", "leps"])]:
            agg = rng.choice(AGGS) if m in AGG_METRICS else "mean"
            if m == "rmsf":
                obs2 = [abs(x) + 0.5 if x == x else x for x in obs]
                fcst2 = [abs(x) + 0.25 if x == x else x for x in fcst]
                yield "metric.det", "det rmsf %s %s %s" % (agg, xvec(obs2), xvec(fcst2))
            else:
                yield "metric.det", "det %s %s %s %s" % (m, agg, xvec(obs), xvec(fcst))
    for _ in range(100 if tier == "quick" else 2000):
        L = rng.choice([2, 3, 6, 10, 25])
        obs = [round(rng.gauss(5, 3), rng.choice([1, 2])) for _ in range(L)]
        fcst = [round(o + rng.gauss(0, 1), 1) for o in obs]
        if rng.random() < 0.05:
            fcst = [0.1] * L
        for m in rng.sample(TRANSLATED + HAND, 4):
            if m != "rmsf":
                yield "metric.decimal", "det %s mean %s %s" % (m, xvec(obs), xvec(fcst))
    # a systematic offset far larger than the random error (a Kelvin forecast against Celsius observations, a
    # units slip): the definitions are well conditioned there, a one-pass rewrite such as mean(e^2) - mean(e)^2
    # is not (seeded change C05f); judged against the exact-arithmetic definition with the decimal tolerance
    for _ in range(60 if tier == "quick" else 1200):
        L = rng.choice([2, 3, 6, 10, 25])
        obs = [round(rng.gauss(5, 3), 1) for _ in range(L)]
        K = rng.choice([273.15, 1000.0, 10000.0, -273.15])
        nz = rng.choice([0.0, 0.001, 0.01])
        fcst = [o + K + nz * rng.choice([-2, -1, 0, 1, 2]) for o in obs]
        if rng.random() < 0.3:
            obs, fcst = fcst, obs
        for m in rng.sample([x for x in TRANSLATED + HAND if x != "rmsf"], 4) + ["stderror"]:
            yield "metric.offset", "det %s mean %s %s" % (m, xvec(obs), xvec(fcst))
    # the same data in other units: variables of small magnitude (precipitation rate in kg m-2 s-1, mixing ratios:
    # values of order 1e-6, variances of order 1e-12) and of large magnitude (pressure in Pa, heights in mm). The
    # definitions do not care; an absolute tolerance somewhere in the code does (seeded change C05g: np.isclose(var, 0)
    # as the zero-variance guard turned every score of a small-magnitude variable into NaN)
    for _ in range(40 if tier == "quick" else 800):
        L = rng.choice([3, 6, 10, 25])
        scale = rng.choice([1e-6, 1e-6, 2.5e-5, 1e5])
        obs = [round(rng.gauss(5, 3), 1) * scale for _ in range(L)]
        fcst = [o + round(rng.gauss(0, 1), 1) * scale for o in obs]
        for m in rng.sample([x for x in TRANSLATED + HAND if x not in ("rmsf", "leps")], 3) + [rng.choice(["corr", "kge", "kendallcorr", "rankcorr", "nsec"])]:
            yield "metric.units", "det %s mean %s %s" % (m, xvec(obs), xvec(fcst))
    for _ in range(60 if tier == "quick" else 1000):
        L = rng.choice([1, 2, 3, 5, 9])
        obs = [rng.choice(GRID) + (0.75 if rng.random() < 0.5 else 0) for _ in range(L)]
        if rng.random() < 0.5:
            obs = [abs(x) + 0.5 for x in obs]
        for m in TRANSLATED + HAND + IMPL_ONLY:
            if m in ("ef", "obsstddev", "fcststddev"):
                continue
            if m == "rmsf" and min(obs) <= 0:
                continue
            yield "metric.perfect", "det %s mean %s %s" % (m, xvec(obs), xvec(obs))
    # the order-based scores (rankcorr, kendallcorr, leps) and corr/kge on rank-shaped data: few distinct values (many
    # ties), constant series, n = 1, 2, 3, negatives, monotone and anti-monotone forecasts, forecasts equal to
    # observed values (the CDF lookup of leps at a tie), observations without ties (leps: see ASSUMPTIONS)
    for _ in range(220 if tier == "quick" else 4000):
        L = rng.choice([1, 2, 2, 3, 3, 4, 5, 7, 10])
        kind = rng.choice(["ties", "ties", "perm", "perm", "const_o", "const_f", "mono", "anti", "same"])
        few = rng.sample(GRID, rng.choice([1, 2, 3]))
        if kind in ("perm", "mono", "anti"):
            obs = rng.sample([-2.0, -1.0, -0.5, 0.0, 0.125, 0.5, 1.0, 1.5, 2.0, 3.25, 4.0, 6.5], L)
        else:
            obs = [rng.choice(few) for _ in range(L)]
        if kind == "mono":
            fcst = [2.0 * x + 1.0 for x in obs]
        elif kind == "anti":
            fcst = [-x for x in obs]
        elif kind == "same":
            fcst = list(obs)
        elif kind == "perm":
            fcst = [rng.choice(obs + [min(obs) - 1.0, max(obs) + 1.0, obs[0] + 0.0625]) for _ in range(L)]
        else:
            fcst = [rng.choice(few + [rng.choice(GRID)]) for _ in range(L)]
        if kind == "const_o":
            obs = [obs[0]] * L
        if kind == "const_f":
            fcst = [fcst[0]] * L
        if rng.random() < 0.1:
            (obs if rng.random() < 0.5 else fcst)[rng.randrange(L)] = float("nan")
        for m in ["rankcorr", "kendallcorr", "leps"] + rng.sample(["corr", "kge"], 1):
            yield "metric.rank", "det %s mean %s %s" % (m, xvec(obs), xvec(fcst))
    for m in TRANSLATED + HAND + IMPL_ONLY:
        yield "metric.meta", "detperfect %s" % m
    # the compute_single layer: which cases a metric sees under -x obs / -x fcst / ordinary axes
    singles = ["obs", "fcst", "within", "mae", "bias", "rmse", "corr", "ef", "diff"]
    for _ in range(250 if tier == "quick" else 5000):
        L = rng.choice([1, 2, 3, 5, 8])
        vals = [0.0, 0.5, 1.0, 1.5, 2.0, 3.0, 4.5, float("nan")]
        obs = [rng.choice(vals) for _ in range(L)]
        fcst = [rng.choice(vals) for _ in range(L)]
        lo = rng.choice([-1.0, 0.0, 0.5, 1.0, 2.0])
        hi = lo + rng.choice([0.5, 1.0, 2.0, 5.0])
        le, ue = rng.choice([0, 1]), rng.choice([0, 1])
        if rng.random() < 0.2:
            lo = float("-inf")
        if rng.random() < 0.2:
            hi = float("inf")
        for m in rng.sample(singles, 4):
            ax = rng.choice(["obs", "fcst", "no"]) if m != "within" else "no"
            agg = rng.choice(SINGLE_AGGS) if m in ("obs", "fcst", "mae", "bias") else "mean"
            yield "metric.single", "single %s %s %s %s:%s:%d:%d %s %s" % (m, agg, ax, xr(lo), xr(hi), le, ue, xvec(obs), xvec(fcst))
            if rng.random() < 0.5:
                # FromField with a value field other than obs / fcst (verif.field.Other) and an aux field
                xs = [rng.choice(GRID) if rng.random() > 0.15 else float("nan") for _ in obs]
                yield "metric.single.aux", "ffaux %s %s %s:%s:%d:%d %s %s %s %s" % (
                    rng.choice(SINGLE_AGGS), ax, xr(lo), xr(hi), le, ue, rng.choice(["none", "obs", "fcst"]),
                    xvec(xs), xvec(obs), xvec(fcst))
    # several metrics one after the other on ONE Data object (what a command line with one file and several
    # scores does): every score is a function of the data, whatever was computed before
    pool = [m for m in TRANSLATED + HAND if m != "rmsf"]
    for _ in range(150 if tier == "quick" else 3000):
        L = rng.choice([2, 3, 5, 8])
        obs = [rng.choice(GRID) for _ in range(L)]
        fcst = [rng.choice(GRID) for _ in range(L)]
        if rng.random() < 0.3:
            k = rng.randrange(L)
            (obs if rng.random() < 0.5 else fcst)[k] = float("nan")
        ms = [rng.choice(pool) for _ in range(rng.choice([2, 3, 4, 6]))]
        if rng.random() < 0.7:
            ms.insert(rng.randrange(len(ms)), rng.choice(["derror", "stderror", "cmae", "alphaindex", "nsec"]))
        ms.append(ms[0])                  # the first score once more, after all the others
        yield "metric.sequence", "seq %s %s %s" % (xvec(obs), xvec(fcst), ",".join(ms))


def impl(op):
    import verif.metric
    import verif.aggregator
    a = op.split(" ")
    with warnings.catch_warnings():
        warnings.simplefilter("ignore")
        if a[0] == "det":
            m = verif.metric.get(a[1])
            m.aggregator = verif.aggregator.get(a[2])
            o_, f_ = np.array(from_xvec(a[3]), float), np.array(from_xvec(a[4]), float)
            guard = common.Unchanged(o_, f_)
            r = m.compute_from_obs_fcst(o_, f_)
            return guard.tag(xr(float(r)))
        if a[0] == "detperfect":
            m = verif.metric.get(a[1])
            return "ERR" if m.perfect_score is None else xr(m.perfect_score)
        if a[0] == "single":
            import verif.axis
            import verif.interval
            import datagen as dg
            obs, fcst = from_xvec(a[5]), from_xvec(a[6])
            n = len(obs)
            I = {"times": [0.0], "leads": [float(k) for k in range(n)], "locs": [(1.0, 50.0, 10.0, 0.0)],
                 "fields": {"obs": np.array(obs, float).reshape(1, n, 1), "fcst": np.array(fcst, float).reshape(1, n, 1)}}
            data = dg.build_data(dg.DS([I], {}))
            m = verif.metric.get(a[1])
            m.aggregator = verif.aggregator.get(a[2])
            lo, hi, le, ue = a[4].split(":")
            iv = verif.interval.Interval(from_xr(lo), from_xr(hi), le == "1", ue == "1")
            axis = verif.axis.get(a[3])
            try:
                r = m.compute_single(data, 0, axis, None, iv)
            except ValueError as e:
                if "zero-size" in str(e) or "empty" in str(e).lower():
                    return "EMPTY"
                raise
            except IndexError:
                return "EMPTY"
            r = float(r)
            return xr(r)
        if a[0] == "ffaux":
            import verif.axis
            import verif.interval
            import verif.field
            import datagen as dg
            xs, obs, fcst = from_xvec(a[5]), from_xvec(a[6]), from_xvec(a[7])
            n = len(obs)
            I = {"times": [0.0], "leads": [float(k) for k in range(n)], "locs": [(1.0, 50.0, 10.0, 0.0)],
                 "fields": {"obs": np.array(obs, float).reshape(1, n, 1), "fcst": np.array(fcst, float).reshape(1, n, 1),
                            "x": np.array(xs, float).reshape(1, n, 1)}}
            data = dg.build_data(dg.DS([I], {}))
            aux = {"none": None, "obs": verif.field.Obs(), "fcst": verif.field.Fcst()}[a[4]]
            m = verif.metric.FromField(verif.field.Other("x"), aux=aux)
            m.aggregator = verif.aggregator.get(a[1])
            lo, hi, le, ue = a[3].split(":")
            iv = verif.interval.Interval(from_xr(lo), from_xr(hi), le == "1", ue == "1")
            return xr(float(m.compute_single(data, 0, verif.axis.get(a[2]), None, iv)))
        if a[0] == "seq":
            import verif.axis
            import datagen as dg
            obs, fcst = from_xvec(a[1]), from_xvec(a[2])
            n = len(obs)
            I = {"times": [0.0], "leads": [float(k) for k in range(n)], "locs": [(1.0, 50.0, 10.0, 0.0)],
                 "fields": {"obs": np.array(obs, float).reshape(1, n, 1), "fcst": np.array(fcst, float).reshape(1, n, 1)}}
            data = dg.build_data(dg.DS([I], {}))
            out = []
            for name in a[3].split(","):
                m = verif.metric.get(name)
                m.aggregator = verif.aggregator.get("mean")
                try:
                    out.append(xr(float(m.compute_single(data, 0, verif.axis.No(), None, None))))
                except Exception as e:       # noqa: a crash of one score must not hide the others
                    out.append("EXC:%s" % type(e).__name__)
            return " ".join(out)
    raise ValueError(op)


def _seq_items(op):
    """the stand-alone `det` op of every member of a `seq` op"""
    a = op.split(" ")
    return ["det %s mean %s %s" % (m, a[1], a[2]) for m in a[3].split(",")]


def _valid(a):
    o, f = from_xvec(a[3]), from_xvec(a[4])
    pairs = [(x, y) for x, y in zip(o, f) if not (math.isnan(x) or math.isnan(y))]
    return [p[0] for p in pairs], [p[1] for p in pairs]


def spec_op(op):
    a = op.split(" ")
    if a[0] == "det" and a[1] in TRANSLATED:
        o, f = _valid(a)
        if a[1] == "rmsf" and any(x == 0 or y / x <= 0 for x, y in zip(o, f)):
            return None
        return "specdet %s %s %s %s" % (a[1], a[2], xvec(o), xvec(f))
    if a[0] == "det" and a[1] in SPEC_HAND:
        o, f = _valid(a)
        return "specdet %s %s %s %s" % (a[1], a[2], xvec(o), xvec(f))
    return None


def _tol(op):
    return 1e-6 if op.startswith("det") and "/" in op and any(len(t) > 25 for t in op.split(" ")[3].split(",")) else 1e-9


def _close(x, y, tol):
    try:
        return num_close(from_xr(x), from_xr(y), tol, 1e-9 if tol > 1e-8 else 1e-12)
    except ValueError:
        return x == y


def cmp(op, impl_out, model_out):
    a = op.split(" ")
    if a[0] == "det" and a[1] in IMPL_ONLY:
        return True
    if a[0] == "det" and a[1] == "leps" and _tied_obs(a):
        return True      # np.argsort's order of tied observations is unspecified (not stable): outside the model
    if a[0] in ("single", "ffaux"):
        return impl_out == model_out or _close(impl_out, model_out, 1e-9)
    if a[0] == "seq":
        it, mt, items = impl_out.split(" "), model_out.split(" "), _seq_items(op)
        return len(it) == len(mt) == len(items) and all(cmp(o, x, y) for o, x, y in zip(items, it, mt))
    if a[0] != "det":
        return impl_out == model_out
    if _zero_variance_rounding(a, impl_out):
        return True      # outside the exact-arithmetic model (rounding); judged by the oracle as a known finding
    return _close(impl_out, model_out, _tol(op))


def _tied_obs(a):
    o, _ = _valid(a)
    return len(set(o)) < len(o)


def _zero_variance_rounding(a, impl_out):
    """constant non-dyadic vector whose float variance is not exactly 0 (F10)"""
    if a[0] != "det" or a[1] not in ("corr", "kge", "nsec", "nnsec", "alphaindex", "rankcorr", "kendallcorr"):
        return False
    o, f = _valid(a)
    for v in (o, f):
        if len(v) > 1 and len(set(v)) == 1 and float(np.var(np.array(v))) != 0.0:
            return True
    return False


PERFECT = {"mae": 0, "bias": 0, "diff": 0, "ratio": 1, "rmse": 0, "rmsf": 1, "cmae": 0, "stderror": 0, "nsec": 1,
           "nnsec": 1, "alphaindex": 0, "dmb": 1, "mbias": 1, "derror": 0, "corr": 1, "rankcorr": 1,
           "kendallcorr": 1, "kge": 1, "leps": 0}
ORIENT = {"mae": -1, "rmse": -1, "cmae": -1, "stderror": -1, "derror": -1, "alphaindex": -1, "leps": -1,
          "nsec": 1, "nnsec": 1, "kge": 1, "corr": 1, "rankcorr": 1, "kendallcorr": 1}


def _single_oracle(a):
    """documented selection: the metric is evaluated on the cases where every field it needs is present and,
    under -x obs / -x fcst, the observation / forecast lies in the interval"""
    name, agg, ax = a[1], a[2], a[3]
    lo, hi, le, ue = a[4].split(":")
    lo, hi, le, ue = from_xr(lo), from_xr(hi), le == "1", ue == "1"
    obs, fcst = from_xvec(a[5]), from_xvec(a[6])

    def inside(x):
        return (x > lo or (le and x == lo)) and (x < hi or (ue and x == hi))
    fin = lambda x: not (math.isnan(x) or math.isinf(x))
    need_obs = name != "fcst" or ax == "obs"
    need_fcst = name != "obs" or ax == "fcst"
    rows = [(o, f) for o, f in zip(obs, fcst) if (fin(o) or not need_obs) and (fin(f) or not need_fcst)]
    if ax == "obs":
        rows = [r for r in rows if inside(r[0])]
    elif ax == "fcst":
        rows = [r for r in rows if inside(r[1])]
    return name, agg, rows, inside


def _percentile_py(v, q):
    """NumPy's default ('linear', Hyndman-Fan 7) percentile, from its documentation: virtual index (n-1)q"""
    s = sorted(v)
    pos = (len(s) - 1) * q
    lo = int(math.floor(pos))
    hi = min(lo + 1, len(s) - 1)
    return s[lo] + (s[hi] - s[lo]) * (pos - lo)


def _agg_py(agg, v):
    """the documented statistic (verif --help, -agg) of a non-empty list of numbers"""
    if agg == "mean":
        return sum(v) / len(v)
    if agg == "sum":
        return sum(v)
    if agg == "min":
        return min(v)
    if agg == "max":
        return max(v)
    if agg == "range":
        return max(v) - min(v)
    if agg == "count":
        return float(len(v))
    if agg == "change":
        return v[-1] - v[0]
    if agg == "abschange":
        return abs(v[-1] - v[0])
    if agg == "iqr":
        return _percentile_py(v, 0.75) - _percentile_py(v, 0.25)
    if agg == "std":
        mu = sum(v) / len(v)
        return math.sqrt(sum((x - mu) ** 2 for x in v) / len(v))
    if agg == "median":
        return _percentile_py(v, 0.5)
    return _percentile_py(v, float(agg))


def _avg_ranks(v):
    order = sorted(range(len(v)), key=lambda i: v[i])
    r = [0.0] * len(v)
    i = 0
    while i < len(order):
        j = i
        while j + 1 < len(order) and v[order[j + 1]] == v[order[i]]:
            j += 1
        for k in range(i, j + 1):
            r[order[k]] = (i + j) / 2.0 + 1
        i = j + 1
    return r


def _rank_oracle(m, o, f):
    """Spearman: Pearson correlation of the average ranks; Kendall: tau-b.  None = undefined (a constant series)"""
    n = len(o)
    if len(set(o)) < 2 or len(set(f)) < 2:
        return None
    if m == "rankcorr":
        ro, rf = _avg_ranks(o), _avg_ranks(f)
        mo, mf = sum(ro) / n, sum(rf) / n
        num = sum((x - mo) * (y - mf) for x, y in zip(ro, rf))
        den = math.sqrt(sum((x - mo) ** 2 for x in ro) * sum((y - mf) ** 2 for y in rf))
        return num / den
    conc = disc = tx = ty = 0
    for i in range(n):
        for j in range(i + 1, n):
            dx, dy = o[i] - o[j], f[i] - f[j]
            if dx == 0 and dy == 0:
                continue
            if dx == 0:
                tx += 1
            elif dy == 0:
                ty += 1
            elif dx * dy > 0:
                conc += 1
            else:
                disc += 1
    den = math.sqrt((conc + disc + tx) * (conc + disc + ty))
    return (conc - disc) / den if den else None


def judge(op, impl_out, spec_out):
    a = op.split(" ")
    if common.mutated_verdict(op, impl_out):
        return common.mutated_verdict(op, impl_out)
    if a[0] == "seq":
        toks, items = impl_out.split(" "), _seq_items(op)
        if len(toks) != len(items):
            return ({"kind": "exception", "metric": "seq"}, "unexpected reply %s" % impl_out[:200])
        for k, (item, tok) in enumerate(zip(items, toks)):
            r = judge(item, tok, None)
            if r:
                return (dict(r[0], layer="sequence"), "score %d of %s on one Data object: %s" % (k + 1, a[3], r[1]))
            alone = impl(item)            # the same score computed on its own, from fresh arrays
            if not (tok == alone or _close(tok, alone, 1e-12)):
                return ({"kind": "history-dependence", "metric": item.split(" ")[1]},
                        "%s computed as score %d of the sequence %s on one Data object gives %s, computed on its own %s "
                        "(obs=%s fcst=%s)" % (item.split(" ")[1], k + 1, a[3], tok, alone, a[1], a[2]))
        return None
    if a[0] == "ffaux":
        # documented: the aggregate of the x values of the cases where x, the subsetting field (under -x obs / fcst)
        # and the aux field are all present and the subsetting value lies in the interval
        if impl_out.startswith("EXC:") or impl_out.startswith("EXIT:"):
            return ({"kind": "exception", "metric": "fromfield-aux", "layer": "single"}, "%s ended in %s" % (op[:200], impl_out))
        agg, ax, auxk = a[1], a[2], a[4]
        lo, hi, le, ue = a[3].split(":")
        lo, hi, le, ue = from_xr(lo), from_xr(hi), le == "1", ue == "1"
        fin = lambda x: not (math.isnan(x) or math.isinf(x))
        rows = []
        for x, o, f in zip(from_xvec(a[5]), from_xvec(a[6]), from_xvec(a[7])):
            need = [x] + ([o] if "obs" in (ax, auxk) else []) + ([f] if "fcst" in (ax, auxk) else [])
            if not all(fin(v) for v in need):
                continue
            by = o if ax == "obs" else (f if ax == "fcst" else None)
            if by is None or ((by > lo or (le and by == lo)) and (by < hi or (ue and by == hi))):
                rows.append(x)
        v = from_xr(impl_out)
        if rows:
            want = _agg_py(agg, rows)
        else:
            want = 0.0 if ((agg == "sum" and ax != "no") or agg == "count") else float("nan")
        if not num_close(v, want, 1e-9, 1e-12):
            return ({"kind": "single-selection", "metric": "fromfield-aux", "agg": agg},
                    "FromField(Other, aux=%s) -agg %s -x %s gives %s, the documented statistic of the qualifying cases "
                    "(%s) is %s" % (auxk, agg, ax, impl_out, xvec(rows), want))
        return None
    if a[0] == "single":
        name, agg, rows, inside = _single_oracle(a)
        if impl_out.startswith("EXC:") or impl_out.startswith("EXIT:"):
            return ({"kind": "exception", "metric": name, "layer": "single"}, "%s ended in %s" % (op[:200], impl_out))
        if impl_out == "EMPTY":
            if rows:
                return ({"kind": "single-selection", "metric": name}, "no cases selected but %d qualify" % len(rows))
            return ({"kind": "empty-aggregate", "agg": agg}, "the aggregator was applied to an empty selection and raised")
        v = from_xr(impl_out)
        want = None
        if not rows:
            # nothing selected: undefined statistics must be NaN; a sum over nothing is 0 (FromField only)
            want = 0.0 if (name in ("obs", "fcst") and ((agg == "sum" and a[3] != "no") or agg == "count")) else float("nan")
        elif name in ("obs", "fcst"):
            want = _agg_py(agg, [r[0] if name == "obs" else r[1] for r in rows])
        elif name == "mae":
            want = _agg_py(agg, [abs(o - f) for o, f in rows])
        elif name == "bias":
            want = _agg_py(agg, [f - o for o, f in rows])
        elif name == "rmse":
            want = math.sqrt(sum((o - f) ** 2 for o, f in rows) / len(rows))
        elif name == "ef":
            want = sum(1 for o, f in rows if o < f) / len(rows)
        elif name == "diff":
            want = sum(f for o, f in rows) / len(rows) - sum(o for o, f in rows) / len(rows)
        elif name == "within":
            want = 100.0 * sum(1 for o, f in rows if inside(abs(o - f))) / len(rows)
        if want is not None and not num_close(v, want, 1e-9, 1e-12):
            return ({"kind": "single-selection", "metric": name},
                    "%s -x %s: got %r, the documented selection of cases gives %r" % (name, a[3], v, want))
        return None
    if impl_out.startswith("EXC:") or impl_out.startswith("EXIT:"):
        return ({"kind": "exception", "metric": a[1]}, "%s ended in %s" % (op[:200], impl_out))
    if a[0] == "detperfect":
        want = PERFECT.get(a[1])
        if want is not None and impl_out != xr(want):
            return ({"kind": "declared-perfect", "metric": a[1]}, "declared perfect score %s, documented %s" % (impl_out, want))
        return None
    if a[0] != "det":
        return None
    m = a[1]
    o, f = _valid(a)
    v = from_xr(impl_out)
    if _zero_variance_rounding(a, impl_out):
        if not (math.isnan(v) or math.isinf(v)):
            return ({"kind": "zero-variance-rounding", "metric": m},
                    "%s of a constant non-dyadic vector is %r, the definition is undefined (NaN expected)" % (m, v))
        return None
    if not o:
        if not math.isnan(v):
            return ({"kind": "no-pairs", "metric": m}, "%s from no valid pair is %r" % (m, v))
        return None
    if spec_out is not None and not spec_out.startswith("ERR"):
        if not _close(impl_out, spec_out, _tol(op)):
            return ({"kind": "definition", "metric": m},
                    "%s: implementation gives %s, textbook definition gives %s" % (m, impl_out, spec_out))
    if m in ("rankcorr", "kendallcorr") and len(o) >= 2:
        want = _rank_oracle(m, o, f)
        if want is None:
            if not math.isnan(v):
                return ({"kind": "definition", "metric": m}, "%s of a constant series is %r, the definition is undefined (NaN)" % (m, v))
        elif math.isnan(v) or abs(v - want) > 1e-9:
            return ({"kind": "definition", "metric": m},
                    "%s: implementation gives %r, the textbook definition (average ranks for ties%s) gives %r" %
                    (m, v, "" if m == "rankcorr" else ", tau-b", want))
    if a[2] == "mean" and m in PERFECT:
        if o == f and not (math.isnan(v) or math.isinf(v)) and abs(v - PERFECT[m]) > 1e-9:
            return ({"kind": "perfect_score", "metric": m},
                    "%s(obs, obs) = %r, documented perfect score %s" % (m, v, PERFECT[m]))
        if m in ORIENT and not math.isnan(v):
            if ORIENT[m] < 0 and v < PERFECT[m] - 1e-9 or ORIENT[m] > 0 and v > PERFECT[m] + 1e-9:
                return ({"kind": "bound", "metric": m}, "%s = %r is better than the perfect score %s" % (m, v, PERFECT[m]))
    return None


def nontrivial(op, out):
    return out not in ("nan", "ERR", "inf", "-inf") and not out.startswith("E")


# stream family metric.multi (props/mmulti.py): the deterministic scores through the real compute / compute_single on
# datasets with several inputs, for every input index, axis and slice index; ops with the prefix `mm ` are delegated
mmulti.install(globals(), "det")
