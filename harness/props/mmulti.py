"""
Stream family `metric.multi` (C05, C06, C08 on top of C01): the score classes of verif/metric.py called the way the
command line calls them — Metric.compute(data, i, axis, interval) and compute_single(data, i, axis, k, interval) — on a
real verif.data.Data with SEVERAL inputs, for every input index, axis and slice index.

  op      mm <family> <cfg> <inputs> <reqs>          (format: lean/VerifModel/Driver/Multi.lean)
  impl    the real classes on a real Data built from in-memory inputs (datagen.build_data)
  model   Driver/Multi.lean: Model/Data getScores for (fields of the metric, i, axis, k), then the metric models
  oracle  datagen.oracle_answer gives the documented valid cases BY COORDINATES for the metric's field list; the
          textbook oracles of c05.py / c06.py / c08.py are applied to those vectors (for the translated deterministic
          scores and the 25 contingency scores that is the Lean Spec through the driver, op `mspec`)

The property modules c05 / c06 / c08 delegate every op that starts with `mm ` to this module.
"""
import math
import random
import warnings
from fractions import Fraction as F
import numpy as np
import common
from common import xr, xvec, from_xr, from_xvec, num_close, tokens_close
import datagen as dg

PREFIX = "mm "
TARGET = "Proofs.Multi"
THEOREMS = ["VerifModel.Multi." + t for t in [
    "multi_uses_common_cases", "multi_columns_aligned", "multi_same_cases_all_inputs",
    "multi_slices_partition", "multi_axis_of_model", "multi_compute_covers_pooled"]]
RULE = ("metric.multi: generated datasets (datagen.gen_dataset) of 2-3 inputs with partially overlapping, differently "
        "ordered coordinates, missing values per input, optional climatology (subtract / divide) and -obsrange; for the "
        "probabilistic scores every input carries stored CDF / quantile columns or an ensemble, and pit; per dataset one "
        "score (with its aggregator / interval / bin type) requested through the REAL compute_single for EVERY input "
        "index on one slice of a random axis (no, time, leadtime, leadtimeday, location, lat, lon, elev, day, timeofday, "
        "month, year, week, monthofyear, dayofmonth, threshold; obs / fcst for the deterministic scores) and one score "
        "through the REAL Metric.compute (the loop over all slices) for one input")
TRUSTED = ("stream metric.multi: the score of input i on slice k of an axis is the composition (Driver/Multi.lean) of the "
           "Data model's get_scores for the metric's field list with the metric model; Proofs/Multi.lean proves that the "
           "vectors handed to the kernel are the coordinate specification's (one request, aligned columns, the same cases "
           "for every input, slices partition the pooled cases); the field list of each class and the derivation of "
           "Threshold / Quantile fields per input (stored column by np.isclose, else from the ensemble) are hand-modelled "
           "and tied by this stream; the oracle takes its cases from datagen.oracle_answer (coordinates only)")

# deterministic scores whose kernel the composition (Driver/Multi.lean detKernel) does not model: the oracle alone speaks
# for them on this stream (c05.py's own streams tie whatever model exists for them)
NO_MODEL = ("rankcorr", "kendallcorr", "leps")
BINS = ["below", "below=", "above", "above=", "within", "=within", "within=", "=within="]
AGGS = ["mean", "median", "sum", "min", "max"]
POOLED = ("no", "threshold", "obs", "fcst")
AXES = ["no", "no", "time", "leadtime", "leadtime", "leadtimeday", "location", "location", "lat", "lon", "elev", "day",
        "timeofday", "month", "month", "year", "week", "monthofyear", "dayofmonth", "threshold"]
P20 = [k / 20.0 for k in range(21)]
GRID = [0.0, 0.5, 1.0, 1.5, 2.0, 3.0, 4.5, -1.0]
INF = float("inf")
NAN = float("nan")


def _c05():
    from props import c05
    return c05


def _c06():
    from props import c06
    return c06


def _c08():
    from props import c08
    return c08


# ------------------------------------------------------------------ datasets
def _shape(I):
    return (len(I["times"]), len(I["leads"]), len(I["locs"]))


def _arr(rng, I, choose, pmiss):
    a = np.array([[[choose() for _ in I["locs"]] for _ in I["leads"]] for _ in I["times"]], float)
    m = np.array([[[rng.random() < pmiss for _ in I["locs"]] for _ in I["leads"]] for _ in I["times"]], bool)
    a[m.reshape(a.shape)] = np.nan
    return a


def add_prob_fields(rng, ds):
    """stored CDF columns T<t>, quantile columns Q<q> or ensemble members E<m>, and pit, for every input (incl. the
    climatology: Data loads a requested field from all of them)"""
    tlist = sorted(rng.sample([0.0, 0.5, 1.0, 1.5, 2.0, 3.0], rng.choice([2, 3])))
    qlist = sorted(rng.sample([0.1, 0.25, 0.5, 0.75, 0.9], rng.choice([2, 3])))
    pmiss = rng.choice([0.0, 0.05, 0.15])
    dy = rng.random() < 0.5
    for I in ds.inputs:
        f = I["fields"]
        f["pit"] = _arr(rng, I, lambda: rng.choice(P20), pmiss)
        if "fcst" not in f:
            f["fcst"] = _arr(rng, I, lambda: rng.choice(GRID), pmiss)
        sh = _shape(I)
        if rng.random() < 0.7:
            cdf = np.sort(np.array([[[[rng.choice([k / 16.0 for k in range(17)] if dy else P20) for _ in tlist]
                                      for _ in range(sh[2])] for _ in range(sh[1])] for _ in range(sh[0])], float), axis=-1)
            qv = np.sort(np.array([[[[rng.choice(GRID) for _ in qlist] for _ in range(sh[2])] for _ in range(sh[1])]
                                   for _ in range(sh[0])], float), axis=-1)
            cols = []
            for j, t in enumerate(tlist):
                if rng.random() < 0.015:
                    continue                                  # a threshold this input does not store
                tt = t + (rng.choice([0.0, 0.0, 0.0, 1e-9, -1e-9]) if t != 0 else 0.0)
                a = cdf[:, :, :, j].copy()
                a[np.array([[[rng.random() < pmiss / 2 for _ in range(sh[2])] for _ in range(sh[1])]
                            for _ in range(sh[0])], bool).reshape(sh)] = np.nan
                cols.append(("T" + xr(tt), a))
            for j, q in enumerate(qlist):
                a = qv[:, :, :, j].copy()
                a[np.array([[[rng.random() < pmiss / 2 for _ in range(sh[2])] for _ in range(sh[1])]
                            for _ in range(sh[0])], bool).reshape(sh)] = np.nan
                cols.append(("Q" + xr(q), a))
            if rng.random() < 0.3:
                rng.shuffle(cols)                             # a file may store its columns in any order
            for n, a in cols:
                f[n] = a
        else:
            M = rng.choice([2, 3, 4, 5])
            for k in range(M):
                f["E%d" % k] = _arr(rng, I, lambda: rng.choice(GRID), pmiss)
    return tlist, qlist


def split_prob(I):
    """the description datagen.mem_input reads: T* / Q* / E* fields become thr / qnt / ens"""
    base, thr, qnt, ens = {}, [], [], []
    for n, a in I["fields"].items():
        if n[0] == "T":
            thr.append((from_xr(n[1:]), a))
        elif n[0] == "Q":
            qnt.append((from_xr(n[1:]), a))
        elif n[0] == "E":
            ens.append(a)
        else:
            base[n] = a
    J = dict(I, fields=base)
    if thr:
        J["thr"] = thr
    if qnt:
        J["qnt"] = qnt
    if ens:
        J["ens"] = np.stack([np.array(a, float) for a in ens], -1)
    return J


def gen_ds(rng, family):
    ds = dims = None
    for _ in range(6):
        # kinds: the probabilistic columns of this stream come from add_prob_fields below; the shared generator's own
        # stored p / q / e columns would give an input two columns for one threshold (not a well-formed file: found as a
        # false alarm of this stream right after the generator learnt those kinds)
        ds = dg.gen_dataset(rng, n_inputs=rng.choice([2, 2, 3]), with_clim=(rng.random() < 0.25),
                            missing=rng.choice([0.0, 0.1, 0.2]), kinds=("pit", "aux"))
        dims = dg.oracle_dims(ds)
        if dims is not None and len(dims[0]) * len(dims[1]) * len(dims[2]) >= 4:
            break
    if rng.random() < 0.25:
        ds.cfg["obsrange"] = (rng.choice([-1.0, 0.0, 0.5]), rng.choice([2.0, 3.0, 4.5]))
    extra = add_prob_fields(rng, ds) if family == "prob" else None
    return ds, dims, extra


def axis_size(dims, ax):
    if ax in POOLED:
        return 1
    k = 0
    while dg.slice_cases(dims, ax, k) is not None:
        k += 1
    return k


# ------------------------------------------------------------------ requests
def enc_iv(iv):
    return "%s:%s:%d:%d" % (xr(iv[0]), xr(iv[1]), 1 if iv[2] else 0, 1 if iv[3] else 0)


def dec_iv(s):
    lo, hi, le, ue = s.split(":")
    return (from_xr(lo), from_xr(hi), le == "1", ue == "1")


def iv_of(b, t, u):
    return {"below": (-INF, t, False, False), "below=": (-INF, t, False, True), "above": (t, INF, False, False),
            "above=": (t, INF, True, False), "within": (t, u, False, False), "=within": (t, u, True, False),
            "within=": (t, u, False, True), "=within=": (t, u, True, True)}[b]


def gen_metric(rng, family, extra):
    """-> metric token"""
    if family == "det":
        c05 = _c05()
        name = rng.choice([m for m in c05.TRANSLATED if m != "rmsf"] + ["corr", "kge"] + list(NO_MODEL)
                          + ["obs", "fcst", "obs", "fcst", "within", "within", "conditional", "xconditional",
                             "countobs", "countfcst"])
        agg = rng.choice(AGGS) if name in ("obs", "fcst", "mae", "bias") else "mean"
        lo = rng.choice([-1.0, 0.0, 0.5, 1.0, 2.0])
        hi = lo + rng.choice([0.5, 1.0, 2.0, 5.0])
        if rng.random() < 0.2:
            lo = -INF
        elif rng.random() < 0.2:
            hi = INF
        return "%s~%s~%s" % (name, agg, enc_iv((lo, hi, rng.random() < 0.5, rng.random() < 0.5)))
    if family == "cont":
        t = rng.choice([-1.0, 0.0, 0.5, 1.0, 1.25, 2.0, 3.0, 4.0])
        u = t + rng.choice([0.0, 0.5, 1.0, 2.0])
        return "%s~%s~%s~%s" % (rng.choice(_c06().NAMES), rng.choice(BINS), xr(t), xr(u))
    c08 = _c08()
    tlist, qlist = extra
    name = rng.choice(c08.THRESHOLD_FAMILY + c08.THRESHOLD_FAMILY + c08.QUANTILE_FAMILY + ["threshold"] + c08.PIT_FAMILY)
    if name in c08.PIT_FAMILY:
        return "%s~%s~%s" % (name, rng.choice(AGGS) if name == "pit" else "mean", enc_iv((-INF, INF, True, True)))
    if name in c08.QUANTILE_FAMILY:
        lo, hi = sorted(rng.sample(qlist, 2))
        if rng.random() < 0.05:
            lo = 0.3                                          # a level no input stores
        b = rng.choice(BINS[4:] if name in ("spread", "spreadskillratio") else BINS)
        iv = iv_of(b, lo, hi)
        if name == "quantilescore":
            iv = (lo, lo, True, True)
        tok = "%s~mean~%s" % (name, enc_iv(iv))
        if name == "spreadskillratio":
            import scipy.stats
            tok += "~%s" % xr(float(0.5 * (scipy.stats.norm.ppf(iv[1]) - scipy.stats.norm.ppf(iv[0]))))
        return tok
    t, u = sorted(rng.sample(tlist, 2))
    if rng.random() < 0.04:
        t = 0.25                                              # a threshold no input stores
    return "%s~mean~%s" % (name, enc_iv(iv_of(rng.choice(BINS), t, u)))


def gen_reqs(rng, family, ds, dims, extra):
    n = len(ds.inputs) - (1 if ds.cfg.get("clim") else 0)
    axes = AXES + (["obs", "fcst", "obs", "fcst"] if family == "det" else [])
    reqs = []
    m = gen_metric(rng, family, extra)
    ax = rng.choice(axes)
    size = axis_size(dims, ax)
    k = "-" if ax in POOLED else rng.randrange(size)
    for i in range(n):
        reqs.append("%s@%d@%s@%s" % (m, i, ax, k))
    m2 = gen_metric(rng, family, extra) if rng.random() < 0.7 else m
    ax2 = rng.choice([a for a in axes if a not in POOLED] + ["no"])
    reqs.append("%s@%d@%s@*" % (m2, rng.randrange(n), ax2))
    return reqs


def gen_ops(family, tier, rng):
    """yields (stream, op); about 150 datasets (quick) with 3-4 requests each"""
    n = 150 if tier == "quick" else 2500
    for _ in range(n):
        ds, dims, extra = gen_ds(rng, family)
        head = "mm %s %s %s" % (family, dg.enc_cfg(ds.cfg), "#".join(dg.enc_input(I) for I in ds.inputs))
        if dims is None:
            yield "metric.multi", "%s %s@0@no@-" % (head, gen_metric(rng, family, extra))
            continue
        yield "metric.multi", "%s %s" % (head, ";".join(gen_reqs(rng, family, ds, dims, extra)))


def parse_op(op):
    a = op.split(" ")
    ds, _ = dg.dec_op("data %s %s -" % (a[2], a[3]))
    reqs = []
    for r in a[4].split(";"):
        ms, i, ax, k = r.split("@")
        p = ms.split("~")
        m = {"family": a[1], "name": p[0], "tok": ms}
        if a[1] == "cont":
            m.update(b=p[1], t=from_xr(p[2]), u=from_xr(p[3]), iv=iv_of(p[1], from_xr(p[2]), from_xr(p[3])))
        else:
            m.update(agg=p[1], iv=dec_iv(p[2]), ns=(from_xr(p[3]) if len(p) > 3 else None))
        reqs.append((m, int(i), ax, k if k in ("*", "-") else int(k)))
    return a[1], ds, reqs


# ------------------------------------------------------------------ the real code
_METRICS = {}


def _metric(m):
    import verif.metric
    import verif.field
    import verif.aggregator
    name = m["name"]
    special = {"conditional": lambda: verif.metric.Conditional(), "xconditional": lambda: verif.metric.XConditional(),
               "countobs": lambda: verif.metric.Count(verif.field.Obs()),
               "countfcst": lambda: verif.metric.Count(verif.field.Fcst())}
    if name not in _METRICS:
        _METRICS[name] = special[name]() if name in special else verif.metric.get(name)
    obj = _METRICS[name]
    if m.get("agg") is not None and name not in special:
        obj.aggregator = verif.aggregator.get(m["agg"])
    return obj


def _tok(v):
    if np.ma.is_masked(v):
        return "nan"
    return xr(float(v))


def impl(op):
    import verif.axis
    import verif.interval
    family, ds, reqs = parse_op(op)
    ds = dg.DS([split_prob(I) for I in ds.inputs], ds.cfg)
    with warnings.catch_warnings(), np.errstate(all="ignore"):
        warnings.simplefilter("ignore")
        try:
            data = dg.build_data(ds)
        except SystemExit:
            return "ERR init"
        def guard_of(d):
            return common.Unchanged(*[getattr(I, n) for I in d._inputs
                                      for n in ("obs", "fcst", "pit", "threshold_scores", "quantile_scores", "ensemble")])
        guards = [guard_of(data)]
        out = []
        for m, i, ax, k in reqs:
            metric = _metric(m)
            iv = verif.interval.Interval(*m["iv"])
            axis = verif.axis.get(ax)
            try:
                if k == "*":
                    r = metric.compute(data, i, axis, iv)
                    out.append(",".join(_tok(x) for x in r) if len(r) else "-")
                else:
                    out.append(_tok(metric.compute_single(data, i, axis, None if k == "-" else k, iv)))
            except SystemExit:
                # the command line ends here; a Data object that went through an error exit is not used again (its
                # per-field cache is filled for the inputs before the failing one only)
                out.append("ERR")
                data = dg.build_data(ds)
                guards.append(guard_of(data))
            except Exception as e:       # noqa: a crash of one score must not hide the others
                out.append("EXC:%s" % type(e).__name__)
        reply = " ".join(out)
        return reply if all(g.ok() for g in guards) else "MUTATED-INPUT " + reply


# ------------------------------------------------------------------ documented semantics
def field_keys(m, ax):
    """the fields a score needs (README / class descriptions): every case it is computed from has all of them.
    -> list of keys: obs, fcst, pit, ('thr', t), ('qnt', q); None: outside the documented domain"""
    name, fam = m["name"], m["family"]
    if fam == "cont":
        return ["obs", "fcst"]
    if fam == "det":
        if name == "obs":
            return ["obs", "fcst"] if ax == "fcst" else ["obs"]
        if name == "fcst":
            return ["fcst", "obs"] if ax == "obs" else ["fcst"]
        if name == "countobs":
            return ["obs"]
        if name == "countfcst":
            return ["fcst"]
        return ["obs", "fcst"]
    c08 = _c08()
    lo, hi = m["iv"][0], m["iv"][1]
    ends = ([] if math.isinf(lo) else [lo]) + ([] if math.isinf(hi) else [hi])
    if name in c08.PIT_FAMILY:
        return ["pit"]
    if name in c08.THRESHOLD_FAMILY:
        return ["obs"] + [("thr", t) for t in ends]
    if name == "threshold":
        return [("thr", t) for t in ends]
    if name == "quantile":
        return [("qnt", q) for q in ends]
    if name == "quantilescore":
        return ["obs", ("qnt", lo)]
    if name == "quantilecoverage":
        return ["obs"] + [("qnt", q) for q in ends]
    if name == "spread":
        return [("qnt", lo), ("qnt", hi)]
    if name == "spreadskillratio":
        return [("qnt", lo), ("qnt", hi), "fcst", "obs"]
    return None


def key_name(k):
    return k if isinstance(k, str) else "%s:%s" % (k[0], xr(k[1]))


def doc_column(I, key):
    """documented field of one input: the stored column whose level is (np.isclose to) the requested one, else derived
    from the ensemble — the fraction of the members present at or below the threshold / Hyndman-Fan 9.
    -> (3-D array, 'stored' | 'ens') or None (neither stored nor derivable)"""
    c08 = _c08()
    kind, level = key
    pre = "T" if kind == "thr" else "Q"
    if kind == "qnt" and not (0 <= level <= 1):
        return None
    hits = [a for n, a in I["fields"].items() if n[0] == pre and c08.np_isclose(from_xr(n[1:]), level)]
    if len(hits) == 1:
        return np.array(hits[0], float), "stored"
    if len(hits) > 1:
        return None
    ms = [np.array(a, float) for n, a in I["fields"].items() if n[0] == "E"]
    if not ms:
        return None
    out = np.full(_shape(I), np.nan)
    for idx in np.ndindex(*out.shape):
        cell = [float(a[idx]) for a in ms]
        v = c08.doc_ens_prob(cell, level) if kind == "thr" else c08.doc_hf9(cell, level)
        out[idx] = np.nan if v is None else float(v)
    return out, "ens"


def oracle_ds(ds, keys):
    """the dataset as coordinate functions of the fields the request names; -> (DS, derived-from-ensemble?, error?)"""
    ins, ens, err = [], False, False
    for I in ds.inputs:
        f = {n: a for n, a in I["fields"].items() if n in ("obs", "fcst", "pit")}
        for k in keys:
            if not isinstance(k, str):
                c = doc_column(I, k)
                if c is None:
                    err = True
                else:
                    f[key_name(k)] = c[0]
                    ens = ens or c[1] == "ens"
        ins.append(dict(I, fields=f))
    return dg.DS(ins, ds.cfg), ens, err


_CACHE = {}


def analyse(op):
    """per request: list of units {want: cols | 'ERR' | None, ens: bool}, one per slice the request covers"""
    if op in _CACHE:
        return _CACHE[op]
    family, ds, reqs = parse_op(op)
    dims = dg.oracle_dims(ds)
    out = {"family": family, "ds": ds, "dims": dims, "reqs": reqs, "units": []}
    for m, i, ax, k in reqs:
        units = []
        keys = field_keys(m, ax)
        if dims is not None and keys is not None:
            ods, ens, err = oracle_ds(ds, keys)
            names = [key_name(x) for x in keys]
            ks = list(range(axis_size(dims, ax))) if k == "*" else [None if k == "-" else k]
            for kk in ks:
                want = "ERR" if err else dg.oracle_answer(ods, dims, (names, i, ax, None if ax in POOLED else kk))
                units.append({"want": want, "ens": ens, "div": bool(ds.cfg.get("clim") and ds.cfg.get("div"))})
        out["units"].append(units)
    _CACHE.clear()
    _CACHE[op] = out
    return out


def _empty(cols):
    return len(cols[0]) == 1 and math.isnan(cols[0][0])


def _inside(iv, x):
    lo, hi, le, ue = iv
    return (x > lo or (le and x == lo)) and (x < hi or (ue and x == hi))


def _select(cols, by, iv):
    keep = [j for j, x in enumerate(by) if not math.isnan(x) and _inside(iv, x)]
    return [[c[j] for j in keep] for c in cols]


def synth(m, ax, cols):
    """the vector-level op of the family's own module that the unit amounts to, or a direct expectation.
    -> ('op', synthetic op) | ('want', float | None) | ('skip',)"""
    fam, name = m["family"], m["name"]
    if fam == "cont":
        return ("op", "contscore %s %s %s %s %s %s" % (name, m["b"], xr(m["t"]), xr(m["u"]), xvec(cols[0]), xvec(cols[1])))
    if fam == "det":
        iv = m["iv"]
        empty = _empty(cols)
        if name in ("obs", "fcst"):
            vals = [] if empty else cols[0]
            if ax in ("obs", "fcst") and not empty:
                vals = _select([cols[0]], cols[-1], iv)[0]
            if not vals:
                # nothing selected: a sum over nothing is 0, every other statistic is undefined; the placeholder of a
                # slice without valid cases is NaN whatever the aggregator
                return ("want", 0.0 if (m["agg"] == "sum" and not empty) else None)
            return ("want", _c05()._agg_py(m["agg"], vals))
        if empty:
            return ("want", None)
        if name in ("countobs", "countfcst"):
            s = _select([cols[0]], cols[0], iv)[0]
            return ("want", float(len(s)) if s else None)
        o, f = cols[0], cols[1]
        if name == "within":
            return ("want", 100.0 * sum(1 for x, y in zip(o, f) if _inside(iv, abs(x - y))) / len(o))
        if name == "conditional":
            s = _select([f], o, iv)[0]
            return ("want", sum(s) / len(s) if s else None)
        if name == "xconditional":
            s = _select([o], o, iv)[0]
            return ("want", _c05()._agg_py("median", s) if s else None)
        if ax == "obs":
            o, f = _select([o, f], o, iv)
        elif ax == "fcst":
            o, f = _select([o, f], f, iv)
        return ("op", "det %s %s %s %s" % (name, m["agg"], xvec(o), xvec(f)))
    return ("skip",)


def spec_items(op):
    """one Spec op (or 'none') per unit, in reply order"""
    A = analyse(op)
    items = []
    for (m, i, ax, k), units in zip(A["reqs"], A["units"]):
        for u in units:
            s = None
            if isinstance(u["want"], list) and m["family"] in ("det", "cont"):
                sy = synth(m, ax, u["want"])
                if sy[0] == "op":
                    s = (_c05() if m["family"] == "det" else _c06()).spec_op(sy[1])
            items.append(s or "none")
    return items


def spec_op(op):
    items = spec_items(op)
    if all(x == "none" for x in items):
        return None
    return "mspec " + " & ".join(items)


# ------------------------------------------------------------------ probabilistic scores on the documented vectors
def _fr(cols):
    return [[F(x) for x in c] for c in cols]


def prob_want(m, cols, ens):
    """textbook value of a probabilistic score from the documented vectors (exact rationals).
    -> ('want', value | None, tol) | ('skip',)"""
    c08 = _c08()
    name, iv = m["name"], m["iv"]
    lo, hi, le, ue = iv
    tol = 1e-6 if ens else 1e-9
    if _empty(cols):
        return ("want", None, tol)
    cols = _fr(cols)
    if name in c08.PIT_FAMILY:
        if name == "pit":
            return ("want", _c05()._agg_py(m["agg"], [float(x) for x in cols[0]]), tol)
        return ("want", c08.textbook_pit(name, cols[0]), tol)
    if name in ("threshold", "quantile"):
        v = c08.mean([b - a for a, b in zip(cols[0], cols[1])]) if len(cols) == 2 else c08.mean(cols[0])
        return ("want", v, tol)
    if name in c08.THRESHOLD_FAMILY:
        obs = cols[0]
        k = 1
        p0, p1 = [F(0)] * len(obs), [F(1)] * len(obs)
        if not math.isinf(lo):
            p0 = cols[k]
            k += 1
        if not math.isinf(hi):
            p1 = cols[k]
        o = [F(1) if c08.doc_event(iv, x) else F(0) for x in obs]
        p = [b - a for a, b in zip(p0, p1)]
        direct = math.isinf(lo) and not ens
        if any(x < 0 or x > 1 for x in p):
            return ("skip",)                 # inconsistent CDF columns: outside the scores' domain
        if not direct and abs(sum(p)) < F(1, 10 ** 6) * len(p) and name == "marginalratio":
            return ("skip",)
        if name in c08.BINNED and c08._ill_conditioned(p, "direct" if direct else ("ens" if ens else "stored")):
            return ("skip",)                 # rounding decides the bin
        w = c08.textbook(name, o, p)
        if w == "skip":
            return ("skip",)
        return ("want", w, 1e-5 if (name == "ign0" and ens) else tol)
    if name == "quantilescore":
        return ("want", c08.mean([c08.pinball(F(lo), a, b) for a, b in zip(cols[0], cols[1])]), tol)
    if name == "quantilecoverage":
        o = cols[0]
        q0 = None if math.isinf(lo) else cols[1]
        q1 = None if math.isinf(hi) else cols[-1]
        for q in (q0, q1):
            if q is not None and any(0 < abs(a - b) < F(1, 10 ** 9) for a, b in zip(q, o)):
                return ("skip",)
        hit = 0
        for j, x in enumerate(o):
            ok0 = True if q0 is None else (q0[j] <= x if le else q0[j] < x)
            ok1 = True if q1 is None else (x <= q1[j] if ue else x < q1[j])
            hit += 1 if (ok0 and ok1) else 0
        return ("want", F(hit, len(o)), tol)
    if name in ("spread", "spreadskillratio"):
        sp = c08.mean([b - a for a, b in zip(cols[0], cols[1])])
        if name == "spread":
            return ("want", sp, tol)
        rmse = math.sqrt(float(c08.mean([(f - o) ** 2 for f, o in zip(cols[2], cols[3])])))
        ns = c08.num_std(lo, hi)
        if ns == 0 or rmse == 0:
            return ("skip",)
        return ("want", float(sp) / ns / rmse, max(tol, 1e-9))
    return ("skip",)


# ------------------------------------------------------------------ comparison with the model, oracle
def _units_and_tokens(op, reply):
    """[(request, unit, token)] in reply order, or None when the reply has another shape"""
    A = analyse(op)
    toks = reply.split(" ")
    if len(toks) != len(A["reqs"]):
        return None
    out = []
    for r, units, tok in zip(A["reqs"], A["units"], toks):
        if r[3] == "*":
            vals = [] if tok == "-" else tok.split(",")
            if tok == "ERR" or tok.startswith("EXC:"):
                vals = [tok] * len(units)             # the loop over the slices ended at the first failing one
            if len(vals) != len(units):
                out.append((r, None, tok))
                continue
            out += [(r, u, v) for u, v in zip(units, vals)]
        else:
            out.append((r, units[0] if units else None, tok))
    return out


def cmp(op, impl_out, model_out):
    if impl_out == model_out:
        return True
    if impl_out.startswith("MUTATED-INPUT "):
        impl_out = impl_out[len("MUTATED-INPUT "):]
    if "ERR init" in (impl_out, model_out):
        return False
    a, b = _units_and_tokens(op, impl_out), _units_and_tokens(op, model_out)
    if a is None or b is None or len(a) != len(b):
        return False
    c05, c08 = _c05(), _c08()
    for (r, u, x), (_, _, y) in zip(a, b):
        m, i, ax, k = r
        if x == y:
            continue
        if m["family"] == "det" and m["name"] in NO_MODEL:
            continue                                  # SciPy / loop code: not in the composed model (oracle only)
        if u is None or not isinstance(u["want"], list):
            return False
        tol = 1e-6 if (u["ens"] or u["div"]) else 1e-9
        if m["family"] == "det":
            sy = synth(m, ax, u["want"])
            if sy[0] == "op" and c05._zero_variance_rounding(sy[1].split(" "), x):
                continue                              # outside the exact-arithmetic model (known finding F10)
        if m["family"] == "prob":
            w = prob_want(m, u["want"], u["ens"])
            if w[0] == "skip":
                continue                              # rounding decides a bin / a tie, or inconsistent CDF columns
            tol = max(tol, w[2])
        if not tokens_close(x, y, tol, tol):
            return False
    return True


def _sig(kind, m, ax, **kw):
    d = {"kind": kind, "metric": m["name"], "layer": "multi", "axis": ax}
    d.update(kw)
    return d


def judge(op, impl_out, spec_out):
    v = common.mutated_verdict(op, impl_out)
    if v:
        return v
    A = analyse(op)
    if impl_out.startswith("EXC:") or impl_out.startswith("EXIT:"):
        return ({"kind": "exception", "metric": "data", "layer": "multi"}, "%s ended in %s" % (op[:200], impl_out))
    if impl_out == "ERR init" or A["dims"] is None:
        if (impl_out == "ERR init") != (A["dims"] is None):
            return ({"kind": "init", "layer": "multi"}, "Data() gives %s, documented common dimensions %s" % (impl_out[:80], A["dims"]))
        return None
    rows = _units_and_tokens(op, impl_out)
    if rows is None:
        return ({"kind": "exception", "metric": "reply", "layer": "multi"}, "unexpected reply %s" % impl_out[:200])
    specs = spec_out.split(" & ") if spec_out else None
    items = spec_items(op)
    if specs is not None and len(specs) != len(items):
        specs = None
    pos = 0
    for (m, i, ax, k), u, tok in rows:
        if u is None:
            if k == "*":
                n_units = len(A["units"][A["reqs"].index((m, i, ax, k))])
                pos += n_units
                return (_sig("axis-size", m, ax), "%s.compute over -x %s returns %d scores, the axis has %d slices (%s)"
                        % (m["name"], ax, 0 if tok == "-" else len(tok.split(",")), n_units, tok[:120]))
            continue
        spec_tok = None
        if specs is not None and items[pos] != "none" and specs[pos] != "-":
            spec_tok = specs[pos]
        pos += 1
        r = _judge_unit(m, i, ax, k, u, tok, spec_tok)
        if r:
            return r
    return None


def _where(m, i, ax, k, u):
    return "%s input %d -x %s slice %s" % (m["tok"], i, ax, k)


def _judge_unit(m, i, ax, k, u, tok, spec_tok):
    want = u["want"]
    if tok.startswith("EXC:"):
        return (_sig("exception", m, ax), "%s ended in %s" % (_where(m, i, ax, k, u), tok))
    if want is None:
        return None
    if want == "ERR":
        if tok != "ERR":
            return (_sig("field", m, ax), "%s: a field that is neither stored nor derivable in every input gave %s"
                    % (_where(m, i, ax, k, u), tok))
        return None
    if tok == "ERR":
        return (_sig("error-exit", m, ax), "%s: error exit although every input can supply every field" % _where(m, i, ax, k, u))
    fam = m["family"]
    if fam in ("det", "cont"):
        sy = synth(m, ax, want)
        if sy[0] == "op":
            mod = _c05() if fam == "det" else _c06()
            r = mod.judge(sy[1], tok, spec_tok)
            if r:
                return (dict(r[0], layer="multi", axis=ax),
                        "%s: on the documented cases (obs=%s fcst=%s) %s" % (_where(m, i, ax, k, u), xvec(want[0])[:120],
                                                                            xvec(want[-1])[:120], r[1]))
            return None
        if sy[0] == "want":
            return _check(m, i, ax, k, u, tok, sy[1], 1e-6 if u["div"] else 1e-9, want)
        return None
    w = prob_want(m, want, u["ens"])
    if w[0] == "skip":
        return None
    return _check(m, i, ax, k, u, tok, w[1], max(w[2], 1e-6 if u["div"] else 0), want)


def _check(m, i, ax, k, u, tok, want, tol, cols):
    try:
        v = from_xr(tok)
    except ValueError:
        return (_sig("exception", m, ax), "%s: unreadable reply %s" % (_where(m, i, ax, k, u), tok))
    ok = math.isnan(v) if want is None else num_close(v, float(want), tol, tol)
    if not ok:
        return (_sig("selection", m, ax),
                "%s gives %s; the documented cases (those where every input has every field the score needs: %s) give %s"
                % (_where(m, i, ax, k, u), tok, " ; ".join(xvec(c)[:100] for c in cols), "NaN" if want is None else float(want)))
    return None


def nontrivial(op, out):
    return any(t not in ("nan", "ERR", "-", "inf", "-inf", "init") and not t.startswith("E")
               for tok in out.split(" ") for t in tok.split(","))


def shrink(op):
    """one request at a time"""
    a = op.split(" ")
    reqs = a[4].split(";")
    if len(reqs) > 1:
        for r in reqs:
            yield " ".join(a[:4] + [r])


# ------------------------------------------------------------------ hooking the stream into a property module
LEVEL_TEXT = (" Composition with the Data layer (Proofs/Multi.lean, stream metric.multi): the score of input i on slice k of "
              "an axis is the metric kernel applied to the answer of ONE get_scores request for the metric's field list; "
              "that answer lists the requested fields over the coordinate specification's valid cases (specCases: every "
              "input and the climatology have every field there), all columns aligned case by case "
              "(multi_uses_common_cases, multi_columns_aligned); the case list is the same for every input index "
              "(multi_same_cases_all_inputs); for every axis the slices' case lists together are a permutation of the "
              "pooled (-x no) case list (multi_slices_partition, multi_compute_covers_pooled).")
ASSUMPTIONS = ["metric.multi: Data.init succeeds and every stored / derived array has the shape its input declares (the "
               "driver answers HYP otherwise; cannot happen with the op encoding); multi_same_cases_all_inputs "
               "additionally ObsRangeAgree (no -obsrange, or the inputs' observations agree on lying inside it)",
               "metric.multi: bucket functions of the time / lead-time axes map a coordinate that is not NaN to a value "
               "that is not NaN (proved for every axis the driver knows: multi_axis_of_model)"]


def install(g, family):
    """wrap the hooks of a property module (its globals `g`) so that ops with the prefix `mm ` are delegated to this
    module and its generator additionally yields this stream for `family`; extends TARGETS / THEOREMS and the
    metadata strings"""
    own = {k: g.get(k) for k in ("gen_ops", "impl", "judge", "cmp", "spec_op", "nontrivial", "lean_op", "shrink")}

    def mine(op):
        return op.startswith(PREFIX)

    def gen_ops_(tier, rng):
        for x in own["gen_ops"](tier, rng):
            yield x
        for x in gen_ops(family, tier, random.Random(rng.random())):
            yield x

    def impl_(op):
        return impl(op) if mine(op) else own["impl"](op)

    def judge_(op, impl_out, spec_out):
        return judge(op, impl_out, spec_out) if mine(op) else own["judge"](op, impl_out, spec_out)

    def cmp_(op, impl_out, model_out):
        if mine(op):
            return cmp(op, impl_out, model_out)
        return own["cmp"](op, impl_out, model_out) if own["cmp"] else impl_out == model_out

    def spec_op_(op):
        if mine(op):
            return spec_op(op)
        return own["spec_op"](op) if own["spec_op"] else None

    def nontrivial_(op, out):
        if mine(op):
            return nontrivial(op, out)
        return own["nontrivial"](op, out) if own["nontrivial"] else True

    def lean_op_(op):
        return op if (mine(op) or not own["lean_op"]) else own["lean_op"](op)

    def shrink_(op):
        if mine(op):
            return shrink(op)
        return own["shrink"](op) if own["shrink"] else iter(())

    g.update(gen_ops=gen_ops_, impl=impl_, judge=judge_, cmp=cmp_, spec_op=spec_op_, nontrivial=nontrivial_,
             lean_op=lean_op_, shrink=shrink_)
    g["TARGETS"] = list(g["TARGETS"]) + [TARGET]
    g["THEOREMS"] = dict(g["THEOREMS"], **{TARGET: list(THEOREMS)})
    g["RULE"] = g["RULE"] + "; " + RULE
    g["TRUSTED_BASE"] = list(g["TRUSTED_BASE"]) + [TRUSTED]
    g["ASSUMPTIONS"] = list(g["ASSUMPTIONS"]) + ASSUMPTIONS
    g["LEVEL_TEXT"] = g["LEVEL_TEXT"] + LEVEL_TEXT
