"""C14 — anomaly scores use the climatology at the same coordinates."""
import climx
import datagen as dg
import props.c01 as c01
from common import tokens_close

ID = "C14"
TARGETS = ["Proofs.C14", "Proofs.C14Extra"]
GEN_PREFIXES = []
THEOREMS = {"Proofs.C14": ["VerifModel.C14." + t for t in [
    "C14_subtract", "C14_divide", "C14_only_obs_fcst", "C14_no_clim", "C14_same_case", "C14_dropped",
    "C14_clim_same_for_all", "C14_not_scored", "C14_shift_invariant"]],
            "Proofs.C14Extra": ["VerifModel.C14." + t for t in [
    "allInputs_extra", "C14_extra_dims", "caseValid_extra", "C14_extra_same_cases_partial", "C14_extra_values",
    "C14_shiftInvariant_metrics", "C14_extra_getScores_partial", "C14_extra_init", "C14_extra_score",
    "C14_divide_zero_dropped", "C14_missing_clim_dropped", "Witness.C14_extra_needs_fcst"]]}
TRUSTED_BASE = c01.TRUSTED_BASE + ["-c/-C option parsing is C13's subject; Data(clim=..., clim_type=...) is called directly "
                                   "(except in cli.climchain, which goes through verif.driver.run; there the text reader "
                                   "(C09), the csv table writer with its 6 significant digits (C12) and -T pre-aggregation "
                                   "(C15) are trusted: that stream is metamorphic, implementation only)"]
ASSUMPTIONS = c01.ASSUMPTIONS + ["extra-input equivalence (Proofs/C14Extra.lean): subtract mode, the request contains the "
                                 "forecast (necessary: C14_extra_needs_fcst), a selection other than the whole 3-D array, "
                                 "stored arrays of the declared shape (wfInput); exact rationals (no float rounding / overflow "
                                 "in obs - k)"]
RULE = ("data.clim: generated datasets of 1-3 scored inputs plus a climatology of arbitrary coverage/missingness (zeros for "
        "-C), subtract and divide, all field combinations incl. the PIT, stored CDF / quantile columns, ensemble members and "
        "other scores (never adjusted), a fifth with -obs FIELD / -fcst FIELD (the climatology's -fcst field is "
        "subtracted), all axes; data.climx: -c K versus K as "
        "an additional input for mae/rmse/bias/stderror on axes no/leadtime/location (implementation-only metamorphic); "
        "data.climcols: the same request list on Data(A.., clim=K) and on Data(A.. + [K]) (model = code on both; exact "
        "Fraction oracle: same number of cases, untouched other fields, equal MAE / bias / MSE / error variance whenever "
        "the request contains the forecast — the theorem's domain condition; requests for the observation alone are "
        "in the list and nothing is demanded of them); data.climwit: the witness of C14_extra_needs_fcst on the real "
        "code (corpus/C14.txt); data.climinf: several ±inf in the climatology's forecast / observation, -c and -C; "
        "cli.climchain: verif A [B] -c K -m mae|rmse|bias|stderror -x AX [-T n] -type csv against the first columns of "
        "verif A [B] K ... through verif.driver.run on text files (legend without / with K)")
EXHAUSTIVE = {"quick": False, "thorough": False}
LEVEL_TEXT = ("Lean theorems: the climatology adjustment subtracts (divides by) the climatology vector position by position for "
              "obs and fcst and leaves every other field unchanged; a missing climatology value or a zero divisor makes the "
              "case invalid; the climatology vector does not depend on the scored input; requests for the climatology's own "
              "index are rejected; MAE/RMSE/stderror/bias are invariant under subtracting a common per-case shift. Tied to "
              "the real code by correspondence and the coordinate oracle. Proofs/C14Extra.lean: on the Data model, for a request "
              "that contains the forecast, `-c K` (subtract) and K as an additional input have the same verified dimensions, "
              "the same contributing cases in the same order (C14_extra_same_cases_partial, C14_extra_getScores_partial), "
              "the -c values are the extra-input values minus K's forecast for obs / fcst and unchanged otherwise "
              "(C14_extra_values), hence every ShiftInvariant score (generated m_mae, m_bias, m_rmse, m_stderror: "
              "C14_shiftInvariant_metrics) of the two answers is equal, also through compute_from_obs_fcst "
              "(C14_extra_score); the hypothesis `fcst requested` is necessary (C14_extra_needs_fcst, kernel-decided "
              "witness replayed on the code); both runs construct together, num_inputs excludes K (C14_extra_init); with -C "
              "a zero climatology, and in both modes a missing / infinite one, drops the case for every input "
              "(C14_divide_zero_dropped, C14_missing_clim_dropped). The chain through the command line and -T are "
              "implementation-only metamorphic streams.")
TECHNIQUE = c01.TECHNIQUE


def gen_ops(tier, rng):
    n = 200 if tier == "quick" else 4000
    for k in range(n):
        ds = dg.gen_dataset(rng, n_inputs=rng.choice([1, 2, 3]), with_clim=True)
        if k % 5 == 4:
            ds.cfg["obsrange"] = (0.0, 2.0)          # -obsrange selects on the observed value, not on the anomaly
            ds = dg.with_obs_disagreement(ds)        # a quarter: own observations (climatology file included) that disagree across 0 / 2
        if k % 5 == 1:
            ds = dg.add_field_options(ds, rng)       # -obs FIELD / -fcst FIELD: the climatology's -fcst field is used
        dims = dg.oracle_dims(ds)
        if dims is None:
            continue
        yield "data.clim", dg.enc_op(ds, dg.all_requests(ds, dims, rng, 25))
        if k % 4 == 0:
            yield "data.climx", dg.enc_op(ds, [], head="dataclimx").rstrip()
        if k % 4 == 2:
            reqs = [r for r in dg.all_requests(ds, dims, rng, 40) if r[2] != "all"][:14]
            yield "data.climcols", climx.enc_cols(ds, reqs)
    yield "data.climwit", climx.WITNESS
    for k in range(40 if tier == "quick" else 800):
        ds = climx.inf_dataset(rng)
        dims = dg.oracle_dims(ds)
        if dims is None:
            continue
        yield "data.climinf", dg.enc_op(ds, dg.all_requests(ds, dims, rng, 20))
    for k in range(24 if tier == "quick" else 400):
        ds = climx.cli_dataset(rng)
        T = rng.choice([None, None, 1, 2, 3])
        yield "cli.climchain", climx.enc_cli(ds, rng.choice(["mae", "rmse", "bias", "stderror"]),
                                             rng.choice(["no", "leadtime", "location", "time", "leadtimeday", "lat"]), T,
                                             rng.randrange(10 ** 6))


def impl(op):
    if op.startswith("dataclimx "):
        return dg.impl_clim_extra(op)
    if op.startswith(("dataclimcols ", "dataclimwit ")):
        return climx.impl_cols(op)
    if op.startswith("climcli "):
        return climx.impl_cli(op)
    return dg.impl_data(op)


def lean_op(op):
    if op.startswith("dataclimx "):
        return "datani - - -"
    return op


def cmp(op, impl_out, model_out):
    return tokens_close(impl_out, model_out, 1e-9, 1e-12)


def judge(op, impl_out, spec_out):
    if op.startswith("dataclimx "):
        if impl_out != "same":
            return ({"kind": "clim-vs-extra-input"}, impl_out[:400])
        return None
    if op.startswith("climcli "):
        if impl_out != "same":
            return ({"kind": "clim-vs-extra-input", "what": "cli"}, impl_out[:400])
        return None
    if op.startswith(("dataclimcols ", "dataclimwit ")):
        return climx.judge_cols(op, impl_out)
    return c01.judge(op, impl_out, spec_out)


def nontrivial(op, impl_out):
    if op.startswith(("dataclimcols ", "dataclimwit ")):
        return climx.nontrivial_cols(op, impl_out)
    if op.startswith("climcli "):
        return True
    return c01.nontrivial(op, impl_out)
