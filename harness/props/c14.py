"""C14 — anomaly scores use the climatology at the same coordinates."""
import datagen as dg
import props.c01 as c01
from common import tokens_close

ID = "C14"
TARGETS = ["Proofs.C14"]
GEN_PREFIXES = []
THEOREMS = {"Proofs.C14": ["VerifModel.C14." + t for t in [
    "C14_subtract", "C14_divide", "C14_only_obs_fcst", "C14_no_clim", "C14_same_case", "C14_dropped",
    "C14_clim_same_for_all", "C14_not_scored", "C14_shift_invariant"]]}
TRUSTED_BASE = c01.TRUSTED_BASE + ["-c/-C option parsing is C13's subject; Data(clim=..., clim_type=...) is called directly"]
ASSUMPTIONS = c01.ASSUMPTIONS
RULE = ("data.clim: generated datasets of 1-3 scored inputs plus a climatology of arbitrary coverage/missingness (zeros for "
        "-C), subtract and divide, all field combinations incl. the PIT, stored CDF / quantile columns, ensemble members and "
        "other scores (never adjusted), a fifth with -obs FIELD / -fcst FIELD (the climatology's -fcst field is "
        "subtracted), all axes; data.climx: -c K versus K as "
        "an additional input for mae/rmse/bias/stderror on axes no/leadtime/location (implementation-only metamorphic)")
EXHAUSTIVE = {"quick": False, "thorough": False}
LEVEL_TEXT = ("Lean theorems: the climatology adjustment subtracts (divides by) the climatology vector position by position for "
              "obs and fcst and leaves every other field unchanged; a missing climatology value or a zero divisor makes the "
              "case invalid; the climatology vector does not depend on the scored input; requests for the climatology's own "
              "index are rejected; MAE/RMSE/stderror/bias are invariant under subtracting a common per-case shift. Tied to "
              "the real code by correspondence and the coordinate oracle; the extra-input equivalence is a metamorphic stream.")
TECHNIQUE = c01.TECHNIQUE


def gen_ops(tier, rng):
    n = 200 if tier == "quick" else 4000
    for k in range(n):
        ds = dg.gen_dataset(rng, n_inputs=rng.choice([1, 2, 3]), with_clim=True)
        if k % 5 == 4:
            ds.cfg["obsrange"] = (0.0, 2.0)          # -obsrange selects on the observed value, not on the anomaly
        if k % 5 == 1:
            ds = dg.add_field_options(ds, rng)       # -obs FIELD / -fcst FIELD: the climatology's -fcst field is used
        dims = dg.oracle_dims(ds)
        if dims is None:
            continue
        yield "data.clim", dg.enc_op(ds, dg.all_requests(ds, dims, rng, 25))
        if k % 4 == 0:
            yield "data.climx", dg.enc_op(ds, [], head="dataclimx").rstrip()


def impl(op):
    if op.startswith("dataclimx "):
        return dg.impl_clim_extra(op)
    return dg.impl_data(op)


def lean_op(op):
    if op.startswith("dataclimx "):
        return "datani - - -"
    return op


def cmp(op, impl_out, model_out):
    return tokens_close(impl_out, model_out, 1e-9, 1e-12)


def judge(op, impl_out, spec_out):
    if op.startswith("dataclimx "):
        if impl_out != "same":
            return ({"kind": "clim-vs-extra-input"}, impl_out[:400])
        return None
    return c01.judge(op, impl_out, spec_out)


nontrivial = c01.nontrivial
