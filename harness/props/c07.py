"""C07 — event definitions (-b).  Ops, implementation calls and oracle."""
import itertools
import numpy as np
from common import xr, xvec, from_xr, from_xvec

ID = "C07"
TARGETS = ["Proofs.C07", "Proofs.C07Inf", "Proofs.GenEq.Cmp"]
GEN_PREFIXES = ["cmp."]
# Proofs.GenEq.Cmp only ties the hand-written model to the source; the C07 theorems are about the model, which is
# also tied by the exhaustive order-type correspondence (see check.py, tie-only obligations)
TIE_ONLY = {"prefix": "cmp.", "modules": ["Proofs.GenEq.Cmp"],
            "gen_op_heads": ["gwithinA", "gwithinS", "gthresh", "gtprob", "gintervalBody"]}
THEOREMS = {
    "Proofs.C07": ["VerifModel.C07." + t for t in [
        "C07_within_denotes", "C07_missing_no_event", "C07_missing_threshold", "C07_threshold_agrees",
        "C07_threshold_denotes", "C07_threshold_needs_upper", "C07_getIntervals_single",
        "C07_getIntervals_within", "C07_pairs_length", "C07_getIntervals_none", "C07_above_compl",
        "C07_aboveEq_compl", "C07_withinEq_partition", "C07_withinEq_model", "C07_prob", "C07_prob_complement"]],
    "Proofs.C07Inf": ["VerifModel.C07." + t for t in ["C07_inf_disagree", "C07_agree_behind_filter"]],
    "Proofs.GenEq.Cmp": ["VerifModel.GenEq.Cmp." + t for t in [
        "withinArray_eq", "withinScalar_eq", "applyThreshold_eq", "applyThresholdProb_eq",
        "intervalBody_eq", "intervalBody_unknown"]],
}
TRUSTED_BASE = [
    "Lean 4.33 kernel; axioms propext, Classical.choice, Quot.sound only",
    "Spec/Events.lean: my reading of the documented events of -b",
    "harness/translate.py (Python ast -> Lean) for Interval.within (both branches), apply_threshold, "
    "apply_threshold_prob and the loop body of get_intervals; validated each run by executing the "
    "generated definitions against the real functions (streams gwithinA/gwithinS/gthresh/gtprob/gintervalBody)",
    "hand-written parts of the model (NaN masking, length logic of get_intervals, Interval.center) "
    "tied by the exhaustive correspondence streams",
    "NumPy comparison semantics on float64 (exact for comparisons; no rounding involved)",
]
ASSUMPTIONS = [
    "thresholds are finite numbers; infinite *data* values are missing data for verif (dropped by "
    "Data.get_scores) so C07_threshold_agrees quantifies over finite or missing values; on infinite values the two "
    "evaluators differ in exactly four cases (C07_inf_disagree: -inf with below/below=, +inf with above/above=: "
    "apply_threshold says 1, Interval.within says False), which no caller inside verif can reach "
    "(C07_agree_behind_filter, composed with C04_outputs_valid); that the eight call sites of apply_threshold in "
    "output.py and the get_intervals(...).within calls take their arrays from Data.get_scores is read off the "
    "source, not proved",
    "apply_threshold_prob is only called with the below/above family (every caller rejects *within*)",
]
RULE = ("exhaustive over all order types of a value against <=3 thresholds: values "
        "{nan,-inf,0,1/2,1,2,3,7/2,inf}, interval ends from {-inf,0,1,2,3,inf} x 4 closedness flags, "
        "8 bin types, thresholds {0..3}, scalar and array calls, both evaluators side by side on every value "
        "(cmp.infdiff: differ exactly on -inf/below, -inf/below=, +inf/above, +inf/above=), threshold lists of length 0..4; "
        "an op is non-trivial if its reply contains both an event and a non-event (or is an error/interval list)")
EXHAUSTIVE = {"quick": True, "thorough": True}
EXHAUSTIVE_NOTE = "order-type grid enumerated completely in both tiers; thorough adds random rational thresholds/values"

BINS = ["below", "below=", "above", "above=", "within", "=within", "within=", "=within="]
VALUES = [float("nan"), float("-inf"), 0.0, 0.5, 1.0, 2.0, 3.0, 3.5, float("inf")]
ENDS = [float("-inf"), 0.0, 1.0, 2.0, 3.0, float("inf")]
THR = [0.0, 1.0, 2.0, 3.0]


def gen_ops(tier, rng):
    xs = xvec(VALUES)
    for lo, hi in itertools.product(ENDS, ENDS):
        for le, ue in itertools.product((0, 1), (0, 1)):
            for name in ("within", "withinS", "gwithinA", "gwithinS"):
                yield "cmp.within", "%s %s %s %d %d %s" % (name, xr(lo), xr(hi), le, ue, xs)
    for b in BINS:
        for t in THR:
            for u in [None] + THR:
                yield "cmp.thresh", "thresh %s %s %s %s" % (b, xr(t), xr(u), xs)
                yield "cmp.thresh", "gthresh %s %s %s %s" % (b, xr(t), xr(u), xs)
                yield "cmp.event", "event %s %s %s %s" % (b, xr(t), xr(u if u is not None else t), xs)
                yield "cmp.intervalBody", "gintervalBody %s %s %s" % (b, xr(t), xr(u if u is not None else t))
        for p in (0.0, 0.25, 1.0):
            for pu in (None, 0.5, 1.0):
                yield "cmp.prob", "tprob %s %s %s" % (b, xr(p), xr(pu))
                yield "cmp.prob", "gtprob %s %s %s" % (b, xr(p), xr(pu))
        for ts in ("none", "-", "1", "0,2", "2,0", "0,1,3", "0,1,2,4", "1,1,2"):
            yield "cmp.intervals", "intervals %s %s" % (b, ts)
    # both evaluators side by side on every value incl. +-inf (C07_inf_disagree): all bin types, t <= u
    for b in BINS:
        for t, u in ((0.0, 0.0), (1.0, 1.0), (1.0, 2.0), (0.0, 3.0), (-2.5, 3.5)):
            yield "cmp.infdiff", "infcmp %s %s %s %s" % (b, xr(t), xr(u), xs)
    for lo, hi in itertools.product(ENDS, ENDS):
        yield "cmp.center", "center %s %s" % (xr(lo), xr(hi))
    n = 300 if tier == "quick" else 6000
    for _ in range(n):
        b = rng.choice(BINS)
        t = rng.randint(-8, 8) / rng.choice([1, 2, 3, 4, 8, 10])
        u = t + rng.randint(-2, 6) / rng.choice([1, 2, 3, 4, 8, 10])
        vals = [rng.choice([t, u, (t + u) / 2, t - 1, u + 1, float("nan"), rng.uniform(-10, 10)])
                for _ in range(rng.randint(1, 6))]
        yield "cmp.event.random", "event %s %s %s %s" % (b, xr(t), xr(u), xvec(vals))
        yield "cmp.thresh.random", "thresh %s %s %s %s" % (b, xr(t), xr(u), xvec(vals))
        ts = sorted(set(rng.randint(-4, 6) / rng.choice([1, 2]) for _ in range(rng.randint(0, 5))))
        yield "cmp.intervals.random", "intervals %s %s" % (b, xvec(ts))
        # partition: value against an increasing threshold list
        if len(ts) >= 2:
            yield "cmp.partition", "partition %s %s" % (xvec(ts), xvec(vals))


def _chars(res, xs):
    out = []
    res = np.ma.masked_array(res) if not isinstance(res, np.ma.MaskedArray) else res
    mask = np.ma.getmaskarray(res)
    for i in range(len(xs)):
        if mask[i]:
            out.append("m")
        else:
            out.append("t" if bool(res.data[i]) else "f")
    return "".join(out)


def _show_interval(i):
    return "%s:%s:%d:%d" % (xr(i.lower), xr(i.upper), 1 if i.lower_eq else 0, 1 if i.upper_eq else 0)


def impl(op):
    import verif.interval
    import verif.util
    a = op.split(" ")
    k = a[0]
    if k in ("within", "gwithinA"):
        I = verif.interval.Interval(from_xr(a[1]), from_xr(a[2]), a[3] == "1", a[4] == "1")
        xs = np.array(from_xvec(a[5]), float)
        return _chars(I.within(xs), xs)
    if k in ("withinS", "gwithinS"):
        I = verif.interval.Interval(from_xr(a[1]), from_xr(a[2]), a[3] == "1", a[4] == "1")
        out = []
        for x in from_xvec(a[5]):
            r = I.within(x)
            if isinstance(r, float) and np.isnan(r):
                out.append("m")
            else:
                out.append("t" if bool(r) else "f")
        return "".join(out)
    if k in ("thresh", "gthresh"):
        u = None if a[3] == "-" else from_xr(a[3])
        xs = np.array(from_xvec(a[4]), float)
        before = xs.copy()
        try:
            r = verif.util.apply_threshold(xs, a[1], from_xr(a[2]), u)
        except SystemExit:
            return "ERR"
        if not np.array_equal(xs, before, equal_nan=True):
            # the callers loop over thresholds with the same (cached) array: the next event would be taken of 0/1
            return "MUTATED-INPUT " + xvec(r)
        return xvec(r)
    if k == "infcmp":
        b, t, u = a[1], from_xr(a[2]), from_xr(a[3])
        xs = np.array(from_xvec(a[4]), float)
        try:
            r = verif.util.apply_threshold(xs.copy(), b, t, u)
        except SystemExit:
            return "ERR"
        ts = [t, u] if "within" in b else [t]
        w = _chars(verif.util.get_intervals(b, np.array(ts))[0].within(xs.copy()), xs)
        return ";".join("%s:%s" % (xr(float(r[i])), w[i]) for i in range(len(xs)))
    if k in ("tprob", "gtprob"):
        pu = None if a[3] == "-" else np.array([from_xr(a[3])])
        try:
            r = verif.util.apply_threshold_prob(np.array([from_xr(a[2])]), a[1], pu)
        except SystemExit:
            return "ERR"
        return xr(r[0])
    if k == "event":
        b, t, u = a[1], from_xr(a[2]), from_xr(a[3])
        ts = [t, u] if "within" in b else [t]
        ivs = verif.util.get_intervals(b, np.array(ts))
        xs = np.array(from_xvec(a[4]), float)
        before = xs.copy()
        r = _chars(ivs[0].within(xs), before)
        if not np.array_equal(xs, before, equal_nan=True):
            return "MUTATED-INPUT " + r
        return r
    if k == "gintervalBody":
        b, t, u = a[1], from_xr(a[2]), from_xr(a[3])
        ts = [t, u] if "within" in b else [t]
        return _show_interval(verif.util.get_intervals(b, np.array(ts))[0])
    if k == "intervals":
        ts = None if a[2] == "none" else np.array(from_xvec(a[2]), float)
        return ";".join(_show_interval(i) for i in verif.util.get_intervals(a[1], ts))
    if k == "center":
        return xr(verif.interval.Interval(from_xr(a[1]), from_xr(a[2]), False, False).center)
    if k == "partition":
        ts = from_xvec(a[1])
        xs = np.array(from_xvec(a[2]), float)
        ivs = verif.util.get_intervals("within=", np.array(ts))
        counts = np.zeros(len(xs), int)
        for i in ivs:
            counts += np.ma.filled(i.within(xs), 0).astype(int)
        return ",".join(str(c) for c in counts)
    raise ValueError(op)


def spec_op(op):
    a = op.split(" ")
    if a[0] == "event":
        return "spec_event %s %s %s %s" % (a[1], a[2], a[3], a[4])
    if a[0] == "thresh" and ("within" not in a[1] or a[3] != "-"):
        return "spec_event %s %s %s %s" % (a[1], a[2], a[3] if a[3] != "-" else a[2], a[4])
    return None


def judge(op, impl_out, spec_out):
    """The property itself, on the implementation: membership / thresholding of finite and missing
    values must be the documented relation (Spec.event evaluated by the Lean driver)."""
    a = op.split(" ")
    if impl_out.startswith("MUTATED-INPUT"):
        return ({"kind": "input-modified", "op": a[0]},
                "%s %s overwrote the array it was given (%s): the next event evaluated on the same values is taken of "
                "0/1 flags instead of the data" % (a[0], a[1], a[4][:200]))
    if a[0] == "event" and spec_out and not spec_out.startswith("ERR"):
        for i, (x, y) in enumerate(zip(impl_out, spec_out)):
            if y != "?" and x != y:
                return ({"kind": "event", "bin": a[1]},
                        "%s: value %s against thresholds %s,%s gives %s, documented event says %s" %
                        (a[1], a[4].split(",")[i], a[2], a[3], x, y))
        if len(impl_out) != len(spec_out):
            return ({"kind": "event", "bin": a[1]}, "reply length differs: %s vs %s" % (impl_out, spec_out))
    if a[0] == "thresh" and spec_out and not spec_out.startswith("ERR"):
        if impl_out.startswith("E"):
            return ({"kind": "thresh-error", "bin": a[1]}, "apply_threshold failed: %s" % impl_out)
        vals = impl_out.split(",")
        for i, y in enumerate(spec_out):
            want = {"t": "1", "f": "0", "m": "nan"}.get(y)
            if want is not None and (i >= len(vals) or vals[i] != want):
                return ({"kind": "thresh", "bin": a[1]},
                        "apply_threshold %s: value %s against %s,%s gives %s, documented event says %s" %
                        (a[1], a[4].split(",")[i], a[2], a[3], vals[i] if i < len(vals) else None, want))
    if a[0] == "infcmp" and not impl_out.startswith("E"):
        # the two evaluators differ exactly in the four documented (bin type, infinite value) cases
        cells = impl_out.split(";")
        xs = a[4].split(",")
        for i, x in enumerate(xs):
            thr, w = cells[i].split(":") if i < len(cells) else (None, None)
            agree = (thr, w) in (("1", "t"), ("0", "f"), ("nan", "m"))
            expected_diff = (x == "-inf" and a[1] in ("below", "below=")) or (x == "inf" and a[1] in ("above", "above="))
            if agree == expected_diff or (expected_diff and (thr, w) != ("1", "f")):
                return ({"kind": "inf-disagree", "bin": a[1]},
                        "%s, thresholds %s,%s, value %s: apply_threshold gives %s, Interval.within gives %s; the two "
                        "are documented to %s here" % (a[1], a[2], a[3], x, thr, w,
                                                        "differ (1 / f)" if expected_diff else "agree"))
    if a[0] == "partition":
        ts = from_xvec(a[1])
        xs = from_xvec(a[2])
        got = impl_out.split(",")
        for i, x in enumerate(xs):
            want = 1 if (x == x and ts[0] < x <= ts[-1]) else 0
            if i >= len(got) or got[i] != str(want):
                return ({"kind": "partition"}, "value %s lies in %s 'within=' events of %s, expected %d" %
                        (xr(x), got[i] if i < len(got) else None, a[1], want))
    if impl_out.startswith("EXC:"):
        return ({"kind": "exception", "op": a[0]}, "unhandled %s" % impl_out)
    return None


def nontrivial(op, out):
    k = op.split(" ")[0]
    if k in ("within", "withinS", "gwithinA", "gwithinS", "event"):
        return "t" in out and "f" in out
    if k in ("thresh", "gthresh"):
        return "1" in out.split(",") and "0" in out.split(",")
    if k == "infcmp":
        return "1:f" in out.split(";")
    return True

LEVEL_TEXT = ("Lean theorems: the eight bin types denote the documented relations for every rational threshold "
              "and value, thresholding agrees with interval membership, NaN belongs to no event, 'within=' events "
              "of an increasing threshold list partition (first,last] (induction over the list), above is the "
              "complement of below=; on infinite values thresholding and membership differ in exactly four cases "
              "(C07_inf_disagree; confirmed on the real functions by stream cmp.infdiff and corpus/C07.txt), none of "
              "which a caller can see because Data.get_scores returns finite values only (C07_agree_behind_filter, "
              "using C04_outputs_valid). The comparison kernels are machine-translated from /repo on every run and "
              "proved equal to the model; the remaining glue is tied by an exhaustive order-type correspondence.")
TECHNIQUE = "Lean 4 proof over a model; model regenerated from source (translator) + exhaustive differential correspondence"


# ------------------------------------------------------------------ frequency / histogram counts (output.py)
# "every part of the program that turns values into events (… frequency and histogram counts …) agrees on them": the
# counting loops of verif.output.Freq / Hist are C16's subject (model, theorems C16_def_freq / C16_def_hist,
# oracle); a sample of C16's freq / hist ops with every within-type bin runs here too, so that ./check C07 on its own
# sees a bin-type slip that is local to those loops (seeded change C07e: searchsorted side taken from upper_eq only).
def _c16():
    import props.c16 as c16
    return c16


def _freqhist_ops(tier, rng):
    c16 = _c16()
    import diaglib as D
    for k in range(24 if tier == "quick" else 400):
        name = ("freq", "hist")[k % 2]
        ds = c16._with_cases(rng, "det", None, False)
        o = c16.gen_options(rng, name, ds)
        o["b"] = ["within", "=within=", "within=", "=within"][(k // 2) % 4]
        if "r" not in o or len(o["r"]) < 3:
            o["r"] = [0.0, 1.0, 2.0, 3.0]          # >= 3 increasing thresholds, values of the grid lie on them
        yield "cmp.freqhist", D.enc_op(name, o, ds)


_gen_ops0, _impl0, _spec_op0, _judge0, _nontrivial0 = gen_ops, impl, spec_op, judge, nontrivial


def gen_ops(tier, rng):
    for s in _gen_ops0(tier, rng):
        yield s
    for s in _freqhist_ops(tier, rng):
        yield s


def _is16(op):
    return op.startswith("diag ")


def impl(op):
    return _c16().impl(op) if _is16(op) else _impl0(op)


def lean_op(op):
    return _c16().lean_op(op) if _is16(op) else op


def spec_op(op):
    return _c16().spec_op(op) if _is16(op) else _spec_op0(op)


def cmp(op, impl_out, model_out):
    return _c16().cmp(op, impl_out, model_out) if _is16(op) else impl_out == model_out


def judge(op, impl_out, spec_out):
    return _c16().judge(op, impl_out, spec_out) if _is16(op) else _judge0(op, impl_out, spec_out)


def nontrivial(op, out):
    return _c16().nontrivial(op, out) if _is16(op) else _nontrivial0(op, out)
