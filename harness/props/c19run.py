"""
C19 runner: datasets, command lines and the in-process execution of verif.driver.run used by
props/c19.py (kept separate so that pool workers import only this module).

op line (one command line of the real tool):
    cli <dataset> <name> <axis|-> <type> <bintype|-> <r|-> <q|-> <agg|->
  dataset = <kind><nfiles><shape>[/c<kind>]     kind det|prob|ens|probnoq|mixdp|mixens|mixpq, nfiles 1..3,
            shape reg|onetime|oneloc|miss|onelead|allmiss|fcmiss|disjoint|nooverlap|x0|nc, optional
            climatology file (-c) of the given kind
            mixdp  = deterministic and probabilistic files together (file k: det, prob, det)
            mixens = ensembles of 5, 3 and 4 members together
            mixpq  = probabilistic files that store different thresholds / quantile levels
            onelead = one lead time; allmiss = every observation missing; fcmiss = every forecast (and derived
            column) of the FIRST file missing; disjoint = times / lead times / locations overlap only partly;
            nooverlap = no common time at all (must end in an error message); x0 = `# x0: 0` / `# x1: 8` headers
            (discrete mass at both ends); nc = the regular dataset as NetCDF files (verif.input.Netcdf)
  optional trailing tokens (cross product with -c / -T):  c=<kind>   T=<hours>:<aggregator>:<axis>
  r, q    = the literal value of -r / -q (comma lists), '-' = option absent

reply (one line):
    <status> [cls=<OutputClass> entry=<method> axis=<axis> thr=<source> bin=<pl.bin_type> own=<Class.method that does the work>]
  status = ok | exit1:<where> | exit0 | exc:<Type>@<file>:<function>:<line>^<package that raised>
           (file/function/line: innermost frame inside the verif package = the crash site)
  where  = stub:<method>   verif.util.error called from a base-class stub of verif.output.Output
           driver          verif.util.error called from verif.driver.run itself
           data            verif.util.error called from Data.__init__ (the files have nothing in common, …)
           run             verif.util.error (or sys.exit) called from anywhere deeper
  the bracketed part is present when the driver reached an output entry point
  (text/csv/map/plot/plot_rank/plot_impact/plot_mapimpact); thr = none|given|detdefault|data|qgiven|qdata
"""
import atexit
import contextlib
import io
import math
import os
import random
import shutil
import sys
import tempfile
import traceback
import warnings

REPO = os.environ.get("VERIF_REPO", "/repo")
if REPO not in sys.path:
    sys.path.insert(0, REPO)
os.environ.setdefault("MPLBACKEND", "Agg")

KINDS = ["det", "prob", "ens", "probnoq", "mixdp", "mixens", "mixpq"]
SHAPES = ["reg", "onetime", "oneloc", "miss", "onelead", "allmiss", "fcmiss", "disjoint", "nooverlap", "x0", "nc"]
BASE_KINDS = ["det", "prob", "ens", "probnoq"]
OLD_SHAPES = ["reg", "onetime", "oneloc", "miss"]
TYPES = ["plot", "text", "csv", "map", "rank", "maprank", "impact", "mapimpact"]
PLOT_TYPES = ["plot", "map", "rank", "maprank", "impact", "mapimpact"]
ENTRY_OF_TYPE = {"plot": "plot", "text": "text", "csv": "csv", "map": "map", "maprank": "map",
                 "rank": "plot_rank", "impact": "plot_impact", "mapimpact": "plot_mapimpact"}
DATA_SEED = 20190719        # dataset contents are fixed (replays and corpus lines must reproduce)

_DIR = None
_OWNER = None


def _cleanup():
    global _DIR
    if _DIR is not None and _OWNER == os.getpid():
        shutil.rmtree(_DIR, ignore_errors=True)
        _DIR = None


def workdir():
    """temp dir with every dataset file, created on first use, removed at exit of the creating process"""
    global _DIR, _OWNER
    if _DIR is None:
        _DIR = tempfile.mkdtemp(prefix="verif_c19_")
        _OWNER = os.getpid()
        atexit.register(_cleanup)
        _write_all(_DIR)
    return _DIR


def set_workdir(path):
    """pool workers: reuse the parent's directory"""
    global _DIR, _OWNER
    _DIR, _OWNER = path, None


# ------------------------------------------------------------------ datasets
TIMES = [(20111230, 0), (20120101, 0), (20120115, 0), (20120210, 0)]
LEADS = [0, 12, 36]
LOCS = [(1, 60.0, 10.0, 100.0), (2, 61.5, 11.0, 350.0), (3, 59.0, 8.5, 5.0)]
THRESHOLDS = [0.5, 2, 5]
QUANTILES = [0.1, 0.5, 0.9]
MEMBERS = 5


def _fmt(v):
    if isinstance(v, int):
        return "%d" % v
    if math.isnan(v):
        return "-999"
    return repr(float(v))


# what file k of a mixed dataset is: (base kind, members, thresholds, quantiles)
MIX_PQ = [(THRESHOLDS, QUANTILES), ([1, 5], [0.25, 0.75]), ([0.5, 5, 10], [0.5])]
MIX_ENS = [5, 3, 4]
TIMES5 = TIMES + [(20120211, 0)]
LEADS5 = LEADS + [48, 60]
LOCS5 = LOCS + [(4, 62.0, 9.0, 700.0), (100000, 58.5, 7.5, 20.0)]


def file_spec(kind, k):
    if kind == "mixdp":
        return ("det", "prob", "det")[k], MEMBERS, THRESHOLDS, QUANTILES
    if kind == "mixens":
        return "ens", MIX_ENS[k], THRESHOLDS, QUANTILES
    if kind == "mixpq":
        return "prob", MEMBERS, MIX_PQ[k][0], MIX_PQ[k][1]
    return kind, MEMBERS, THRESHOLDS, QUANTILES


def _coords(shape, k):
    times = TIMES[:1] if shape == "onetime" else TIMES
    leads = LEADS[:1] if shape == "onelead" else LEADS
    locs = LOCS[:1] if shape == "oneloc" else LOCS
    if shape == "disjoint":
        # file k holds a window of each dimension: consecutive files share 2 of 3-4 values, file 0 and 2 fewer
        times, leads, locs = TIMES5[k:k + 3], LEADS5[k:k + 3], LOCS5[k:k + 4]
    if shape == "nooverlap":
        times = [TIMES5[k]] if k < 2 else TIMES5[2:4]
    return times, leads, locs


def _table(kind, shape, k):
    """-> (cols, rows as dicts, base kind, members, thresholds, quantiles)"""
    bkind, members, thresholds, quantiles = file_spec(kind, k)
    rng = random.Random("%d/%s/%s/%d" % (DATA_SEED, kind if kind in BASE_KINDS else bkind + kind, shape, k))
    old = shape in OLD_SHAPES and kind in BASE_KINDS
    times, leads, locs = _coords(shape, k)
    cols = ["date", "hour", "leadtime", "location", "lat", "lon", "altitude", "obs", "fcst"]
    if bkind in ("prob", "probnoq"):
        cols += ["p%g" % t for t in thresholds]
        if bkind == "prob":
            cols += ["q%g" % q for q in quantiles]
        cols += ["pit"]
    if bkind == "ens":
        cols += ["e%d" % i for i in range(members)]
    rows = []
    # the same observations in every input: a function of the coordinates for the new shapes (files need not hold
    # the same cases), the historical stream for the old ones (corpus lines and replays must reproduce)
    base = random.Random("%d/%s/obs" % (DATA_SEED, shape))
    for (d, h) in times:
        for l in leads:
            for (i, lat, lon, elev) in locs:
                if not old:
                    base = random.Random("%d/obs/%d/%d/%d" % (DATA_SEED, d, l, i))
                obs = round(base.uniform(0, 8), 1)
                if base.random() < 0.25:
                    obs = 0.0                          # ties with the lowest threshold, like precipitation
                fc = round(max(0.0, obs + rng.gauss(0.3 * (k + 1), 1.5)), 1)
                if shape == "x0":
                    fc = min(fc, 8.0)                  # x1 = 8: nothing above the upper discrete mass
                    if rng.random() < 0.2:
                        obs = 8.0
                v = {"date": d, "hour": h, "leadtime": l, "location": i, "lat": lat, "lon": lon,
                     "altitude": elev, "obs": obs, "fcst": fc}
                if rng.random() < 0.06:
                    v["fcst"] = float("nan")
                allnan = shape == "miss" and l == LEADS[1]    # one lead time with nothing but missing values
                if allnan or shape == "allmiss":
                    v["obs"] = float("nan")
                if allnan or (shape == "fcmiss" and k == 0):
                    v["fcst"] = float("nan")
                sd = 1.0 + 0.5 * k
                if bkind in ("prob", "probnoq"):
                    for t in thresholds:
                        z = (t - fc) / sd
                        v["p%g" % t] = round(0.5 * (1 + math.erf(z / math.sqrt(2))), 3)
                    for q in quantiles:
                        zq = {0.1: -1.2816, 0.25: -0.6745, 0.5: 0.0, 0.75: 0.6745, 0.9: 1.2816}[q]
                        v["q%g" % q] = round(fc + zq * sd, 2)
                    z = (obs - fc) / sd
                    v["pit"] = round(0.5 * (1 + math.erf(z / math.sqrt(2))), 3)
                    if shape == "x0":
                        if obs == 0.0:
                            v["pit"] = v["p%g" % thresholds[0]] if thresholds[0] == 0 else round(0.5 * (1 + math.erf((0 - fc) / sd / math.sqrt(2))), 3)
                        if obs == 8.0:
                            v["pit"] = 1.0
                    if allnan or (shape == "fcmiss" and k == 0):
                        for c in cols[9:]:
                            v[c] = float("nan")
                if bkind == "ens":
                    for m in range(members):
                        e = round(max(0.0, fc + rng.gauss(0, sd)), 1)
                        v["e%d" % m] = min(e, 8.0) if shape == "x0" else e
                    if allnan or (shape == "fcmiss" and k == 0):
                        for m in range(members):
                            v["e%d" % m] = float("nan")
                rows.append(v)
    return cols, rows, bkind, members, thresholds, quantiles


def _write_one(path, kind, shape, k):
    cols, rows, bkind, members, thresholds, quantiles = _table(kind, shape, k)
    if shape == "nc":
        return _write_nc(path, cols, rows, bkind, members, thresholds, quantiles)
    with open(path, "w") as f:
        f.write("# variable: Precip\n# units: mm\n")
        if shape == "x0":
            f.write("# x0: 0\n# x1: 8\n")
        f.write(" ".join(cols) + "\n" + "\n".join(" ".join(_fmt(v[c]) for c in cols) for v in rows) + "\n")


def _write_nc(path, cols, rows, bkind, members, thresholds, quantiles):
    """the table as a verif NetCDF file (the layout verif.input.Netcdf documents)"""
    import calendar
    import netCDF4
    import numpy as np
    times = sorted(set((v["date"], v["hour"]) for v in rows))
    leads = sorted(set(v["leadtime"] for v in rows))
    locs = sorted(set((v["location"], v["lat"], v["lon"], v["altitude"]) for v in rows))
    unix = [calendar.timegm((d // 10000, d // 100 % 100, d % 100, h, 0, 0)) for d, h in times]
    T, L, X = len(times), len(leads), len(locs)
    idx = {}
    for v in rows:
        idx[(times.index((v["date"], v["hour"])), leads.index(v["leadtime"]), [x[0] for x in locs].index(v["location"]))] = v
    nc = netCDF4.Dataset(path, "w")
    nc.createDimension("time", None)
    nc.createDimension("leadtime", L)
    nc.createDimension("location", X)
    for nm, dm, val in [("time", ("time",), unix), ("leadtime", ("leadtime",), leads),
                        ("location", ("location",), [x[0] for x in locs]), ("lat", ("location",), [x[1] for x in locs]),
                        ("lon", ("location",), [x[2] for x in locs]), ("altitude", ("location",), [x[3] for x in locs])]:
        var = nc.createVariable(nm, "f8", dm)
        var[:] = np.array(val, float)

    def arr(col):
        a = np.full((T, L, X), np.nan)
        for (t, l, x), v in idx.items():
            a[t, l, x] = v[col]
        return a
    for col in ("obs", "fcst") + (("pit",) if "pit" in cols else ()):
        var = nc.createVariable(col, "f4", ("time", "leadtime", "location"))
        var[:] = arr(col)
    if bkind in ("prob", "probnoq"):
        nc.createDimension("threshold", len(thresholds))
        var = nc.createVariable("threshold", "f8", ("threshold",))
        var[:] = np.array(thresholds, float)
        var = nc.createVariable("cdf", "f4", ("time", "leadtime", "location", "threshold"))
        var[:] = np.stack([arr("p%g" % t) for t in thresholds], axis=3)
    if bkind == "prob":
        nc.createDimension("quantile", len(quantiles))
        var = nc.createVariable("quantile", "f8", ("quantile",))
        var[:] = np.array(quantiles, float)
        var = nc.createVariable("x", "f4", ("time", "leadtime", "location", "quantile"))
        var[:] = np.stack([arr("q%g" % q) for q in quantiles], axis=3)
    if bkind == "ens":
        nc.createDimension("ensemble_member", members)
        var = nc.createVariable("ensemble", "f4", ("time", "leadtime", "location", "ensemble_member"))
        var[:] = np.stack([arr("e%d" % m) for m in range(members)], axis=3)
    nc.long_name = "Precip"
    nc.units = "mm"
    nc.Conventions = "verif_1.0.0"
    nc.close()


def file_name(kind, shape, k):
    return "%s_%s_%d.%s" % (kind, shape, k, "nc" if shape == "nc" else "txt")


def _write_all(d):
    for kind in KINDS:
        for shape in SHAPES:
            for k in range(3):
                _write_one(os.path.join(d, file_name(kind, shape, k)), kind, shape, k)


def parse_ds(ds):
    clim = None
    if "/c" in ds:
        ds, clim = ds.split("/c")
    for kind in sorted(KINDS, key=len, reverse=True):
        if ds.startswith(kind):
            n = int(ds[len(kind)])
            shape = ds[len(kind) + 1:]
            if shape in SHAPES and 1 <= n <= 3:
                return kind, n, shape, clim
    raise ValueError("bad dataset token %r" % ds)


def files_of(ds):
    kind, n, shape, clim = parse_ds(ds)
    d = workdir()
    files = [os.path.join(d, file_name(kind, shape, k)) for k in range(n)]
    cfile = os.path.join(d, file_name(clim, shape, 2)) if clim else None
    return files, cfile


def parse_op(op):
    a = op.split()
    if len(a) < 9 or a[0] != "cli":
        raise ValueError("bad op %r" % op)
    keys = ("ds", "name", "axis", "type", "bin", "r", "q", "agg")
    c = dict(zip(keys, a[1:9]))
    c["clim"], c["T"] = "-", "-"
    for t in a[9:]:
        if t.startswith("c="):
            c["clim"] = t[2:]
        elif t.startswith("T="):
            c["T"] = t[2:]
        else:
            raise ValueError("bad op %r" % op)
    return c


def argv_of(op, outfile=None):
    """the command line of the real tool for an op (file names shortened by `display`)"""
    c = parse_op(op)
    files, cfile = files_of(c["ds"])
    if c["clim"] != "-":
        kind, n, shape, _ = parse_ds(c["ds"])
        cfile = os.path.join(workdir(), file_name(c["clim"], shape, 2))
    argv = ["verif"] + files + ["-m", c["name"]]
    if cfile:
        argv += ["-c", cfile]
    if c["axis"] != "-":
        argv += ["-x", c["axis"]]
    argv += ["-type", c["type"]]
    if c["bin"] != "-":
        argv += ["-b", c["bin"]]
    if c["r"] != "-":
        argv += ["-r", c["r"]]
    if c["q"] != "-":
        argv += ["-q", c["q"]]
    if c["agg"] != "-":
        argv += ["-agg", c["agg"]]
    if c["T"] != "-":
        h, tagg, tx = c["T"].split(":")
        argv += ["-T", h]
        if tagg != "-":
            argv += ["-Tagg", tagg]
        if tx != "-":
            argv += ["-Tx", tx]
    if outfile is not None and c["type"] not in ("text", "csv"):
        argv += ["-f", outfile]
    return argv


def display(op):
    """human-readable command line (dataset files named by kind_shape_k.txt)"""
    argv = argv_of(op, "out.png")
    return " ".join(os.path.basename(a) if a.startswith(workdir()) else a for a in argv)


# ------------------------------------------------------------------ running
_PATCHED = False
_REC = {}
_CORE_OF_ENTRY = {"plot": "_plot_core", "text": "_get_x_y", "csv": "_get_x_y", "map": "_map_core",
                  "plot_rank": "_plot_rank_core", "plot_impact": "_plot_impact_core",
                  "plot_mapimpact": "_plot_mapimpact_core"}


def _patch():
    """record, at every output entry point, which class / axis / thresholds the driver set up"""
    global _PATCHED
    if _PATCHED:
        return
    import numpy as np
    import verif.output
    import verif.util

    def wrap(entry):
        orig = getattr(verif.output.Output, entry)

        def wrapped(self, data, *a, **k):
            if "cls" not in _REC:
                _REC["cls"] = type(self).__name__
                _REC["entry"] = entry
                core = _CORE_OF_ENTRY.get(entry)
                owner = [k.__name__ for k in type(self).__mro__ if core in k.__dict__ or entry in k.__dict__
                         and k is not verif.output.Output]
                _REC["own"] = "%s.%s" % (owner[0], core) if owner else "?"
                try:
                    _REC["axis"] = self.axis.name().lower()
                except Exception:
                    _REC["axis"] = "?"
                thr = self.thresholds
                if thr is None:
                    src = "none"
                elif self.quantiles is not None and thr is self.quantiles:
                    src = "qgiven" if _REC.get("has_q") else "qdata"
                elif _REC.get("auto_r"):
                    src = "detdefault"
                    try:
                        if len(thr) != 20 or (len(data.thresholds) == 20 and np.array_equal(thr, data.thresholds)):
                            src = "data"
                    except Exception:
                        pass
                else:
                    src = "given"
                _REC["thr"] = src
                _REC["bin"] = str(getattr(self, "bin_type", None)).replace(" ", "_") or "-"
            return orig(self, data, *a, **k)
        wrapped._c19_orig = orig
        setattr(verif.output.Output, entry, wrapped)

    for e in sorted(set(ENTRY_OF_TYPE.values())):
        wrap(e)
    owarn = verif.util.warning

    def warning(message):
        if message.startswith("Missing '-r"):
            _REC["auto_r"] = True
        return owarn(message)
    verif.util.warning = warning
    _PATCHED = True


def _verif_frames(tb):
    root = os.path.join(os.path.realpath(REPO), "verif") + os.sep
    out = []
    for fr, lineno in traceback.walk_tb(tb):
        fn = os.path.realpath(fr.f_code.co_filename)
        if fn.startswith(root):
            out.append((fn[len(root):], getattr(fr.f_code, "co_qualname", fr.f_code.co_name), lineno, fr))
    return out


def _where_exit(tb):
    """classify a SystemExit by the verif frame that called verif.util.error / sys.exit"""
    import verif.output
    frames = _verif_frames(tb)
    # drop util.error itself
    while frames and frames[-1][0] == "util.py" and frames[-1][1] in ("error",):
        frames.pop()
    if not frames:
        return "run"
    f, qual, line, fr = frames[-1]
    if f == "driver.py" and qual == "run":
        return "driver"
    if f == "data.py" and qual == "Data.__init__":
        return "data"          # the dataset could not be built (no common times / lead times / locations, …)
    if f == "output.py":
        base = verif.output.Output
        for name in ("_get_x_y", "_plot_core", "_map_core", "_plot_impact_core", "_plot_mapimpact_core",
                     "_plot_rank_core"):
            fn = base.__dict__.get(name)
            if fn is not None and getattr(fn, "__code__", None) is fr.f_code:
                return "stub:" + name
    return "run"


def run_argv(argv, has_q=False):
    """run the real driver in-process -> reply line"""
    import matplotlib
    matplotlib.use("Agg")
    import matplotlib.pyplot as mpl
    import verif.driver
    _patch()
    _REC.clear()
    _REC["has_q"] = has_q
    status = None
    buf = io.StringIO()
    with warnings.catch_warnings():
        warnings.simplefilter("ignore")
        try:
            with contextlib.redirect_stdout(buf), contextlib.redirect_stderr(buf):
                verif.driver.run(list(argv))
            status = "ok"
        except SystemExit as e:
            if e.code in (0, None):
                status = "exit0"
            else:
                status = "exit1:" + _where_exit(e.__traceback__)
                if "Error: " not in buf.getvalue():
                    status = "exit1-nomessage:" + _where_exit(e.__traceback__)
        except KeyboardInterrupt:
            raise
        except BaseException as e:
            frames = _verif_frames(e.__traceback__)
            pkg = "?"
            for fr, _ in traceback.walk_tb(e.__traceback__):     # package of the frame that raised
                pkg = (fr.f_globals.get("__name__") or "?").split(".")[0]
            if frames:
                f, qual, line, _ = frames[-1]
                status = "exc:%s@%s:%s:%d^%s" % (type(e).__name__, f, qual, line, pkg)
            else:
                status = "exc:%s@?:?:0^%s" % (type(e).__name__, pkg)
        finally:
            try:
                mpl.close("all")
            except Exception:
                pass
    if "cls" in _REC:
        status += " cls=%s entry=%s axis=%s thr=%s bin=%s own=%s" % (
            _REC["cls"], _REC["entry"], _REC["axis"], _REC["thr"], _REC["bin"], _REC["own"])
    return status


def run_op(op):
    c = parse_op(op)
    out = os.path.join(workdir(), "out_%d.png" % os.getpid())
    try:
        return run_argv(argv_of(op, out), has_q=(c["q"] != "-"))
    finally:
        if os.path.exists(out):
            os.remove(out)


# ------------------------------------------------------------------ pool
def _init(path):
    set_workdir(path)
    os.environ["MPLBACKEND"] = "Agg"


def _work(op):
    try:
        return op, run_op(op)
    except Exception as e:       # a harness problem, not a verif outcome
        return op, "HARNESS-ERROR:%s:%s" % (type(e).__name__, e)


def run_many(ops, procs=None):
    """-> dict op -> reply, evaluated in a process pool"""
    import multiprocessing as mp
    ops = list(dict.fromkeys(ops))
    if not ops:
        return {}
    d = workdir()
    procs = procs or min(14, max(1, (os.cpu_count() or 2) - 2))
    if len(ops) < 40:
        return dict(_work(o) for o in ops)
    ctx = mp.get_context("fork")
    with ctx.Pool(procs, initializer=_init, initargs=(d,)) as pool:
        return dict(pool.imap_unordered(_work, ops, chunksize=8))
