"""
C19 runner: datasets, command lines and the in-process execution of verif.driver.run used by
props/c19.py (kept separate so that pool workers import only this module).

op line (one command line of the real tool):
    cli <dataset> <name> <axis|-> <type> <bintype|-> <r|-> <q|-> <agg|->
  dataset = <kind><nfiles><shape>[/c<kind>]     kind det|prob|ens|probnoq, nfiles 1..3,
            shape reg|onetime|oneloc|miss, optional climatology file (-c) of the given kind
  r, q    = the literal value of -r / -q (comma lists), '-' = option absent

reply (one line):
    <status> [cls=<OutputClass> entry=<method> axis=<axis> thr=<source> bin=<pl.bin_type> own=<Class.method that does the work>]
  status = ok | exit1:<where> | exit0 | exc:<Type>@<file>:<function>:<line>^<package that raised>
           (file/function/line: innermost frame inside the verif package = the crash site)
  where  = stub:<method>   verif.util.error called from a base-class stub of verif.output.Output
           driver          verif.util.error called from verif.driver.run itself
           run             verif.util.error (or sys.exit) called from anywhere deeper
  the bracketed part is present when the driver reached an output entry point
  (text/csv/map/plot/plot_rank/plot_impact/plot_mapimpact); thr = none|given|detdefault|data|qgiven|qdata
"""
import atexit
import contextlib
import io
import math
import os
import random
import shutil
import sys
import tempfile
import traceback
import warnings

REPO = os.environ.get("VERIF_REPO", "/repo")
if REPO not in sys.path:
    sys.path.insert(0, REPO)
os.environ.setdefault("MPLBACKEND", "Agg")

KINDS = ["det", "prob", "ens", "probnoq"]
SHAPES = ["reg", "onetime", "oneloc", "miss"]
TYPES = ["plot", "text", "csv", "map", "rank", "maprank", "impact", "mapimpact"]
PLOT_TYPES = ["plot", "map", "rank", "maprank", "impact", "mapimpact"]
ENTRY_OF_TYPE = {"plot": "plot", "text": "text", "csv": "csv", "map": "map", "maprank": "map",
                 "rank": "plot_rank", "impact": "plot_impact", "mapimpact": "plot_mapimpact"}
DATA_SEED = 20190719        # dataset contents are fixed (replays and corpus lines must reproduce)

_DIR = None
_OWNER = None


def _cleanup():
    global _DIR
    if _DIR is not None and _OWNER == os.getpid():
        shutil.rmtree(_DIR, ignore_errors=True)
        _DIR = None


def workdir():
    """temp dir with every dataset file, created on first use, removed at exit of the creating process"""
    global _DIR, _OWNER
    if _DIR is None:
        _DIR = tempfile.mkdtemp(prefix="verif_c19_")
        _OWNER = os.getpid()
        atexit.register(_cleanup)
        _write_all(_DIR)
    return _DIR


def set_workdir(path):
    """pool workers: reuse the parent's directory"""
    global _DIR, _OWNER
    _DIR, _OWNER = path, None


# ------------------------------------------------------------------ datasets
TIMES = [(20111230, 0), (20120101, 0), (20120115, 0), (20120210, 0)]
LEADS = [0, 12, 36]
LOCS = [(1, 60.0, 10.0, 100.0), (2, 61.5, 11.0, 350.0), (3, 59.0, 8.5, 5.0)]
THRESHOLDS = [0.5, 2, 5]
QUANTILES = [0.1, 0.5, 0.9]
MEMBERS = 5


def _fmt(v):
    if isinstance(v, int):
        return "%d" % v
    if math.isnan(v):
        return "-999"
    return repr(float(v))


def _write_one(path, kind, shape, k):
    rng = random.Random("%d/%s/%s/%d" % (DATA_SEED, kind, shape, k))
    base = random.Random("%d/%s/obs" % (DATA_SEED, shape))     # the same observations in every input
    times = TIMES[:1] if shape == "onetime" else TIMES
    locs = LOCS[:1] if shape == "oneloc" else LOCS
    cols = ["date", "hour", "leadtime", "location", "lat", "lon", "altitude", "obs", "fcst"]
    if kind in ("prob", "probnoq"):
        cols += ["p%g" % t for t in THRESHOLDS]
        if kind == "prob":
            cols += ["q%g" % q for q in QUANTILES]
        cols += ["pit"]
    if kind == "ens":
        cols += ["e%d" % i for i in range(MEMBERS)]
    rows = []
    for (d, h) in times:
        for l in LEADS:
            for (i, lat, lon, elev) in locs:
                obs = round(base.uniform(0, 8), 1)
                if base.random() < 0.25:
                    obs = 0.0                          # ties with the lowest threshold, like precipitation
                fc = round(max(0.0, obs + rng.gauss(0.3 * (k + 1), 1.5)), 1)
                v = {"date": d, "hour": h, "leadtime": l, "location": i, "lat": lat, "lon": lon,
                     "altitude": elev, "obs": obs, "fcst": fc}
                if rng.random() < 0.06:
                    v["fcst"] = float("nan")
                if shape == "miss" and l == LEADS[1]:   # one lead time with nothing but missing values
                    v["obs"] = float("nan")
                    v["fcst"] = float("nan")
                sd = 1.0 + 0.5 * k
                if kind in ("prob", "probnoq"):
                    for t in THRESHOLDS:
                        z = (t - fc) / sd
                        v["p%g" % t] = round(0.5 * (1 + math.erf(z / math.sqrt(2))), 3)
                    for q, zq in zip(QUANTILES, (-1.2816, 0.0, 1.2816)):
                        v["q%g" % q] = round(fc + zq * sd, 2)
                    z = (obs - fc) / sd
                    v["pit"] = round(0.5 * (1 + math.erf(z / math.sqrt(2))), 3)
                    if shape == "miss" and l == LEADS[1]:
                        for c in cols[9:]:
                            v[c] = float("nan")
                if kind == "ens":
                    for m in range(MEMBERS):
                        v["e%d" % m] = round(max(0.0, fc + rng.gauss(0, sd)), 1)
                    if shape == "miss" and l == LEADS[1]:
                        for m in range(MEMBERS):
                            v["e%d" % m] = float("nan")
                rows.append(" ".join(_fmt(v[c]) for c in cols))
    with open(path, "w") as f:
        f.write("# variable: Precip\n# units: mm\n")
        f.write(" ".join(cols) + "\n" + "\n".join(rows) + "\n")


def _write_all(d):
    for kind in KINDS:
        for shape in SHAPES:
            for k in range(3):
                _write_one(os.path.join(d, "%s_%s_%d.txt" % (kind, shape, k)), kind, shape, k)


def parse_ds(ds):
    clim = None
    if "/c" in ds:
        ds, clim = ds.split("/c")
    for kind in sorted(KINDS, key=len, reverse=True):
        if ds.startswith(kind):
            n = int(ds[len(kind)])
            shape = ds[len(kind) + 1:]
            if shape in SHAPES and 1 <= n <= 3:
                return kind, n, shape, clim
    raise ValueError("bad dataset token %r" % ds)


def files_of(ds):
    kind, n, shape, clim = parse_ds(ds)
    d = workdir()
    files = [os.path.join(d, "%s_%s_%d.txt" % (kind, shape, k)) for k in range(n)]
    cfile = os.path.join(d, "%s_%s_%d.txt" % (clim, shape, 2)) if clim else None
    return files, cfile


def parse_op(op):
    a = op.split()
    if len(a) != 9 or a[0] != "cli":
        raise ValueError("bad op %r" % op)
    keys = ("ds", "name", "axis", "type", "bin", "r", "q", "agg")
    return dict(zip(keys, a[1:]))


def argv_of(op, outfile=None):
    """the command line of the real tool for an op (file names shortened by `display`)"""
    c = parse_op(op)
    files, cfile = files_of(c["ds"])
    argv = ["verif"] + files + ["-m", c["name"]]
    if cfile:
        argv += ["-c", cfile]
    if c["axis"] != "-":
        argv += ["-x", c["axis"]]
    argv += ["-type", c["type"]]
    if c["bin"] != "-":
        argv += ["-b", c["bin"]]
    if c["r"] != "-":
        argv += ["-r", c["r"]]
    if c["q"] != "-":
        argv += ["-q", c["q"]]
    if c["agg"] != "-":
        argv += ["-agg", c["agg"]]
    if outfile is not None and c["type"] not in ("text", "csv"):
        argv += ["-f", outfile]
    return argv


def display(op):
    """human-readable command line (dataset files named by kind_shape_k.txt)"""
    argv = argv_of(op, "out.png")
    return " ".join(os.path.basename(a) if a.startswith(workdir()) else a for a in argv)


# ------------------------------------------------------------------ running
_PATCHED = False
_REC = {}
_CORE_OF_ENTRY = {"plot": "_plot_core", "text": "_get_x_y", "csv": "_get_x_y", "map": "_map_core",
                  "plot_rank": "_plot_rank_core", "plot_impact": "_plot_impact_core",
                  "plot_mapimpact": "_plot_mapimpact_core"}


def _patch():
    """record, at every output entry point, which class / axis / thresholds the driver set up"""
    global _PATCHED
    if _PATCHED:
        return
    import numpy as np
    import verif.output
    import verif.util

    def wrap(entry):
        orig = getattr(verif.output.Output, entry)

        def wrapped(self, data, *a, **k):
            if "cls" not in _REC:
                _REC["cls"] = type(self).__name__
                _REC["entry"] = entry
                core = _CORE_OF_ENTRY.get(entry)
                owner = [k.__name__ for k in type(self).__mro__ if core in k.__dict__ or entry in k.__dict__
                         and k is not verif.output.Output]
                _REC["own"] = "%s.%s" % (owner[0], core) if owner else "?"
                try:
                    _REC["axis"] = self.axis.name().lower()
                except Exception:
                    _REC["axis"] = "?"
                thr = self.thresholds
                if thr is None:
                    src = "none"
                elif self.quantiles is not None and thr is self.quantiles:
                    src = "qgiven" if _REC.get("has_q") else "qdata"
                elif _REC.get("auto_r"):
                    src = "detdefault"
                    try:
                        if len(thr) != 20 or (len(data.thresholds) == 20 and np.array_equal(thr, data.thresholds)):
                            src = "data"
                    except Exception:
                        pass
                else:
                    src = "given"
                _REC["thr"] = src
                _REC["bin"] = str(getattr(self, "bin_type", None)).replace(" ", "_") or "-"
            return orig(self, data, *a, **k)
        wrapped._c19_orig = orig
        setattr(verif.output.Output, entry, wrapped)

    for e in sorted(set(ENTRY_OF_TYPE.values())):
        wrap(e)
    owarn = verif.util.warning

    def warning(message):
        if message.startswith("Missing '-r"):
            _REC["auto_r"] = True
        return owarn(message)
    verif.util.warning = warning
    _PATCHED = True


def _verif_frames(tb):
    root = os.path.join(os.path.realpath(REPO), "verif") + os.sep
    out = []
    for fr, lineno in traceback.walk_tb(tb):
        fn = os.path.realpath(fr.f_code.co_filename)
        if fn.startswith(root):
            out.append((fn[len(root):], getattr(fr.f_code, "co_qualname", fr.f_code.co_name), lineno, fr))
    return out


def _where_exit(tb):
    """classify a SystemExit by the verif frame that called verif.util.error / sys.exit"""
    import verif.output
    frames = _verif_frames(tb)
    # drop util.error itself
    while frames and frames[-1][0] == "util.py" and frames[-1][1] in ("error",):
        frames.pop()
    if not frames:
        return "run"
    f, qual, line, fr = frames[-1]
    if f == "driver.py" and qual == "run":
        return "driver"
    if f == "output.py":
        base = verif.output.Output
        for name in ("_get_x_y", "_plot_core", "_map_core", "_plot_impact_core", "_plot_mapimpact_core",
                     "_plot_rank_core"):
            fn = base.__dict__.get(name)
            if fn is not None and getattr(fn, "__code__", None) is fr.f_code:
                return "stub:" + name
    return "run"


def run_argv(argv, has_q=False):
    """run the real driver in-process -> reply line"""
    import matplotlib
    matplotlib.use("Agg")
    import matplotlib.pyplot as mpl
    import verif.driver
    _patch()
    _REC.clear()
    _REC["has_q"] = has_q
    status = None
    buf = io.StringIO()
    with warnings.catch_warnings():
        warnings.simplefilter("ignore")
        try:
            with contextlib.redirect_stdout(buf), contextlib.redirect_stderr(buf):
                verif.driver.run(list(argv))
            status = "ok"
        except SystemExit as e:
            if e.code in (0, None):
                status = "exit0"
            else:
                status = "exit1:" + _where_exit(e.__traceback__)
                if "Error: " not in buf.getvalue():
                    status = "exit1-nomessage:" + _where_exit(e.__traceback__)
        except KeyboardInterrupt:
            raise
        except BaseException as e:
            frames = _verif_frames(e.__traceback__)
            pkg = "?"
            for fr, _ in traceback.walk_tb(e.__traceback__):     # package of the frame that raised
                pkg = (fr.f_globals.get("__name__") or "?").split(".")[0]
            if frames:
                f, qual, line, _ = frames[-1]
                status = "exc:%s@%s:%s:%d^%s" % (type(e).__name__, f, qual, line, pkg)
            else:
                status = "exc:%s@?:?:0^%s" % (type(e).__name__, pkg)
        finally:
            try:
                mpl.close("all")
            except Exception:
                pass
    if "cls" in _REC:
        status += " cls=%s entry=%s axis=%s thr=%s bin=%s own=%s" % (
            _REC["cls"], _REC["entry"], _REC["axis"], _REC["thr"], _REC["bin"], _REC["own"])
    return status


def run_op(op):
    c = parse_op(op)
    out = os.path.join(workdir(), "out_%d.png" % os.getpid())
    try:
        return run_argv(argv_of(op, out), has_q=(c["q"] != "-"))
    finally:
        if os.path.exists(out):
            os.remove(out)


# ------------------------------------------------------------------ pool
def _init(path):
    set_workdir(path)
    os.environ["MPLBACKEND"] = "Agg"


def _work(op):
    try:
        return op, run_op(op)
    except Exception as e:       # a harness problem, not a verif outcome
        return op, "HARNESS-ERROR:%s:%s" % (type(e).__name__, e)


def run_many(ops, procs=None):
    """-> dict op -> reply, evaluated in a process pool"""
    import multiprocessing as mp
    ops = list(dict.fromkeys(ops))
    if not ops:
        return {}
    d = workdir()
    procs = procs or min(14, max(1, (os.cpu_count() or 2) - 2))
    if len(ops) < 40:
        return dict(_work(o) for o in ops)
    ctx = mp.get_context("fork")
    with ctx.Pool(procs, initializer=_init, initargs=(d,)) as pool:
        return dict(pool.imap_unordered(_work, ops, chunksize=8))
