"""C04 — missing data never enters a score as a number."""
import math
import warnings
import numpy as np
import datagen as dg
import props.c01 as c01
import props.c08 as c08
from props import mdelete
from common import xr, xvec, from_xr, from_xvec, tokens_close, num_close

ID = "C04"
TARGETS = ["Proofs.C04", mdelete.TARGET]
GEN_PREFIXES = ["clean."]
THEOREMS = {"Proofs.C04": ["VerifModel.C04." + t for t in [
    "cleanCond_eq", "textClean_eq", "C04_clean", "C04_textclean", "C04_textclean_keeps", "C04_text_nc_agree", "isValid_iff", "compress_mem",
    "C04_outputs_valid", "C04_all_masked", "C04_nonfinite_clim", "C04_pairwise", "C04_all_missing_nan",
    "validMask_insertRow", "compress_insertAt", "C04_delete_invariance", "C04_delete_invariance_many"]],
    mdelete.TARGET: list(mdelete.THEOREMS)}
TRUSTED_BASE = c01.TRUSTED_BASE + [
    "harness/translate.py for the mask expression of util.clean and the body of Text._clean (re-proved equal to the "
    "model each run); the surrounding statements of util.clean are pattern-checked, not translated",
    "CPython's float(): the harness classifies each text token as a number or a ValueError with float() itself",
    "numpy.ma / netCDF4 masked-array semantics (np.ma.filled)",
    mdelete.TRUSTED,
]
ASSUMPTIONS = c01.ASSUMPTIONS
RULE = ("ens.missing: C08's ensemble/cdf/quantile ops that carry a missing member or value (threshold probability and quantile derived from an ensemble with missing members, stored columns with missing cells); clean.nc: vectors over {masked, nan, -999, -999.5, 0, 1e30, nextafter(1e30), 1e31, inf, -inf, -1e31}; clean.text: "
        "tokens {-999, -999.0, -9.99e2, NA, ., nan, NaN, inf, -inf, abc, 1e3, 1_0, '', +5}; metric.delete: vector pairs and "
        "the same pairs with k missing cases spliced in, 22 deterministic + 25 categorical metrics; data.missing: datasets "
        "with 30-70% missing cells, all-missing slices and inputs, in every field kind (obs, fcst, PIT, stored CDF / "
        "quantile columns, ensemble members, other scores: a missing value in ANY input removes the case for all, "
        "datagen.gen_dataset, see C01; a fifth with -obs / -fcst FIELD); data.missing.text: the same through text files "
        "with every missing token in every column kind; " + mdelete.RULE)
EXHAUSTIVE = {"quick": False, "thorough": False}
LEVEL_TEXT = ("Lean theorems: util.clean maps exactly {masked, NaN, -999, > 1e30} to NaN and keeps everything else; "
              "Text._clean maps exactly {unparseable, -999, NaN} to NaN (both cleaners machine-translated and re-proved "
              "each run); every value get_scores hands on is a finite number or the single-NaN placeholder; a missing "
              "climatology value or a zero divisor invalidates the case; every obs/fcst metric drops a pair with a missing "
              "member and returns NaN for no pairs. Dataset-level deletion invariance: C04_delete_invariance(_many) — inserting any number of cases with a missing value in some requested column leaves what get_scores hands on unchanged (every non-All axis); also decided on the implementation by the coordinate oracle." + mdelete.LEVEL_TEXT)
TECHNIQUE = "Lean 4 proof (cleaners regenerated from source each run) + differential correspondence + metamorphic oracle"
NC = ["m", "nan", "-999", "-1999/2", "0", "5/2", xr(1e30), xr(np.nextafter(1e30, 2e30)), xr(1e31), "inf", "-inf", xr(-1e31)]
TOKENS = ["-999", "-999.0", "-9.99e2", "NA", ".", "nan", "NaN", "inf", "-inf", "abc", "1e3", "1_0", "+5", "0.5", "-999.5", "1e31", "1e30", "9.96921e+36", "-1e31"]
DET = ["mae", "bias", "rmse", "stderror", "corr", "rankcorr", "kendallcorr", "nsec", "nnsec", "kge", "cmae", "dmb",
       "mbias", "ef", "derror", "alphaindex", "diff", "ratio", "obsstddev", "fcststddev"]
CONT = ["ets", "threat", "hit", "far", "fa", "miss", "pc", "hss", "kss", "biasfreq", "or", "lor", "yulesq", "edi", "sedi",
        "eds", "seds", "dscore", "a", "b", "c", "d", "n", "baserate", "fcstrate"]


def gen_ops(tier, rng):
    for _ in range(40 if tier == "quick" else 800):
        yield "clean.nc", "ncclean %s" % ",".join(rng.choice(NC) for _ in range(rng.randint(1, 8)))
    yield "clean.nc", "ncclean %s" % ",".join(NC)
    for _ in range(40 if tier == "quick" else 800):
        yield "clean.text", "textclean %s" % ",".join(rng.choice(TOKENS) for _ in range(rng.randint(1, 8)))
    yield "clean.text", "textclean %s" % ",".join(TOKENS)
    grid = [-1.0, 0.0, 0.5, 1.0, 1.5, 2.0, 3.25]
    for _ in range(150 if tier == "quick" else 3000):
        L = rng.choice([0, 1, 2, 4, 7])
        obs = [rng.choice(grid) for _ in range(L)]
        fcst = [rng.choice(grid) for _ in range(L)]
        k = rng.randint(1, 3)
        pos = sorted(rng.randint(0, L) for _ in range(k))
        kinds = [rng.choice(["o", "f", "of"]) for _ in range(k)]
        m = rng.choice(DET + CONT)
        yield "metric.delete", "mdelete %s %s %s %s %s" % (m, xvec(obs), xvec(fcst), ",".join(map(str, pos)), ",".join(kinds))
    # missing ensemble members / cdf / quantile values (fields derived in Data._get_score): the ops, the real-code
    # runner and the oracle are C08's; only the ones that carry a missing value are taken
    import random as _random
    taken = 0
    for stream, op in c08.gen_ops(tier, _random.Random(rng.randrange(10 ** 9))):
        if stream in ("prob.ensthr", "prob.ensq", "prob.data", "prob.field") and "nan" in op:
            yield "ens.missing", op
            taken += 1
            if taken >= (150 if tier == "quick" else 3000):
                break
    n = 80 if tier == "quick" else 1500
    for k in range(n):
        ds = dg.gen_dataset(rng, missing=rng.choice([0.3, 0.5, 0.7]))
        if k % 5 == 3:
            ds = dg.add_field_options(ds, rng)      # -obs FIELD / -fcst FIELD
        if rng.random() < 0.3:      # one input entirely missing in one field
            I = rng.choice(ds.inputs)
            f = rng.choice(sorted(I["fields"]))
            I["fields"][f] = np.array(I["fields"][f], float) * np.nan
        dims = dg.oracle_dims(ds)
        if dims is None:
            continue
        reqs = dg.all_requests(ds, dims, rng, 20)
        yield "data.missing", dg.enc_op(ds, reqs)
        if k % 3 == 0 and not ds.cfg.get("clim") and not dg.has_repeats(ds):
            # every field kind (obs fcst pit p<t> q<q> e<k>, other scores) with every missing token
            ds2 = dg.DS(ds.inputs, {})
            if all("fcst" in I["fields"] for I in ds2.inputs):
                yield "data.missing.text", dg.enc_op(ds2, reqs[:8], head="datatxt %d" % rng.randrange(10 ** 6))
    import random as _random2
    for x in mdelete.gen_ops(tier, _random2.Random(rng.randrange(10 ** 9))):
        yield x


def _metric(name, obs, fcst):
    import verif.metric
    import verif.interval
    m = verif.metric.get(name)
    with warnings.catch_warnings():
        warnings.simplefilter("ignore")
        if name in CONT:
            s = np.zeros(1)
            s[0] = m.compute_from_obs_fcst(obs, fcst, verif.interval.Interval(1.0, np.inf, False, False))
            return float(s[0])
        return float(m.compute_from_obs_fcst(obs, fcst))


C08_HEADS = ("ensthr", "ensq", "pd", "thrf", "qntf")


def spec_op(op):
    if op.startswith(mdelete.PREFIX):
        return mdelete.spec_op(op)
    if op.split(" ")[0] in C08_HEADS:
        return c08.spec_op(op)
    return None


def impl(op):
    a = op.split(" ")
    if op.startswith(mdelete.PREFIX):
        return mdelete.impl(op)
    if a[0] in C08_HEADS:
        return c08.impl(op)
    if a[0] == "ncclean":
        import verif.util
        toks = a[1].split(",")
        vals = [0.0 if t == "m" else from_xr(t) for t in toks]
        arr = np.ma.masked_array(np.array(vals, float), mask=[t == "m" for t in toks])
        with warnings.catch_warnings():
            warnings.simplefilter("ignore")
            return xvec(verif.util.clean(arr))
    if a[0] == "textclean":
        import verif.input
        return xvec([verif.input.Text._clean(None, t) for t in a[1].split(",")])
    if a[0] == "mdelete":
        obs, fcst = from_xvec(a[2]), from_xvec(a[3])
        pos = [int(p) for p in a[4].split(",")]
        kinds = a[5].split(",")
        o2, f2 = list(obs), list(fcst)
        for p, k in sorted(zip(pos, kinds), reverse=True):
            o2.insert(p, float("nan") if "o" in k else 9.0)
            f2.insert(p, float("nan") if "f" in k else 7.0)
        base = _metric(a[1], np.array(obs, float), np.array(fcst, float))
        plus = _metric(a[1], np.array(o2, float), np.array(f2, float))
        return "same" if num_close(base, plus, 1e-12, 0.0) else "diff[%r vs %r]" % (base, plus)
    if a[0] == "datatxt":
        return dg.impl_text(op)
    return dg.impl_data(op)


def lean_op(op):
    """the model works on tokens already classified by CPython's float() (number or ValueError)"""
    a = op.split(" ")
    if op.startswith(mdelete.PREFIX):
        return mdelete.lean_op(op)
    if a[0] == "textclean":
        out = []
        for t in a[1].split(","):
            try:
                out.append(xr(float(t)))
            except ValueError:
                out.append("bad")
        return "textclean " + ",".join(out)
    if a[0] == "mdelete":
        return "datani - - -"        # constant model reply "same"
    if a[0] in C08_HEADS and hasattr(c08, "lean_op"):
        return c08.lean_op(op)
    return op


def cmp(op, impl_out, model_out):
    if op.startswith(mdelete.PREFIX):
        return mdelete.cmp(op, impl_out, model_out)
    if op.split(" ")[0] in C08_HEADS:
        return c08.cmp(op, impl_out, model_out)
    if op.startswith("mdelete"):
        return True          # implementation-only metamorphic relation (the theorem is C04_pairwise)
    return tokens_close(impl_out, model_out, 1e-9, 1e-12)


def judge(op, impl_out, spec_out):
    a = op.split(" ")
    if op.startswith(mdelete.PREFIX):
        return mdelete.judge(op, impl_out, spec_out)
    if a[0] in C08_HEADS:
        return c08.judge(op, impl_out, spec_out)
    if impl_out.startswith("EXC:"):
        return ({"kind": "exception", "op": a[0]}, "%s raised %s" % (op[:120], impl_out))
    if a[0] == "ncclean":
        for t, got in zip(a[1].split(","), impl_out.split(",")):
            v = float("nan") if t == "m" else from_xr(t)
            miss = t == "m" or math.isnan(v) or v == -999 or v > 1e30
            if miss != (got == "nan") or (not miss and from_xr(got) != v):
                return ({"kind": "clean", "cell": t}, "util.clean(%s) = %s" % (t, got))
        return None
    if a[0] == "textclean":
        for t, got in zip(a[1].split(","), impl_out.split(",")):
            try:
                v = float(t)
                miss = math.isnan(v) or v == -999 or v > 1e30     # the property's list: -999, NaN, non-numeric, > 1e30
            except ValueError:
                v, miss = None, True
            if miss != (got == "nan") or (not miss and from_xr(got) != v):
                return ({"kind": "textclean", "token": t}, "Text._clean(%r) = %s" % (t, got))
        return None
    if a[0] == "mdelete":
        if impl_out != "same":
            return ({"kind": "delete-invariance", "metric": a[1]},
                    "%s changes when cases with a missing member are added: %s" % (a[1], impl_out))
        return None
    if a[0] == "datatxt":
        return c01.judge(" ".join(["data"] + a[2:]), impl_out, spec_out)
    return c01.judge(op, impl_out, spec_out)


def shrink(op):
    return mdelete.shrink(op) if op.startswith(mdelete.PREFIX) else iter(())


def nontrivial(op, out):
    if op.startswith(mdelete.PREFIX):
        return mdelete.nontrivial(op, out)
    if op.startswith("data"):
        return c01.nontrivial(op, out)
    return True
