"""C13 — command-line options mean what the help text says.

Ops
  parse_numbers s=<string> <0|1>                         util.parse_numbers(string, is_date)
  parse_numbers_sub s=<string> <0|1>                     same, run in a subprocess with a 5 s timeout (reply HANG)
  argv F=<valid inputs> C=<cfg~tok|tok;…> A=<tok|tok|…>    verif.driver.run(["verif"] + tokens)
  argvbad <kind> F=… C=… A=…                             same call; <kind> names the documented rejection

The real driver is run in-process in a private temp directory; `verif.data.Data` is replaced by a
recorder that keeps the constructor arguments and returns a stub dataset, the entry points of
`verif.output.Output` (plot/text/csv/map/…) are replaced by a recorder that keeps the attributes
`driver.run` itself assigned on the output object.  Nothing of /repo is edited.
"""
import contextlib
import datetime
import io
import itertools
import os
import sys
import tempfile
import zlib
from fractions import Fraction

import numpy as np
from common import xr

ID = "C13"
TARGETS = ["Proofs.C13", "Proofs.Lemmas.CalendarLite"]
GEN_PREFIXES = ["opt"]
THEOREMS = {
    "Proofs.C13": ["VerifModel.C13." + t for t in [
        "C13_range", "C13_range_default_step", "C13_commas", "C13_dates", "C13_dates_all", "C13_dates_descending",
        "C13_dates_beyond_calendar", "C13_no_traceback", "C13_rejects_date_range", "C13_rejects_malformed_scalar",
        "C13_order_irrelevant", "C13_config_inline", "C13_wiring", "C13_rejects_unknown_flag",
        "C13_rejects_missing_value", "C13_rejects_range_length", "C13_rejects_nonpositive_T",
        "C13_rejects_quantile", "C13_rejects_unknown_axis", "C13_rejects_unknown_aggregator",
        "C13_rejects_bad_file", "C13_rejects_bad_clim", "C13_rejects_missing_config",
        "C13_rejects_vector"]],
    "Proofs.Lemmas.CalendarLite": ["VerifModel.ParseNumbers.CalendarLite.calendar_1900_2100"],
}
TRUSTED_BASE = [
    "Lean 4.33 kernel; axioms propext, Classical.choice, Quot.sound only",
    "Spec/Options.lean: my reading of driver.show_description() (which flag selects which Data(...) argument / "
    "output attribute, with which syntax) and of the vector syntax a:b, a:s:b, commas",
    "harness/translate.py gen_options: extraction of the flag -> local -> parser table, the Data(...) keyword wiring, "
    "the pl.<attr> assignments, the post-loop validations and the name tables from driver.py/axis.py/aggregator.py/"
    "field.py (validated each run by stream cli.parse: the model interprets the regenerated tables and is compared "
    "with the real driver on every generated command line)",
    "hand-written model: control structure of the argument loop, --config pre-pass, the parsers (float()/int() on "
    "decimal strings, parse_numbers, get_date), order of the early returns — tied by the correspondence streams",
    "string lexing (split at , and :, float syntax) is executable model code tied by the exhaustive pn.* streams; "
    "the theorems start from the lexed fields",
    "np.arange length = ceil((stop-start)/step) and np.round(.,7) on doubles vs exact rationals (identical on the "
    "3-decimal grid, checked exhaustively by pn.grid); Python datetime for the calendar (checked on every boundary "
    "by pn.dates; the model's calendar is proved against the textbook successor on every day 1900-2100)",
    "the recorder stub that replaces verif.data.Data and the Output entry points inside the harness process",
]
ASSUMPTIONS = [
    "vector fields are decimal strings with at most 3 fractional digits (C13_range); outside that grid the 0.0001 "
    "end-point fudge of parse_numbers is visible (e.g. 0:1:0.99995) — documented by the code itself",
    "date ranges: both ends valid civil dates in 1900-2100, whole day steps (positive: d1 <= d2, ascending; "
    "negative: d1 >= d2, descending; any |step| >= 1: when one step beyond the last value that is kept leaves "
    "datetime's years 1-9999 the range is rejected with the error message, C13_dates_beyond_calendar, never a "
    "traceback, C13_no_traceback); a reversed range with a positive step returns the ascending range (outside the documented "
    "grammar, mirrored by the model); a fractional date step and a first date that is not a calendar date are "
    "rejected (C13_rejects_date_range; the former hang is still probed in a subprocess with a 5 s timeout)",
    "order invariance is claimed for command lines in which no two option groups assign the same variable",
    "file names do not start with '-' and tokens are non-empty; config files contain no nested --config",
]
RULE = ("pn.grid: every start,end in {-3..3 step .5} u {.1,.25,.9} x step in +-{.1,.25,.5,1,2} as a:s:b, every a:b, "
        "plus comma mixtures; pn.dates: every month/year/leap boundary of 2011-2013, 1999-2000, 2099-2100 x offsets "
        "x steps {default,1,2,7,30}, and the boundaries of 2012, 2000-03-01, 2100-03-01, 2013-01-01 counted down with steps {-1,-2,-7}; pn.dates.calendar-end: ranges that step outside the years 1-9999 (or stay just inside); pn.malformed: fixed list of malformed strings; cli.parse: command lines drawn "
        "from the documented grammar (1-2 files, a metric, 0-7 distinct data/computation options with documented "
        "values, 0-2 appearance options, random order, 30% with 1-2 --config files); cli.dup: same with a repeated "
        "flag (model correspondence only); cli.bad: one documented rejection per line. An op is non-trivial if the "
        "reply is not ERR/EXC/help/version and (pn) has >= 2 values or (cli) carries >= 1 data/computation option")
EXHAUSTIVE = {"quick": True, "thorough": True}
EXHAUSTIVE_NOTE = ("the decimal grid (pn.grid) and the calendar-boundary set (pn.dates) are enumerated completely in "
                   "both tiers; command lines (cli.*) are sampled")
LEVEL_TEXT = ("Lean theorems over a model that interprets option tables regenerated from driver.py on every run: the "
              "a:s:b syntax denotes exactly the documented inclusive progression on the 3-decimal grid (the 0.0001 "
              "fudge is harmless there), date ranges step by civil days (calendar proved against the textbook "
              "successor for every day 1900-2100), option order and --config placement are irrelevant, every "
              "documented data/computation flag reaches the documented Data(...) argument / output attribute with "
              "the documented parser (decide on the regenerated table), and the documented rejections are errors.")
TECHNIQUE = ("Lean 4 proof over a table-interpreting model; tables regenerated from source (translator); "
             "exhaustive + generated differential correspondence against the real driver with a recording stub; "
             "independent documented-semantics oracle and metamorphic relations on the real driver")

VALID = ["fa.txt", "fb.txt", "clim.txt"]
FPART = "F=" + "|".join(VALID)

# ----------------------------------------------------------------------------------------------
# documented option grammar (from driver.show_description()); used by the generator and the oracle,
# never by the model
# ----------------------------------------------------------------------------------------------
# flag -> (where, target, syntax)
DOC = {
    "-d": ("data", "dates", "dates"), "-elevrange": ("data", "elev_range", "range2"),
    "-l": ("data", "locations", "numbers"), "-lx": ("data", "locations_x", "numbers"),
    "-latrange": ("data", "lat_range", "range2"), "-lonrange": ("data", "lon_range", "range2"),
    "-o": ("data", "leadtimes", "numbers"), "-obsrange": ("data", "obs_range", "range2"),
    "-t": ("data", "times", "numbers"), "-tod": ("data", "tods", "ints"),
    "-c": ("data", "clim", "file"), "-C": ("data", "clim", "file"),
    "-obs": ("data", "obs_field", "field"), "-fcst": ("data", "fcst_field", "field"),
    "-T": ("data", "dim_agg_length", "posint"), "-Tagg": ("data", "dim_agg_method", "agg"),
    "-Tx": ("data", "dim_agg_axis", "axis"), "-leg": ("data", "legend", "legend"),
    "-r": ("out", "thresholds", "numbers"), "-q": ("out", "quantiles", "unit"),
    "-x": ("out", "axis", "axis"), "-agg": ("out", "aggregator", "agg"), "-b": ("out", "bin_type", "str"),
    "-acc": ("out", "show_acc", "flag"),
    "-m": ("ctl", "metric", "str"), "-hist": ("ctl", "hist", "flag"), "-sort": ("ctl", "sort", "flag"),
    "-type": ("ctl", "type", "str"),
    "--list-times": ("ctl", "list", "flag"), "--list-dates": ("ctl", "list", "flag"),
    "--list-locations": ("ctl", "list", "flag"), "--list-quantiles": ("ctl", "list", "flag"),
    "--list-thresholds": ("ctl", "list", "flag"), "--version": ("ctl", "version", "flag"),
    "--help": ("ctl", "help", "flag"),
}
# plotting options (C17's subject): only their arity matters here
APPEAR1 = ["-af", "-afs", "-aspect", "-bottom", "-clabel", "-clim", "-cmap", "-dpi", "-gc", "-gs", "-gw", "-f", "-fs",
           "-labfs", "-lc", "-left", "-legfs", "-legloc", "-ls", "-lw", "-maptype", "-ma", "-ms", "-obsleg", "-right",
           "-tickfs", "-title", "-titlefs", "-top", "-xlabel", "-xlim", "-xrot", "-xticks", "-xticklabels",
           "-ylabel", "-ylim", "-yrot", "-yticks", "-yticklabels", "-pad"]
APPEAR0 = ["-a", "-nogrid", "-nomargin", "-simple", "-sp", "-xlog", "-ylog"]
DATA_KEYS = ["clim", "clim_type", "times", "dates", "tods", "leadtimes", "locations", "locations_x", "lat_range",
             "lon_range", "elev_range", "obs_range", "legend", "obs_field", "fcst_field", "dim_agg_length",
             "dim_agg_axis", "dim_agg_method"]
OUT_KEYS = ["axis", "aggregator", "thresholds", "quantiles", "bin_type", "show_acc"]
DOC_AXES = ["time", "leadtime", "year", "month", "week", "day", "timeofday", "dayofyear", "monthofyear", "location",
            "elev", "lat", "lon", "threshold", "leadtimeday", "no"]
DOC_AGGS = ["mean", "median", "min", "max", "std", "variance", "iqr", "range", "count", "sum", "meanabs", "absmean",
            "change", "abschange"]
DOC_BINS = ["below", "below=", "above", "above=", "within", "=within", "within=", "=within="]
DOC_ENTRY = {"plot": "plot", "text": "text", "csv": "csv", "map": "map", "rank": "plot_rank", "maprank": "map",
             "impact": "plot_impact", "mapimpact": "plot_mapimpact"}
SPECIAL = {"obsfcst": "ObsFcst", "qq": "QQ", "scatter": "Scatter", "pithist": "PitHist", "reliability": "Reliability",
           "taylor": "Taylor", "error": "Error", "freq": "Freq", "roc": "Roc", "cond": "Cond", "meteo": "Meteo",
           "timeseries": "TimeSeries", "performance": "Performance", "marginal": "Marginal"}
STD_METRICS = ["mae", "rmse", "bias", "corr", "ets", "hit", "stderror"]
FIELD_METRICS = ["obs", "fcst", "temperature"]


def arity(flag):
    if flag in DOC:
        return 0 if DOC[flag][2] == "flag" else 1
    if flag in APPEAR0:
        return 0
    if flag in APPEAR1 or flag == "--config":
        return 1
    return None


def dec(x):
    """Fraction -> shortest decimal string"""
    x = Fraction(x)
    s = "-" if x < 0 else ""
    x = abs(x)
    n = 0
    while (x * 10 ** n).denominator != 1:
        n += 1
    v = str((x * 10 ** n).numerator).rjust(n + 1, "0")
    return s + (v[:-n] + "." + v[-n:] if n else v)


# -------------------------------------------------------------- documented vector syntax (oracle)
def doc_float(w):
    import re
    if not re.fullmatch(r"-?(\d+\.?\d*|\.\d+)", w):
        return None
    return Fraction(w)


def doc_numbers(s):
    """the documented meaning: commas concatenate, a:b = a, a+1, … up to and including b,
    a:s:b = a, a+s, … up to and including b.  None = not in the documented syntax."""
    out = []
    for part in s.split(","):
        f = part.split(":")
        v = [doc_float(w) for w in f]
        if any(x is None for x in v) or len(v) > 3:
            return None
        if len(v) == 1:
            out.append(v[0])
            continue
        a, b = v[0], v[-1]
        st = v[1] if len(v) == 3 else Fraction(1)
        if st == 0:
            return None
        x = a
        while (x <= b) if st > 0 else (x >= b):
            out.append(x)
            x += st
    return out


def _civil(n):
    n = int(n)
    try:
        return datetime.date(n // 10000, n // 100 % 100, n % 100)
    except (ValueError, OverflowError):
        return None


def doc_dates(s):
    """documented: YYYYMMDD values; d1:d2 every calendar day, d1:k:d2 every k-th calendar day.
    Returns a list of ints, None (= must be rejected) or "undefined" (documentation silent; that includes a
    progression that steps outside the years 1-9999, the only calendar verif knows: an answer or the error
    message, never a traceback)."""
    out = []
    for part in s.split(","):
        f = part.split(":")
        v = [doc_float(w) for w in f]
        if any(x is None for x in v) or len(v) > 3:
            return None
        if any(x.denominator != 1 for x in v):
            return "undefined"
        if len(v) == 1:
            out.append(int(v[0]))
            continue
        st = int(v[1]) if len(v) == 3 else 1
        if st == 0:
            return None
        d1, d2 = _civil(v[0]), _civil(v[-1])
        if d1 is None or d2 is None:
            return "undefined"
        if st < 0:
            if d1 < d2:
                return "undefined"
            d = d1
            while d >= d2:
                out.append(int(d.strftime("%Y%m%d")))
                try:
                    d += datetime.timedelta(days=st)
                except OverflowError:
                    return "undefined"
            continue
        if d1 > d2:
            return "undefined"
        d = d1
        while d <= d2:
            out.append(int(d.strftime("%Y%m%d")))
            try:
                d += datetime.timedelta(days=st)
            except OverflowError:
                return "undefined"
    return out


def show_nums(v):
    v = list(v)
    return ",".join(xr(Fraction(x)) for x in v) if v else "[]"


# ----------------------------------------------------------------------------------------------
# generators
# ----------------------------------------------------------------------------------------------
GRID = [Fraction(k, 2) for k in range(-6, 7)] + [Fraction(1, 10), Fraction(1, 4), Fraction(9, 10)]
STEPS = [Fraction(1, 10), Fraction(1, 4), Fraction(1, 2), Fraction(1), Fraction(2)]
MALFORMED = ["1.2.3", "1-2", "1::2", "a:b", "", "1,", ",1", "1,,2", ":", "1:", ":1", "1:2:", "1:2:3:4", "1:0:3",
             "-", "--1", ".", "-.", "1e3", "1 2", "1;2", "1:a:3", "3:5:x", "1.2.3:4", "1:2.3.4:5", "1:2:3-4", "1_0",
             "+1", "0x10", "nan", "inf", "1/2", "(1,2)", "1:2,3::4", "1.2.3,1::2", "1::2,1.2.3"]


def _boundaries():
    out = []
    for y in (2011, 2012, 2013, 1999, 2000, 2099, 2100):
        for m in range(1, 13):
            out.append(datetime.date(y, m, 1))
    out.append(datetime.date(2014, 1, 1))
    out.append(datetime.date(2001, 1, 1))
    out.append(datetime.date(2101, 1, 1))
    return out


def ymd(d):
    return d.strftime("%Y%m%d")


def gen_pn(tier, rng):
    for a in GRID:
        for b in GRID:
            yield "pn.grid", "parse_numbers s=%s:%s 0" % (dec(a), dec(b))
            for s in STEPS:
                for sg in (1, -1):
                    yield "pn.grid", "parse_numbers s=%s:%s:%s 0" % (dec(a), dec(sg * s), dec(b))
    parts = ["3", "-1.5", "0.25", "4:6", "2:5:9", "0:0.1:0.5", "3:-1:1", "5:3", "0.9:-0.25:0.1", "-3:2:3"]
    for p, q in itertools.product(parts, parts):
        yield "pn.grid.commas", "parse_numbers s=%s,%s 0" % (p, q)
    for p, q, r in itertools.product(parts[:5], parts[3:8], parts[:3]):
        yield "pn.grid.commas", "parse_numbers s=%s,%s,%s 0" % (p, q, r)
    for s in ["3,4:6,2:5:9,6", "1", "1.", ".5", "-.5", "007", "1.500", "0:0.001:0.01", "1000:1000:5000"]:
        yield "pn.grid.commas", "parse_numbers s=%s 0" % s
    # dates
    one = datetime.timedelta(days=1)
    for B in _boundaries():
        for back in (1, 2, 3, 31):
            for fwd in (0, 1, 2, 29):
                d1, d2 = B - back * one, B + fwd * one
                yield "pn.dates", "parse_numbers s=%s:%s 1" % (ymd(d1), ymd(d2))
                for st in (1, 2, 7, 30):
                    yield "pn.dates", "parse_numbers s=%s:%d:%s 1" % (ymd(d1), st, ymd(d2))
        # counted down (few: before the repair of the date loop each of these walked back to year 1)
        if B.year == 2012 or ymd(B) in ("20000301", "21000301", "20130101"):
            for back, fwd, st in ((3, 2, 1), (3, 0, 2), (31, 2, 7)):
                yield "pn.dates", "parse_numbers s=%s:-%d:%s 1" % (ymd(B + fwd * one), st, ymd(B - back * one))
    for y in (1999, 2000, 2011, 2012, 2013, 2099, 2100):
        yield "pn.dates", "parse_numbers s=%d0101:%d1231 1" % (y, y)
        yield "pn.dates", "parse_numbers s=%d0101:7:%d0101 1" % (y, y + 1)
        yield "pn.dates", "parse_numbers s=%d0228,%d0301:%d0303 1" % (y, y, y)
    for s in ["20130101", "20130101,20130105", "20130101:20130101", "20130105:20130101", "20130228:20130230",
              "20130230", "20130230:20130301", "20130100:20130102", "20131301:20131302", "20130101:20130199",
              "20130101:1.5:20130105", "20130105:-1:20130101", "20130105:-2:20121230", "20130301:-1:20130227",
              "20130101:0:20130105", "20130101:20130102:20130103:1", "2013010a", "20130101:", "20130101.5",
              "20130101:-1:20130105", "20130105:-1.5:20130101", "20130105:-0.5:20130101", "20130105.5:-1:20130101",
              "20130301:-1:20130230", "20130230:-1:20130101", "20130100:-1:20121230", "20130301:20130230",
              "20130101:2.0:20130105", "-5:-1:-10", "0:5", "20130105:-3:20130101"]:
        yield "pn.dates.edge", "parse_numbers s=%s 1" % s
    # the date arithmetic leaves datetime's years 1-9999 (one step beyond the last value that is kept, a huge step
    # in either direction, a first date whose year does not fit a C int) or stays just inside
    for s in ["99991230:99991231", "99991231:99991231", "99991225:7:99991231", "99991201:99991210", "99991231",
              "99991201:3:99991229", "99991230:100000105", "100000101:100000102", "1000000000000101:1000000000000102",
              "20130101:9999999999:20130105", "20130101:3000000:20130105", "20130101:2900000:20130105",
              "20130101:-9999999999:20130105", "20130105:-9999999999:20130101", "20130105:-735300:20130101",
              "20130105:-734000:20130101", "00010102:-1:00010101", "00010103:-7:00010101", "00010110:-3:00010105",
              "00010101:00010103", "00010101:-1:00010101", "20130101,99991230:99991231", "99991231:1:99991231"]:
        yield "pn.dates.calendar-end", "parse_numbers s=%s 1" % s
    for s in ["20121231:0.25:20130101", "20130101:1.5:20130105", "20130101:2:20130105", "20130105:-0.5:20130101"]:
        yield "pn.dates.sub", "parse_numbers_sub s=%s 1" % s
    for s in MALFORMED:
        if " " in s:
            continue
        yield "pn.malformed", "parse_numbers s=%s 0" % s
        yield "pn.malformed", "parse_numbers s=%s 1" % s
    n = 300 if tier == "quick" else 6000
    for _ in range(n):
        k = rng.randint(1, 3)
        a = Fraction(rng.randint(-5000, 5000), rng.choice([1, 10, 100, 1000]))
        b = a + Fraction(rng.randint(-3000, 9000), rng.choice([1, 10, 100, 1000]))
        s = Fraction(rng.randint(1, 2500), rng.choice([1, 10, 100, 1000])) * rng.choice([1, 1, 1, -1])
        if abs((b - a) / s) > 400:
            s = s * 50
        yield "pn.random", "parse_numbers s=%s 0" % ":".join([dec(a), dec(s), dec(b)][:k] if k < 3 else
                                                             [dec(a), dec(s), dec(b)])


def _vec(rng):
    return rng.choice(["1,2,3", "0:2:10", "0:0.5:2", "5", "-1:1", "3,4:6,2:5:9,6", "0,6,12", "0:6:48", "10:-2:4",
                       "1.5", "100,200", "0.1:0.1:0.5", "3:3"])


def _val(flag, rng):
    syn = DOC[flag][2]
    if syn == "numbers":
        if flag == "-t":
            return rng.choice(["1325376000", "1325376000,1325462400", "1325376000:86400:1325635200"])
        if flag in ("-l", "-lx"):
            return rng.choice(["3", "3,6", "1:5", "0:2:10", "41,18,3"])
        return _vec(rng)
    if syn == "dates":
        return rng.choice(["20120101", "20120101:20120105", "20111230:2:20120103", "20120101,20120301",
                           "20120227:20120302", "20111231:20120101", "20120101:7:20120301"])
    if syn == "range2":
        a = rng.choice(["-10", "0", "40.5", "-122.3", "100"])
        b = rng.choice(["10", "60", "1000", "-100.25", "55.75"])
        return a + "," + b
    if syn == "ints":
        return rng.choice(["0", "0,12", "0:6:18", "6,18", "0:23"])
    if syn == "file":
        return "clim.txt"
    if syn == "field":
        return rng.choice(["obs", "fcst", "pit", "threshold:1", "threshold:0.5", "quantile:0.5", "quantile:0.9",
                           "temperature", "spread"])
    if syn == "posint":
        return rng.choice(["1", "2", "6", "24"])
    if syn == "agg":
        return rng.choice(DOC_AGGS + ["0.5", "0.25", "1", "0"])
    if syn == "axis":
        if flag == "-Tx":
            return rng.choice(["time", "leadtime"])
        return rng.choice([a for a in DOC_AXES if a != "threshold"])
    if syn == "legend":
        return rng.choice(["A", "A,B", "First_run,Second_run", "Model_1"])
    if syn == "unit":
        return rng.choice(["0.1,0.9", "0:0.25:1", "0.5", "0,1", "0.1:0.2:0.9"])
    if syn == "str":
        if flag == "-b":
            return rng.choice(DOC_BINS)
        if flag == "-type":
            return rng.choice(list(DOC_ENTRY))
    raise ValueError(flag)


def _appearance(rng):
    f = rng.choice(["-title", "-dpi", "-lw", "-xlim", "-nogrid", "-sp", "-legfs", "-ylabel", "-ms", "-f", "-simple",
                    "-legloc", "-xticks", "-ls", "-aspect", "-a"])
    vals = {"-title": "Hello_World", "-dpi": "80", "-lw": "1,2", "-xlim": "0,10", "-legfs": "10", "-ylabel": "Y_axis",
            "-ms": "3,4", "-f": "out.png", "-legloc": "upper_left", "-xticks": "0:2:10", "-ls": "-,--",
            "-aspect": "1.5"}
    return [f] + ([vals[f]] if f in vals else [])


def _cmdline(rng, dup=False):
    """-> (groups, files): groups = list of token lists in documented grammar"""
    nf = rng.choice([1, 1, 1, 2, 2, 0])
    files = ["fa.txt", "fb.txt"][:nf] if rng.random() < 0.8 else ["fb.txt", "fa.txt"][:nf]
    groups = []
    r = rng.random()
    hist = None
    if r < 0.55:
        groups.append(["-m", rng.choice(STD_METRICS)])
    elif r < 0.75:
        groups.append(["-m", rng.choice(sorted(SPECIAL))])
    elif r < 0.9:
        groups.append(["-m", rng.choice(FIELD_METRICS)])
        hist = rng.choice(["-hist", "-sort", None])
        if hist:
            groups.append([hist])
    pool = [f for f in DOC if DOC[f][0] in ("data", "out")]
    k = rng.choice([0, 1, 2, 3, 3, 4, 5, 7])
    chosen = rng.sample(pool, k)
    if "-c" in chosen and "-C" in chosen:
        chosen.remove("-C")
    for f in chosen:
        groups.append([f] if DOC[f][2] == "flag" else [f, _val(f, rng)])
    if rng.random() < 0.25:
        groups.append(["-type", _val("-type", rng)])
    for _ in range(rng.choice([0, 0, 1, 2])):
        g = _appearance(rng)
        if all(g[0] != h[0] for h in groups):
            groups.append(g)
    if rng.random() < 0.06:
        groups.append([rng.choice(["--list-times", "--list-dates", "--list-locations", "--list-quantiles",
                                   "--list-thresholds", "--version", "--help"])])
    if dup and groups:
        g = rng.choice([h for h in groups if h[0] in DOC] or groups)
        groups.append([g[0]] + ([_val(g[0], rng)] if len(g) == 2 and g[0] in DOC and g[0] not in ("-m",) else g[1:]))
    return groups, files


def _layout(rng, groups, files, with_config):
    """random interleaving of files (relative order kept) and option groups; optionally moves groups
    into config files.  -> (argv tokens, configs dict)"""
    groups = list(groups)
    rng.shuffle(groups)
    configs = {}
    inline = groups
    if with_config and groups:
        ncfg = rng.choice([1, 1, 2])
        inline = []
        buckets = [[] for _ in range(ncfg)]
        for g in groups:
            w = rng.randint(0, ncfg)
            (inline if w == ncfg else buckets[w]).append(g)
        for i, b in enumerate(buckets):
            configs["k%d.cfg" % (i + 1)] = [t for g in b for t in g]
            inline.insert(rng.randint(0, len(inline)), ["--config", "k%d.cfg" % (i + 1)])
    items = list(inline)
    pos = sorted(rng.randint(0, len(items)) for _ in files)
    for off, (p, f) in enumerate(zip(pos, files)):
        items.insert(p + off, [f])
    return [t for g in items for t in g], configs


def mkop(kind, toks, configs, badkind=None):
    c = ";".join("%s~%s" % (n, "|".join(t)) for n, t in sorted(configs.items()))
    head = "argv" if badkind is None else "argvbad %s" % badkind
    return "%s %s C=%s A=%s" % (head, FPART, c, "|".join(toks))


def gen_bad(rng):
    base = lambda: rng.choice([["fa.txt", "-m", "mae"], ["-m", "mae", "fa.txt"], ["fa.txt", "fb.txt", "-m", "rmse"]])
    def ins(b, extra):
        b = list(b)
        p = rng.choice([0, len(b)]) if b[0] == "-m" else rng.choice([0, 1, len(b)])
        if b[0] == "-m" and p == 0:
            pass
        return b[:p] + extra + b[p:]
    cases = []
    for f in ["-bogus", "--nonsense", "-M", "-latitude", "-Agg", "--list", "-"]:
        cases.append(("unknown-flag", ins(base(), [f, "1"]), {}))
        cases.append(("unknown-flag", base() + [f], {}))
    for f in ["-m", "-x", "-r", "-q", "-agg", "-b", "-obs", "-fcst", "-c", "-C", "-T", "-Tagg", "-Tx", "-d", "-l",
              "-lx", "-latrange", "-lonrange", "-elevrange", "-obsrange", "-o", "-t", "-tod", "-leg", "-type", "-f"]:
        cases.append(("missing-value", ["fa.txt"] + ([] if f == "-m" else ["-m", "mae"]) + [f], {}))
    for f in ["-l", "-lx", "-o", "-r", "-t", "-tod", "-latrange", "-q", "-d", "-xlim"]:
        for s in ["1.2.3", "1-2", "1::2", "a:b", "1,", "1:0:3", "1:2:3:4", ":", "3,,4", "--1", "."]:
            cases.append(("malformed-vector", ins(base(), [f, s]), {}))
    for f in ["-x", "-Tx"]:
        for s in ["bogus", "Leadtime", "lead", "times", "0.5"]:
            cases.append(("unknown-axis", ins(base(), [f, s]), {}))
    for f in ["-agg", "-Tagg"]:
        for s in ["bogus", "Mean", "average", "1.5", "-0.5", "med"]:
            cases.append(("unknown-aggregator", ins(base(), [f, s]), {}))
    cases.append(("bad-file", ["nofile.txt", "-m", "mae"], {}))
    cases.append(("bad-file", ["fa.txt", "nofile.txt", "-m", "mae"], {}))
    cases.append(("bad-file", ["fa.txt", "-m", "mae", "-c", "nofile.txt"], {}))
    cases.append(("bad-file", ["fa.txt", "-m", "mae", "-C", "nofile.txt"], {}))
    cases.append(("bad-file", ["nofile.txt", "--list-times"], {}))
    cases.append(("bad-config", ["fa.txt", "-m", "mae", "--config", "nocfg.cfg"], {}))
    cases.append(("bad-config", ["fa.txt", "-m", "mae", "--config"], {}))
    for f in ["-latrange", "-lonrange", "-elevrange", "-obsrange"]:
        for s in ["1", "1,2,3", "1:3", "0:10", "5:1", "1,2,3,4"]:
            cases.append(("range-length", ins(base(), [f, s]), {}))
            cases.append(("range-length", ["fa.txt", "-m", "mae", "--config", "k1.cfg"], {"k1.cfg": [f, s]}))
    for s in ["0", "-1", "-24"]:
        cases.append(("nonpositive-T", ins(base(), ["-T", s]), {}))
        cases.append(("nonpositive-T", ["fa.txt", "-m", "mae", "--config", "k1.cfg"], {"k1.cfg": ["-T", s]}))
    for s in ["1.5", "-0.1", "0.5,2", "0:0.5:1.5", "-1:1", "100", "0.1,0.9,1.0001"]:
        cases.append(("quantile-range", ins(base(), ["-q", s]), {}))
    for s in ["x", "1.5", "", "two", "1e1"]:
        if s:
            cases.append(("malformed-scalar", ins(base(), ["-T", s]), {}))
            cases.append(("malformed-scalar", ["fa.txt", "-m", "mae", "--config", "k1.cfg"], {"k1.cfg": ["-T", s]}))
    for f in ["-dpi", "-aspect", "-legfs", "-bottom", "-xrot", "-gw", "-afs"]:
        for s in ["x", "1,2", "1.2.3"] + (["1.5"] if f == "-dpi" else []):
            cases.append(("malformed-scalar", ins(base(), [f, s]), {}))
    cases.append(("list-without-files", ["--list-times"], {}))
    for k, toks, cfg in cases:
        yield "cli.bad", mkop(k, toks, cfg, badkind=k)


def gen_ops(tier, rng):
    for x in gen_pn(tier, rng):
        yield x
    for x in gen_bad(rng):
        yield x
    n = 1200 if tier == "quick" else 12000
    for i in range(n):
        groups, files = _cmdline(rng)
        toks, cfg = _layout(rng, groups, files, rng.random() < 0.3)
        yield "cli.parse", mkop("argv", toks, cfg)
    for i in range(n // 8):
        groups, files = _cmdline(rng, dup=True)
        toks, cfg = _layout(rng, groups, files, rng.random() < 0.3)
        yield "cli.dup", mkop("argv", toks, cfg)


# ----------------------------------------------------------------------------------------------
# running the real code
# ----------------------------------------------------------------------------------------------
_TMP = [None]
FILE_TEXT = """date     leadtime location  lat   lon   altitude  obs   fcst
20120101 0        3         50    10    12    3     6
20120101 6        3         50    10    12    5     7
20120102 0        3         50    10    12    5     6
20120102 6        41        51    11    120   6     4
"""


def tmpdir():
    if _TMP[0] is None:
        d = tempfile.mkdtemp(prefix="verif_c13_")
        for f in VALID:
            with open(os.path.join(d, f), "w") as fh:
                fh.write(FILE_TEXT)
        _TMP[0] = d
        import atexit
        import shutil
        atexit.register(shutil.rmtree, d, True)
    return _TMP[0]


class _StubData(object):
    """what driver.run reads from the dataset before it calls the output's entry point"""

    def __init__(self, inputs):
        self.thresholds = np.array([1.0, 2.0])
        self.quantiles = np.array([0.1, 0.9])
        self.locations = []
        self.times = np.array([1325376000.0])
        self.num_inputs = len(inputs)

    def get_fields(self):
        import verif.field
        return [verif.field.Obs(), verif.field.Fcst()]

    def get_scores(self, *a, **k):
        return np.array([0.0, 1.0])


class Recorder(object):
    def __init__(self):
        self.inputs = None
        self.kwargs = None
        self.pl = None
        self.entry = None
        self.sets = {}


ENTRY_POINTS = ["plot", "text", "csv", "map", "plot_rank", "plot_impact", "plot_mapimpact"]


def call_driver(tokens, configs):
    """runs verif.driver.run(["verif"] + tokens) in the temp dir with the recorders installed.
    -> (status, recorder, stdout)   status: "ok" | "exit:<code>"; other exceptions propagate"""
    import verif.data
    import verif.driver
    import verif.output
    d = tmpdir()
    for n in os.listdir(d):
        if n.endswith(".cfg"):
            os.remove(os.path.join(d, n))
    for n, toks in configs.items():
        with open(os.path.join(d, n), "w") as fh:
            fh.write(" ".join(toks) + "\n")
    rec = Recorder()

    def fake_data(inputs, **kw):
        rec.inputs = list(inputs)
        rec.kwargs = kw
        return _StubData(inputs)

    def hook(self, name, value):
        f = sys._getframe(1)
        if f.f_code.co_name == "run" and f.f_code.co_filename.endswith("driver.py"):
            rec.sets[name] = value
        object.__setattr__(self, name, value)

    def entry(name):
        def f(self, data):
            rec.pl = self
            rec.entry = name
        return f

    saved = {n: verif.output.Output.__dict__.get(n) for n in ENTRY_POINTS}
    saved_data = verif.data.Data
    had_setattr = "__setattr__" in verif.output.Output.__dict__
    old_setattr = verif.output.Output.__dict__.get("__setattr__")
    cwd = os.getcwd()
    buf = io.StringIO()
    status = "ok"
    try:
        os.chdir(d)
        verif.data.Data = fake_data
        verif.output.Output.__setattr__ = hook
        for n in ENTRY_POINTS:
            setattr(verif.output.Output, n, entry(n))
        with contextlib.redirect_stdout(buf), contextlib.redirect_stderr(io.StringIO()):
            try:
                verif.driver.run(["verif"] + list(tokens))
            except SystemExit as e:
                status = "exit:%s" % (e.code,)
    finally:
        os.chdir(cwd)
        verif.data.Data = saved_data
        if had_setattr:
            verif.output.Output.__setattr__ = old_setattr
        else:
            del verif.output.Output.__setattr__
        for n in ENTRY_POINTS:
            if saved[n] is not None:
                setattr(verif.output.Output, n, saved[n])
    return status, rec, buf.getvalue()


def _sstr(s):
    return str(s).replace(" ", "+")


def _num(x):
    if isinstance(x, (int, np.integer)) and not isinstance(x, bool):
        return str(int(x))
    return xr(Fraction(repr(float(x))))


def canon(v):
    import verif.aggregator
    import verif.axis
    import verif.field
    import verif.input
    if v is None:
        return "-"
    if isinstance(v, bool):
        return "1" if v else "0"
    if isinstance(v, str):
        return _sstr(v)
    if isinstance(v, verif.input.Input):
        return os.path.basename(v.fullname)
    if isinstance(v, verif.field.Field):
        if isinstance(v, verif.field.Threshold):
            return "threshold:" + _num(v.threshold)
        if isinstance(v, verif.field.Quantile):
            return "quantile:" + _num(v.quantile)
        if isinstance(v, verif.field.Other):
            return "other:" + _sstr(v._name)
        return type(v).__name__.lower()
    if isinstance(v, verif.axis.Axis):
        return type(v).__name__.lower()
    if isinstance(v, verif.aggregator.Aggregator):
        if isinstance(v, verif.aggregator.Quantile):
            return "quantile:" + _num(v.quantile)
        return v.name()
    if isinstance(v, (list, tuple, np.ndarray)):
        v = list(v)
        if not v:
            return "[]"
        if all(isinstance(x, str) for x in v):
            return ",".join(_sstr(x) for x in v)
        return ",".join(_num(x) for x in v)
    if isinstance(v, (int, float, np.integer, np.floating)):
        return _num(v)
    return "?" + type(v).__name__


def describe(status, rec, out):
    if status != "ok":
        return "ERR" if status not in ("exit:0", "exit:None") else "EXIT0"
    if rec.kwargs is None:
        return "version" if out.startswith("Version:") else "help"
    data = "files=" + ",".join(os.path.basename(i.fullname) for i in rec.inputs)
    data += ";" + ";".join("%s=%s" % (k, canon(v)) for k, v in rec.kwargs.items())
    if rec.pl is None:
        return ("help " if "usage: verif" in out else "list ") + data
    import verif.metric
    import verif.output
    pl = rec.pl
    cls = type(pl).__name__
    if isinstance(pl, verif.output.Standard):
        m = pl._metric
        if type(m) is verif.metric.FromField:
            f = canon(m._field)
            cls += ":" + (f[6:] if f.startswith("other:") else f)
        else:
            cls += ":" + type(m).__name__.lower()
    elif isinstance(pl, (verif.output.Hist, verif.output.Sort)):
        f = canon(pl._field)
        cls += ":" + (f[6:] if f.startswith("other:") else f)
    attrs = []
    for k in OUT_KEYS:
        if k in ("thresholds", "quantiles") and ("Missing '-%s" % ("r" if k == "thresholds" else "q")) in out \
                and k in rec.sets:
            attrs.append("%s=auto" % k)
        elif k == "show_acc" and "does not support -acc" in out:
            attrs.append("%s=ign" % k)
        elif k == "axis" and "Ignoring it" in out:
            attrs.append("%s=ign" % k)
        elif k in rec.sets:
            v = rec.sets[k]
            attrs.append("%s=%s" % (k, "1" if v is True else canon(v)))
        else:
            attrs.append("%s=-" % k)
    return "run %s out=%s;entry=%s;%s" % (data, cls, rec.entry, ";".join(attrs))


def parse_op(op):
    a = op.split(" ")
    if a[0] == "argvbad":
        kind, a = a[1], [a[0]] + a[2:]
    else:
        kind = None
    configs = {}
    for e in [x for x in a[2][2:].split(";") if x]:
        n, _, t = e.partition("~")
        configs[n] = [x for x in t.split("|") if x]
    toks = [x for x in a[3][2:].split("|") if x]
    return kind, toks, configs


def run_cli(toks, configs):
    status, rec, out = call_driver(toks, configs)
    return describe(status, rec, out)


SUB_TIMEOUT = 5
_SUB_CODE = """
import sys
from fractions import Fraction
import verif.util
try:
    r = verif.util.parse_numbers(sys.argv[1], sys.argv[2] == "1")
except SystemExit as e:
    sys.stdout = sys.__stdout__
    print("@@ERR" if e.code not in (0, None) else "@@EXIT0")
    raise SystemExit(0)
except Exception as e:
    print("@@EXC:" + type(e).__name__)
    raise SystemExit(0)
print("@@" + ",".join("%d/%d" % Fraction(repr(float(x))).as_integer_ratio() if not isinstance(x, int)
                      else "%d/1" % x for x in r))
"""


def impl_sub(s, is_date):
    """parse_numbers in a child process; a call that does not return within SUB_TIMEOUT seconds is HANG"""
    import subprocess
    from common import PY, REPO
    env = dict(os.environ, PYTHONPATH=REPO + os.pathsep + os.environ.get("PYTHONPATH", ""))
    try:
        p = subprocess.run([PY, "-c", _SUB_CODE, s, "1" if is_date else "0"], capture_output=True, text=True,
                           timeout=SUB_TIMEOUT, env=env)
    except subprocess.TimeoutExpired:
        return "HANG"
    for line in p.stdout.splitlines():
        if line.startswith("@@"):
            r = line[2:]
            if r.startswith("E"):
                return r
            return show_nums(Fraction(x) for x in r.split(",")) if r else "[]"
    return "EXC:subprocess"


def impl(op):
    import verif.util
    a = op.split(" ")
    if a[0] == "parse_numbers_sub":
        return impl_sub(a[1][2:], a[2] == "1")
    if a[0] == "parse_numbers":
        with contextlib.redirect_stdout(io.StringIO()):
            try:
                r = verif.util.parse_numbers(a[1][2:], a[2] == "1")
            except SystemExit as e:
                return "ERR" if e.code not in (0, None) else "EXIT0"
        return show_nums(Fraction(repr(float(x))) if not isinstance(x, int) else x for x in r)
    if a[0] in ("argv", "argvbad"):
        _, toks, configs = parse_op(op)
        return run_cli(toks, configs)
    raise ValueError(op)


# ----------------------------------------------------------------------------------------------
# comparison with the model (wildcards: defaults the model does not compute)
# ----------------------------------------------------------------------------------------------
def _fields(line):
    head, _, rest = line.partition(" ")
    d = {"stage": head}
    for part in rest.replace(" ", ";").split(";"):
        k, _, v = part.partition("=")
        d[k] = v
    return d


def same(a, b):
    """a = implementation line, b = model/oracle line"""
    if a == b:
        return True, None
    if " " not in a or " " not in b:
        return False, "stage"
    fa, fb = _fields(a), _fields(b)
    for k in list(fa) + [k for k in fb if k not in fa]:
        x, y = fa.get(k), fb.get(k)
        if x == y:
            continue
        if x in ("auto", "ign"):
            continue
        return False, k
    return True, None


def cmp(op, impl_out, model_out):
    return same(impl_out, model_out)[0]


# ----------------------------------------------------------------------------------------------
# the documented meaning of a command line, evaluated independently of model and code
# ----------------------------------------------------------------------------------------------
def split_groups(toks):
    """documented grammar -> (items, ok): items = ('file', name) | ('opt', flag, value|None)"""
    items = []
    i = 0
    while i < len(toks):
        t = toks[i]
        if not t.startswith("-"):
            items.append(("file", t))
            i += 1
            continue
        ar = arity(t)
        if ar is None:
            return items, "unknown-flag"
        if ar == 0:
            items.append(("opt", t, None))
            i += 1
        else:
            if i + 1 >= len(toks):
                return items, "missing-value"
            items.append(("opt", t, toks[i + 1]))
            i += 2
    return items, None


def doc_value(flag, val):
    """-> canonical string, None (must be rejected) or 'undefined'"""
    syn = DOC[flag][2]
    if syn in ("numbers", "range2", "unit", "ints"):
        v = doc_numbers(val)
        if v is None:
            return None
        if syn == "range2" and len(v) != 2:
            return None
        if syn == "unit" and (not v or min(v) < 0 or max(v) > 1):
            return None if v else "undefined"
        if syn == "ints":
            if any(x.denominator != 1 for x in v):
                return "undefined"
        return show_nums(v)
    if syn == "dates":
        v = doc_dates(val)
        return v if v is None or v == "undefined" else show_nums(v)
    if syn == "file":
        return val if val in VALID else None
    if syn == "field":
        if val in ("obs", "fcst", "pit"):
            return val
        for p in ("threshold:", "quantile:"):
            if val.startswith(p):
                q = doc_float(val[len(p):])
                return "undefined" if q is None else p + xr(q)
        if val in ("spread", "ensemble", "field", "other", "quantile", "threshold"):
            return "undefined"
        return "other:" + val
    if syn == "posint":
        import re
        if not re.fullmatch(r"[-+]?\d+", val):
            return None
        return None if int(val) <= 0 else str(int(val))
    if syn == "agg":
        if val in DOC_AGGS:
            return val
        q = doc_float(val)
        if q is None or q < 0 or q > 1:
            return None
        return "quantile:" + xr(q)
    if syn == "axis":
        if flag == "-Tx":
            return val if val in ("time", "leadtime") else ("undefined" if val in DOC_AXES else None)
        return val if val in DOC_AXES else ("undefined" if val in ("obs", "fcst", "all", "dayofmonth", "axis") else None)
    if syn == "legend":
        return ",".join(x.replace("_", "+") for x in val.split(","))
    if syn == "str":
        return val.replace(" ", "+")
    return "undefined"


def doc_eval(toks, configs):
    """-> expected canonical line, or None when the documentation does not determine it"""
    # --config file: "Read further arguments from this file."
    full = []
    i = 0
    while i < len(toks):
        if toks[i] == "--config":
            if i + 1 >= len(toks) or toks[i + 1] not in configs:
                return "ERR"
            full += configs[toks[i + 1]]
            i += 2
        else:
            full.append(toks[i])
            i += 1
    items, bad = split_groups(full)
    if bad:
        return "ERR"
    flags = [it[1] for it in items if it[0] == "opt"]
    if len(set(flags)) != len(flags) or ("-c" in flags and "-C" in flags):
        return None
    files = [it[1] for it in items if it[0] == "file"]
    opts = {it[1]: it[2] for it in items if it[0] == "opt"}
    vals = {}
    reject = False
    for f, v in opts.items():
        if f in DOC and DOC[f][2] != "flag":
            r = doc_value(f, v)
            if r == "undefined":
                return None
            if r is None:
                reject = True
            vals[f] = r
    if "--version" in opts:
        return None if reject else "version"
    if reject or any(f not in VALID for f in files):
        return "ERR"
    listing = [f for f in opts if f.startswith("--list-")]
    data = {k: "-" for k in DATA_KEYS}
    data.update({"clim_type": "subtract", "obs_field": "obs", "fcst_field": "fcst", "dim_agg_axis": "leadtime",
                 "dim_agg_method": "mean"})
    for f, v in vals.items():
        where, target, _ = DOC[f]
        if where == "data":
            data[target] = v
            if f in ("-c", "-C"):
                data["clim_type"] = "subtract" if f == "-c" else "divide"
    dline = "files=" + ",".join(files) + ";" + ";".join("%s=%s" % (k, data[k]) for k in DATA_KEYS)
    if listing:
        return "ERR" if not files else "list " + dline
    if not files:
        return "help"
    if "-m" not in opts or "--help" in opts:
        return "help " + dline
    m = opts["-m"]
    ptype = opts.get("-type", "plot")
    if ptype not in DOC_ENTRY:
        return None
    if any(f in opts for f in ("-fs", "-maptype", "-lc")):
        return None
    if m in SPECIAL:
        cls = SPECIAL[m]
    elif m in STD_METRICS or m in FIELD_METRICS:
        cls = ("Sort" if "-sort" in opts else "Hist" if "-hist" in opts else "Standard") + ":" + m
        if "-sort" in opts and "-hist" in opts:
            return None
    else:
        return None
    out = {k: "-" for k in OUT_KEYS}
    for f, v in vals.items():
        if DOC[f][0] == "out":
            out[DOC[f][1]] = v
    if "-acc" in opts:
        out["show_acc"] = "1"
    return "run %s out=%s;entry=%s;%s" % (dline, cls, DOC_ENTRY[ptype], ";".join("%s=%s" % (k, out[k]) for k in OUT_KEYS))


def _shuffled(toks, seed):
    """option groups permuted, relative order of file names kept (documented grammar)"""
    import random
    items, bad = split_groups(toks)
    if bad:
        return None
    r = random.Random(seed)
    files = [it for it in items if it[0] == "file"]
    opts = [it for it in items if it[0] == "opt"]
    r.shuffle(opts)
    seq = list(opts)
    for off, (p, f) in enumerate(zip(sorted(r.randint(0, len(seq)) for _ in files), files)):
        seq.insert(p + off, f)
    out = []
    for it in seq:
        out += [it[1]] if it[0] == "file" else ([it[1]] if it[2] is None else [it[1], it[2]])
    return out


def judge(op, impl_out, spec_out):
    a = op.split(" ")
    if a[0] in ("parse_numbers", "parse_numbers_sub"):
        s, is_date = a[1][2:], a[2] == "1"
        if impl_out == "HANG":
            return ({"kind": "date-fractional-step-hang", "site": "parse_dates"},
                    "parse_numbers(%r, is_date=%s) does not return within %d s" % (s, is_date, SUB_TIMEOUT))
        want = doc_dates(s) if is_date else doc_numbers(s)
        if any(c not in "-0123456789.:," for c in s):
            want = None
        if want == "undefined":
            if impl_out.startswith("EXC:"):
                return ({"kind": "undocumented-raises", "exc": impl_out[4:], "site": "parse_dates"},
                        "parse_numbers(%r, is_date=True) raises %s" % (s, impl_out[4:]))
            return None
        if want is None:
            if impl_out == "ERR":
                return None
            if impl_out.startswith("EXC:"):
                return ({"kind": "malformed-raises", "exc": impl_out[4:], "site": "parse_numbers"},
                        "parse_numbers(%r) raises %s instead of an error message" % (s, impl_out[4:]))
            return ({"kind": "malformed-accepted", "site": "parse_numbers"},
                    "parse_numbers(%r) accepted a malformed string: %s" % (s, impl_out))
        exp = show_nums(want)
        if impl_out.startswith("EXC:") and is_date and ":-" in s:
            return ({"kind": "date-negative-step", "exc": impl_out[4:], "site": "parse_dates"},
                    "parse_numbers(%r, is_date=True) raises %s; documented a:step:b gives %s" % (s, impl_out[4:], exp))
        if impl_out != exp:
            return ({"kind": "vector-syntax", "site": "parse_dates" if is_date else "parse_numbers"},
                    "parse_numbers(%r, %s) = %s, documented meaning %s" % (s, is_date, impl_out, exp))
        return None
    kind, toks, configs = parse_op(op)
    line = " ".join(["verif"] + toks) + ("".join("  [%s: %s]" % (n, " ".join(t)) for n, t in sorted(configs.items())))
    if kind is not None:
        if impl_out == "ERR":
            return None
        site = {"malformed-vector": "parse_numbers", "malformed-scalar": "scalar-option"}.get(kind, kind)
        if impl_out.startswith("EXC:"):
            return ({"kind": "malformed-raises", "exc": impl_out[4:], "site": site},
                    "`%s` (%s) ends in an unhandled %s instead of an error message" % (line, kind, impl_out[4:]))
        return ({"kind": "not-rejected", "site": site},
                "`%s` (%s) is not rejected: %s" % (line, kind, impl_out[:200]))
    if impl_out.startswith("EXC:"):
        return ({"kind": "exception", "exc": impl_out[4:]}, "`%s` raises %s" % (line, impl_out[4:]))
    want = doc_eval(toks, configs)
    if want is not None:
        ok, key = same(impl_out, want)
        if not ok:
            return ({"kind": "wiring", "key": key},
                    "`%s`: %s differs from the documented meaning\n  got      %s\n  expected %s" %
                    (line, key, impl_out, want))
    items, bad = split_groups([t for t in toks])
    flags = [it[1] for it in items if it[0] == "opt"]
    allflags = flags + [it[1] for n in configs for it in split_groups(configs[n])[0] if it[0] == "opt"]
    distinct = len(set(allflags)) == len(allflags) and not ("-c" in allflags and "-C" in allflags) and not bad
    if distinct and not impl_out.startswith("E"):
        seed = zlib.crc32(op.encode())
        # metamorphic 1: option order is irrelevant
        alt = _shuffled(toks, seed)
        if alt is not None:
            try:
                got = run_cli(alt, configs)
            except Exception as e:
                got = "EXC:" + type(e).__name__
            if not same(got, impl_out)[0] or not same(impl_out, got)[0]:
                return ({"kind": "order"}, "option order matters:\n  `%s` -> %s\n  `%s` -> %s" %
                        (line, impl_out, " ".join(["verif"] + alt), got))
        # metamorphic 2: arguments read through --config act as if given inline
        flat = lambda its: [t for it in its for t in ([it[1]] if it[0] == "file" or it[2] is None else [it[1], it[2]])]
        if configs:
            ctoks, ccfg = toks, configs
            inl, i = [], 0
            while i < len(toks):
                if toks[i] == "--config" and i + 1 < len(toks):
                    inl += configs.get(toks[i + 1], [])
                    i += 2
                else:
                    inl.append(toks[i])
                    i += 1
            got_cfg = impl_out
        else:
            # move the trailing half of the option groups into a config file
            k = len(items) // 2
            inl = toks
            tail = [it for it in items[k:] if it[0] == "opt"]
            keep = [it for it in items[k:] if it[0] == "file"]
            ctoks, ccfg = flat(items[:k]) + ["--config", "m.cfg"] + flat(keep), {"m.cfg": flat(tail)}
            got_cfg = None
        try:
            got_inline = run_cli(inl, {}) if configs else impl_out
            if got_cfg is None:
                got_cfg = run_cli(ctoks, ccfg)
        except Exception as e:
            got_inline, got_cfg = "EXC:" + type(e).__name__, got_cfg or impl_out
        if not same(got_cfg, got_inline)[0] or not same(got_inline, got_cfg)[0]:
            return ({"kind": "config-inline"},
                    "--config differs from inline:\n  `%s` %s -> %s\n  `%s` -> %s" %
                    (" ".join(["verif"] + ctoks), ccfg, got_cfg, " ".join(["verif"] + inl), got_inline))
    return None


def nontrivial(op, out):
    if out.startswith("E") or out in ("help", "version"):
        return False
    if op.startswith("parse_numbers"):
        return out.count(",") >= 1 and out != "HANG"
    _, toks, configs = parse_op(op)
    alltoks = toks + [t for c in configs.values() for t in c]
    return any(t in DOC and DOC[t][0] in ("data", "out") for t in alltoks)


def shrink(op):
    if not op.startswith("argv "):
        return
    _, toks, configs = parse_op(op)
    items, bad = split_groups(toks)
    if bad or configs:
        return
    flat = lambda its: [t for it in its for t in ([it[1]] if it[0] == "file" or it[2] is None else [it[1], it[2]])]
    base = [it for it in items if it[0] == "file" or it[1] == "-m"]
    for k in range(len(items)):            # smallest first: files, -m and one option group
        if items[k][0] == "opt" and items[k][1] != "-m":
            yield mkop("argv", flat(base + [items[k]]), {})
    for k in range(len(items)):
        if items[k][0] == "opt" and items[k][1] != "-m":
            yield mkop("argv", flat(items[:k] + items[k + 1:]), {})


def extra_evidence(rows):
    flags = {}
    stages = {}
    for r in rows:
        if r["op"].startswith("argv"):
            _, toks, configs = parse_op(r["op"])
            for t in toks + [t for c in configs.values() for t in c]:
                if t.startswith("-") and arity(t) is not None:
                    flags[t] = flags.get(t, 0) + 1
            st = r["impl"].split(" ")[0]
            stages[st] = stages.get(st, 0) + 1
    return {"input_distribution": {"flag_counts": flags, "cli_outcomes": stages,
                                   "with_config": sum(1 for r in rows if "--config" in r["op"])}}
