"""C13 — command-line options mean what the help text says.

Ops
  parse_numbers s=<string> <0|1>                         util.parse_numbers(string, is_date)
  parse_numbers_sub s=<string> <0|1>                     same, run in a subprocess with a 5 s timeout (reply HANG)
  argv F=<valid inputs> C=<cfg~tok|tok;…> A=<tok|tok|…> [D=<obs>;<fcst>;<thresholds>;<quantiles>;<fields>] [B=<name>:<class>|…]
                                                         verif.driver.run(["verif"] + tokens)
  argvbad <kind> F=… C=… A=… [D=…] [B=…]                 same call; <kind> names the documented rejection
                                                         (bad-file:<class> = an input file of that class)
  clilist <flags> T=<times> L=<id:lat:lon:elev;…> R=<thresholds> Q=<quantiles> S=<scenario json>
                                                         the REAL driver with the REAL Data on generated text files,
                                                         --list-* options; reply = the escaped standard output

argv / argvbad: the real driver is run in-process in a private temp directory; `verif.data.Data` is replaced by a
recorder that keeps the constructor arguments and returns a stub dataset (whose content is the D= token: obs and
fcst values, stored thresholds and quantiles, which of obs / fcst the files have), the entry points of
`verif.output.Output` (plot/text/csv/map/…) are replaced by a recorder that keeps the attributes `driver.run`
itself assigned on the output object — for ops with D= including the VALUES of pl.thresholds / pl.quantiles.
With B= (classified input files: empty, garbage, header only, a .nc name holding text, …) the REAL Data is kept.
In C=, `^` between `|`-separated tokens is a line break of the config file; blanks, tabs, leading and trailing
blanks are chosen by `cfg_text` from the tokens.
clilist: T, L, R, Q are the verified dimensions of the Data object the real run built (captured by wrapping
`Data.__init__`); the Lean model formats them, the reply of the real run is compared byte for byte; the oracle
recomputes the verified dimensions from the generated rows and the subset options and formats them itself.
Nothing of /repo is edited.
"""
import contextlib
import datetime
import io
import itertools
import os
import sys
import tempfile
import zlib
from fractions import Fraction

import numpy as np
from common import xr, xvec, from_xvec, tokens_close

ID = "C13"
TARGETS = ["Proofs.C13", "Proofs.C13List", "Proofs.C13Defaults", "Proofs.Lemmas.CalendarLite"]
GEN_PREFIXES = ["opt"]
THEOREMS = {
    "Proofs.C13": ["VerifModel.C13." + t for t in [
        "C13_range", "C13_range_default_step", "C13_commas", "C13_dates", "C13_dates_all", "C13_dates_descending",
        "C13_dates_beyond_calendar", "C13_no_traceback", "C13_rejects_date_range", "C13_rejects_malformed_scalar",
        "C13_order_irrelevant", "C13_config_inline", "C13_wiring", "C13_rejects_unknown_flag",
        "C13_rejects_missing_value", "C13_rejects_range_length", "C13_rejects_unknown_bin", "C13_rejects_nonpositive_T",
        "C13_rejects_quantile", "C13_rejects_unknown_axis", "C13_rejects_unknown_aggregator",
        "C13_rejects_bad_file", "C13_rejects_bad_clim", "C13_rejects_missing_config",
        "C13_rejects_vector", "C13_rejects_bad_class", "C13_config_lines", "configTokens_join",
        "splitLines_tokens"]],
    "Proofs.C13List": ["VerifModel.C13." + t for t in [
        "C13_list_times", "C13_date_line", "readDate_dateLine", "C13_list_dates", "fixedF_sound", "truncZ_int",
        "readInt_intChars", "C13_list_locations", "C13_list_thresholds", "C13_list_order"]],
    "Proofs.C13Defaults": ["VerifModel.C13." + t for t in [
        "C13_default_thresholds", "C13_data_thresholds", "C13_quantile_count"]],
    "Proofs.Lemmas.CalendarLite": ["VerifModel.ParseNumbers.CalendarLite.calendar_1900_2100"],
}
TRUSTED_BASE = [
    "Lean 4.33 kernel; axioms propext, Classical.choice, Quot.sound only",
    "Spec/Options.lean: my reading of driver.show_description() (which flag selects which Data(...) argument / "
    "output attribute, with which syntax), of the vector syntax a:b, a:s:b, commas, of the warning text 'Missing -r "
    "<thresholds>. Automatically setting thresholds' (20 evenly spaced values from the smallest to the largest "
    "observed / forecast value) and of the listing header '    id     lat     lon    elev'",
    "harness/translate.py gen_options: extraction of the flag -> local -> parser table, the Data(...) keyword wiring, "
    "the pl.<attr> assignments, the post-loop validations and the name tables from driver.py/axis.py/aggregator.py/"
    "field.py (validated each run by stream cli.parse: the model interprets the regenerated tables and is compared "
    "with the real driver on every generated command line); the class table of C19 (require_threshold_type, "
    "min/max_num_thresholds, supports_x/threshold/field) for the default thresholds",
    "hand-written model: control structure of the argument loop, --config pre-pass, the parsers (float()/int() on "
    "decimal strings, parse_numbers, get_date), order of the early returns, the threshold / quantile default logic "
    "(Model/ThresholdDefaults.lean on top of C19's Model/Dispatch.lean), the listing formats "
    "(Model/ListOutput.lean: %d, %02d, %6d, %7.2f, %7.1f, %g on exact rationals) — tied by the correspondence streams",
    "string lexing (split at , and :, float syntax) is executable model code tied by the exhaustive pn.* streams; "
    "the theorems start from the lexed fields; config files are modelled from their lines of tokens on (str.split "
    "itself is trusted; blanks, tabs and blank lines are exercised by stream cli.parse)",
    "np.arange length = ceil((stop-start)/step) and np.round(.,7) on doubles vs exact rationals (identical on the "
    "3-decimal grid, checked exhaustively by pn.grid); np.linspace / np.nanmin / np.nanmax on doubles vs exact "
    "rationals (compared within 1e-9 relative; counts, NaN-ness and errors exactly); Python datetime for the "
    "calendar (checked on every boundary by pn.dates; the model's calendar is proved against the textbook "
    "successor on every day 1900-2100); CPython's % operator (correctly rounded %f / %g, truncating %d) as modelled "
    "in Model/ListOutput.lean and Base/Decimal.lean, compared byte for byte by stream cli.list",
    "the recorder stub that replaces verif.data.Data and the Output entry points inside the harness process "
    "(streams cli.parse, cli.dup, cli.bad, cli.defaults; cli.list and cli.badfile run the real Data); the mapping "
    "class of file -> accepted / rejected of Model/InputClass.lean is the documented one (a text file in the "
    "documented format is an input whatever its name, nothing else is), tied by stream cli.badfile; -0.0 is not "
    "modelled (the generators write no negative zero)",
]
ASSUMPTIONS = [
    "vector fields are decimal strings with at most 3 fractional digits (C13_range); outside that grid the 0.0001 "
    "end-point fudge of parse_numbers is visible (e.g. 0:1:0.99995) — documented by the code itself",
    "date ranges: both ends valid civil dates in 1900-2100, whole day steps (positive: d1 <= d2, ascending; "
    "negative: d1 >= d2, descending; any |step| >= 1: when one step beyond the last value that is kept leaves "
    "datetime's years 1-9999 the range is rejected with the error message, C13_dates_beyond_calendar, never a "
    "traceback, C13_no_traceback); a reversed range with a positive step returns the ascending range (outside the documented "
    "grammar, mirrored by the model); a fractional date step and a first date that is not a calendar date are "
    "rejected (C13_rejects_date_range; the former hang is still probed in a subprocess with a 5 s timeout)",
    "order invariance is claimed for command lines in which no two option groups assign the same variable",
    "file names do not start with '-' and tokens are non-empty; config files contain no nested --config",
    "--config: 'Read further arguments from this file' is read as: the tokens of the file FOLLOW the arguments of the "
    "command line (driver.run appends them), in the order of the --config options; consequently input files named in "
    "a config file come after every input file of the command line, wherever --config stands (oracle doc_eval and "
    "metamorphic relation 2 use this reading; C13_config_lines)",
    "listings: initialisation times are whole seconds of 1900-2100 (C13_list_dates), location ids are integers "
    "(C13_list_locations states the truncation otherwise), a location has the same lat / lon / elev in every file; "
    "-tod on a time that is not on a whole hour is not determined by the help text (the oracle accepts both "
    "readings); -d / -tod that leave no time may list nothing or exit with the error message",
    "default thresholds: the documented list needs at least one finite observed / forecast value in every field the "
    "files have and no infinite value (C13_default_thresholds, HasValues); with an all-missing field the code's "
    "min(nan, x) / min(x, nan) asymmetry is mirrored by the model and not judged by the oracle; where the quantiles "
    "of a quantile score are kept internally (pl.thresholds) is not documented and not judged",
    "a comment line consisting of '#' only is an (empty) comment: the file is a valid input; '# x0:' / '# x1:' with a "
    "missing or non-numeric value make the file invalid (rejected with the error message); bytes that are not UTF-8 "
    "text are invalid under any name (all four were tracebacks before the repairs fix_garbage / fix_barehash / fix_x0)",
]
RULE = ("cli.list (first): the real driver with the real Data on 1-3 generated text files (2-4 initialisation times "
        "not all at midnight through date+hour or unixtime columns incl. half hours, odd seconds and dates before "
        "1970, 2-5 locations with fractional lat/lon/elev whose printed digits depend on half-even rounding of the "
        "exact double, negative values that round to -0.00, an id wider than its column, a location missing from one "
        "file, an extra time / lead time in one file, p<t>/q<x> columns differing between the files) with 1-5 --list-* "
        "flags in random order and 0-3 of -d -t -tod -l -lx -latrange -lonrange -elevrange -o; "
        "pn.grid: every start,end in {-3..3 step .5} u {.1,.25,.9} x step in +-{.1,.25,.5,1,2} as a:s:b, every a:b, "
        "plus comma mixtures; pn.dates: every month/year/leap boundary of 2011-2013, 1999-2000, 2099-2100 x offsets "
        "x steps {default,1,2,7,30}, and the boundaries of 2012, 2000-03-01, 2100-03-01, 2013-01-01 counted down with steps {-1,-2,-7}; pn.dates.calendar-end: ranges that step outside the years 1-9999 (or stay just inside); pn.malformed: fixed list of malformed strings; cli.parse: command lines drawn "
        "from the documented grammar (0-2 files, a metric incl. the threshold / quantile scores, 0-7 distinct "
        "data/computation options with documented values, 0-2 appearance options, random order, 35% with 1-2 "
        "--config files written on several lines (one group per line, several per line, blank lines, tabs, a flag "
        "and its value on different lines), 40% of those with input file names inside the config) on a stub dataset "
        "whose content is drawn per op (NaNs, all-missing field, smin = smax, negative range, empty threshold list, "
        "obs or fcst absent); cli.defaults: 15 metrics / diagrams covering every kind of threshold requirement x "
        "-r / -q / -type impact / -hist / -x threshold|obs|fcst; cli.dup: same as cli.parse with a repeated flag "
        "(model correspondence only); cli.bad: one documented rejection per line (incl. -xlim/-ylim/-clim without exactly two values = kind limit-length, -b with an undocumented name and a metric that ignores it = unknown-bin — both accepted by /repo c94a168: known findings with the proposed repair harness/proposed/c13_driver_validation.diff — and unknown -type); cli.badreal: unknown metric / -obs / -fcst field / bin type with ets, hit, freq / -type through the unstubbed verif.driver.run on a real text file, must end in the error exit (implementation-only oracle); cli.badfile: 15 classes of input "
        "file x {first input, second input, -c, -C} x {-m mae, --list-times} on the real Data. An op is non-trivial "
        "if the reply is not ERR/EXC/help/version and (pn) has >= 2 values or (cli) carries >= 1 data/computation "
        "option or a default threshold / quantile list or (cli.list) prints >= 3 lines")
EXHAUSTIVE = {"quick": True, "thorough": True}
EXHAUSTIVE_NOTE = ("the decimal grid (pn.grid), the calendar-boundary set (pn.dates) and the class x role x command "
                   "grid of cli.badfile are enumerated completely in both tiers; command lines (cli.*) and listing "
                   "scenarios (cli.list) are sampled")
LEVEL_TEXT = ("Lean theorems over a model that interprets option tables regenerated from driver.py on every run: the "
              "a:s:b syntax denotes exactly the documented inclusive progression on the 3-decimal grid (the 0.0001 "
              "fudge is harmless there), date ranges step by civil days (calendar proved against the textbook "
              "successor for every day 1900-2100), option order and --config placement are irrelevant and a config "
              "file means the same however its tokens are spread over lines, every "
              "documented data/computation flag reaches the documented Data(...) argument / output attribute with "
              "the documented parser (decide on the regenerated table), the documented rejections are errors — "
              "including every class of invalid input file, as input or climatology; the --list-* output read back "
              "gives exactly the verified times / dates / location ids (lat, lon, elev within half a unit of the last "
              "printed decimal) / thresholds / quantiles, one row per value in order; the automatic threshold list is "
              "20 evenly spaced values from the smallest to the largest observed / forecast value, stored thresholds "
              "and quantiles are taken as they are, and the quantile-count errors fire exactly outside [min, max].")
TECHNIQUE = ("Lean 4 proof over a table-interpreting model; tables regenerated from source (translator); "
             "exhaustive + generated differential correspondence against the real driver with a recording stub and, "
             "for the listings and the invalid-input classes, the real Data on generated files (byte-exact); "
             "independent documented-semantics oracle (exact fractions) and metamorphic relations on the real driver")

VALID = ["fa.txt", "fb.txt", "clim.txt"]
FPART = "F=" + "|".join(VALID)
# classes of input file the harness creates in its temp dir (stream cli.badfile): class -> file name
CLASS_FILES = {"good": "g_good.txt", "text-named-nc": "g_text.nc", "missing": "g_missing.txt", "empty": "g_empty.txt",
               "garbage": "g_garbage.txt", "no-data-column": "g_nodata.txt", "header-only": "g_header.txt",
               "short-row": "g_short.txt", "nc-garbage": "g_garbage.nc", "nc-binary": "g_binary.nc",
               "nc-nodims": "g_nodims.nc", "directory": "g_dir", "comment-bare": "g_hash.txt",
               "comment-x0": "g_x0.txt", "comment-x1": "g_x1.txt"}
# what the documentation says about each class (never taken from the model): a text file in the documented format is
# an input whatever its name; everything else is not an input file
# ("#" alone on a line is a comment without content: the file stays a valid input)
ACCEPTED_CLASSES = ["good", "text-named-nc", "comment-bare"]
BPART = "B=" + "|".join("%s:%s" % (n, c) for c, n in CLASS_FILES.items())

# ----------------------------------------------------------------------------------------------
# documented option grammar (from driver.show_description()); used by the generator and the oracle,
# never by the model
# ----------------------------------------------------------------------------------------------
# flag -> (where, target, syntax)
DOC = {
    "-d": ("data", "dates", "dates"), "-elevrange": ("data", "elev_range", "range2"),
    "-l": ("data", "locations", "numbers"), "-lx": ("data", "locations_x", "numbers"),
    "-latrange": ("data", "lat_range", "range2"), "-lonrange": ("data", "lon_range", "range2"),
    "-o": ("data", "leadtimes", "numbers"), "-obsrange": ("data", "obs_range", "range2"),
    "-t": ("data", "times", "numbers"), "-tod": ("data", "tods", "ints"),
    "-c": ("data", "clim", "file"), "-C": ("data", "clim", "file"),
    "-obs": ("data", "obs_field", "field"), "-fcst": ("data", "fcst_field", "field"),
    "-T": ("data", "dim_agg_length", "posint"), "-Tagg": ("data", "dim_agg_method", "agg"),
    "-Tx": ("data", "dim_agg_axis", "axis"), "-leg": ("data", "legend", "legend"),
    "-r": ("out", "thresholds", "numbers"), "-q": ("out", "quantiles", "unit"),
    "-x": ("out", "axis", "axis"), "-agg": ("out", "aggregator", "agg"), "-b": ("out", "bin_type", "str"),
    "-acc": ("out", "show_acc", "flag"),
    "-m": ("ctl", "metric", "str"), "-hist": ("ctl", "hist", "flag"), "-sort": ("ctl", "sort", "flag"),
    "-type": ("ctl", "type", "str"),
    "--list-times": ("ctl", "list", "flag"), "--list-dates": ("ctl", "list", "flag"),
    "--list-locations": ("ctl", "list", "flag"), "--list-quantiles": ("ctl", "list", "flag"),
    "--list-thresholds": ("ctl", "list", "flag"), "--version": ("ctl", "version", "flag"),
    "--help": ("ctl", "help", "flag"),
}
# plotting options (C17's subject): only their arity matters here
APPEAR1 = ["-af", "-afs", "-aspect", "-bottom", "-clabel", "-clim", "-cmap", "-dpi", "-gc", "-gs", "-gw", "-f", "-fs",
           "-labfs", "-lc", "-left", "-legfs", "-legloc", "-ls", "-lw", "-maptype", "-ma", "-ms", "-obsleg", "-right",
           "-tickfs", "-title", "-titlefs", "-top", "-xlabel", "-xlim", "-xrot", "-xticks", "-xticklabels",
           "-ylabel", "-ylim", "-yrot", "-yticks", "-yticklabels", "-pad"]
APPEAR0 = ["-a", "-nogrid", "-nomargin", "-simple", "-sp", "-xlog", "-ylog"]
DATA_KEYS = ["clim", "clim_type", "times", "dates", "tods", "leadtimes", "locations", "locations_x", "lat_range",
             "lon_range", "elev_range", "obs_range", "legend", "obs_field", "fcst_field", "dim_agg_length",
             "dim_agg_axis", "dim_agg_method"]
OUT_KEYS = ["axis", "aggregator", "thresholds", "quantiles", "bin_type", "show_acc"]
DOC_AXES = ["time", "leadtime", "year", "month", "week", "day", "timeofday", "dayofyear", "monthofyear", "location",
            "elev", "lat", "lon", "threshold", "leadtimeday", "no"]
DOC_AGGS = ["mean", "median", "min", "max", "std", "variance", "iqr", "range", "count", "sum", "meanabs", "absmean",
            "change", "abschange"]
DOC_BINS = ["below", "below=", "above", "above=", "within", "=within", "within=", "=within="]
DOC_ENTRY = {"plot": "plot", "text": "text", "csv": "csv", "map": "map", "rank": "plot_rank", "maprank": "map",
             "impact": "plot_impact", "mapimpact": "plot_mapimpact"}
SPECIAL = {"obsfcst": "ObsFcst", "qq": "QQ", "scatter": "Scatter", "pithist": "PitHist", "reliability": "Reliability",
           "taylor": "Taylor", "error": "Error", "freq": "Freq", "roc": "Roc", "cond": "Cond", "meteo": "Meteo",
           "timeseries": "TimeSeries", "performance": "Performance", "marginal": "Marginal"}
STD_METRICS = ["mae", "rmse", "bias", "corr", "ets", "hit", "stderror"]
FIELD_METRICS = ["obs", "fcst", "temperature"]
# metrics whose -r / -q default comes from the data (stream cli.parse with a D= token)
THR_METRICS = ["bs", "bss", "ign0"]
Q_METRICS = ["quantilescore", "quantile", "spread", "spreadskillratio", "quantilecoverage"]
# hand-written from the metric / output descriptions and the help text of -r and -q (never from the model):
# what a metric needs when -r / -q are absent.  "det": thresholds on the observed / forecast values ("Automatically
# setting thresholds": 20 evenly spaced values from the smallest to the largest value); "thr": the thresholds the
# probabilities in the files are stored for; ("q", lo, hi): quantiles ("Use -q to set quantile(s)"), between lo and
# hi of them (quantilecoverage: a single quantile or an interval; spread / spreadskillratio: "between two quantiles")
REQ = {"ets": "det", "hit": "det", "bs": "thr", "bss": "thr", "ign0": "thr",
       "quantilescore": ("q", None, None), "quantile": ("q", None, None), "spread": ("q", 2, 2),
       "spreadskillratio": ("q", 2, 2), "quantilecoverage": ("q", 1, 2),
       "freq": "det", "cond": "det", "marginal": "thr"}
# scores that are defined for a threshold (contingency-table scores, scores of the probability of exceeding a
# threshold): `-x threshold` is meaningful for them, so `-r` keeps its meaning next to it
THRESHOLD_AXIS_OK = ["ets", "hit", "bs", "bss", "ign0"]


def arity(flag):
    if flag in DOC:
        return 0 if DOC[flag][2] == "flag" else 1
    if flag in APPEAR0:
        return 0
    if flag in APPEAR1 or flag == "--config":
        return 1
    return None


def dec(x):
    """Fraction -> shortest decimal string"""
    x = Fraction(x)
    s = "-" if x < 0 else ""
    x = abs(x)
    n = 0
    while (x * 10 ** n).denominator != 1:
        n += 1
    v = str((x * 10 ** n).numerator).rjust(n + 1, "0")
    return s + (v[:-n] + "." + v[-n:] if n else v)


# -------------------------------------------------------------- documented vector syntax (oracle)
def doc_float(w):
    import re
    if not re.fullmatch(r"-?(\d+\.?\d*|\.\d+)", w):
        return None
    return Fraction(w)


def doc_numbers(s):
    """the documented meaning: commas concatenate, a:b = a, a+1, … up to and including b,
    a:s:b = a, a+s, … up to and including b.  None = not in the documented syntax."""
    out = []
    for part in s.split(","):
        f = part.split(":")
        v = [doc_float(w) for w in f]
        if any(x is None for x in v) or len(v) > 3:
            return None
        if len(v) == 1:
            out.append(v[0])
            continue
        a, b = v[0], v[-1]
        st = v[1] if len(v) == 3 else Fraction(1)
        if st == 0:
            return None
        x = a
        while (x <= b) if st > 0 else (x >= b):
            out.append(x)
            x += st
    return out


def _civil(n):
    n = int(n)
    try:
        return datetime.date(n // 10000, n // 100 % 100, n % 100)
    except (ValueError, OverflowError):
        return None


def doc_dates(s):
    """documented: YYYYMMDD values; d1:d2 every calendar day, d1:k:d2 every k-th calendar day.
    Returns a list of ints, None (= must be rejected) or "undefined" (documentation silent; that includes a
    progression that steps outside the years 1-9999, the only calendar verif knows: an answer or the error
    message, never a traceback)."""
    out = []
    for part in s.split(","):
        f = part.split(":")
        v = [doc_float(w) for w in f]
        if any(x is None for x in v) or len(v) > 3:
            return None
        if any(x.denominator != 1 for x in v):
            return "undefined"
        if len(v) == 1:
            out.append(int(v[0]))
            continue
        st = int(v[1]) if len(v) == 3 else 1
        if st == 0:
            return None
        d1, d2 = _civil(v[0]), _civil(v[-1])
        if d1 is None or d2 is None:
            return "undefined"
        if st < 0:
            if d1 < d2:
                return "undefined"
            d = d1
            while d >= d2:
                out.append(int(d.strftime("%Y%m%d")))
                try:
                    d += datetime.timedelta(days=st)
                except OverflowError:
                    return "undefined"
            continue
        if d1 > d2:
            return "undefined"
        d = d1
        while d <= d2:
            out.append(int(d.strftime("%Y%m%d")))
            try:
                d += datetime.timedelta(days=st)
            except OverflowError:
                return "undefined"
    return out


def show_nums(v):
    v = list(v)
    return ",".join(xr(Fraction(x)) for x in v) if v else "[]"


# ----------------------------------------------------------------------------------------------
# generators
# ----------------------------------------------------------------------------------------------
GRID = [Fraction(k, 2) for k in range(-6, 7)] + [Fraction(1, 10), Fraction(1, 4), Fraction(9, 10)]
STEPS = [Fraction(1, 10), Fraction(1, 4), Fraction(1, 2), Fraction(1), Fraction(2)]
MALFORMED = ["1.2.3", "1-2", "1::2", "a:b", "", "1,", ",1", "1,,2", ":", "1:", ":1", "1:2:", "1:2:3:4", "1:0:3",
             "-", "--1", ".", "-.", "1e3", "1 2", "1;2", "1:a:3", "3:5:x", "1.2.3:4", "1:2.3.4:5", "1:2:3-4", "1_0",
             "+1", "0x10", "nan", "inf", "1/2", "(1,2)", "1:2,3::4", "1.2.3,1::2", "1::2,1.2.3"]


def _boundaries():
    out = []
    for y in (2011, 2012, 2013, 1999, 2000, 2099, 2100):
        for m in range(1, 13):
            out.append(datetime.date(y, m, 1))
    out.append(datetime.date(2014, 1, 1))
    out.append(datetime.date(2001, 1, 1))
    out.append(datetime.date(2101, 1, 1))
    return out


def ymd(d):
    return d.strftime("%Y%m%d")


def gen_pn(tier, rng):
    for a in GRID:
        for b in GRID:
            yield "pn.grid", "parse_numbers s=%s:%s 0" % (dec(a), dec(b))
            for s in STEPS:
                for sg in (1, -1):
                    yield "pn.grid", "parse_numbers s=%s:%s:%s 0" % (dec(a), dec(sg * s), dec(b))
    parts = ["3", "-1.5", "0.25", "4:6", "2:5:9", "0:0.1:0.5", "3:-1:1", "5:3", "0.9:-0.25:0.1", "-3:2:3"]
    for p, q in itertools.product(parts, parts):
        yield "pn.grid.commas", "parse_numbers s=%s,%s 0" % (p, q)
    for p, q, r in itertools.product(parts[:5], parts[3:8], parts[:3]):
        yield "pn.grid.commas", "parse_numbers s=%s,%s,%s 0" % (p, q, r)
    for s in ["3,4:6,2:5:9,6", "1", "1.", ".5", "-.5", "007", "1.500", "0:0.001:0.01", "1000:1000:5000"]:
        yield "pn.grid.commas", "parse_numbers s=%s 0" % s
    # dates
    one = datetime.timedelta(days=1)
    for B in _boundaries():
        for back in (1, 2, 3, 31):
            for fwd in (0, 1, 2, 29):
                d1, d2 = B - back * one, B + fwd * one
                yield "pn.dates", "parse_numbers s=%s:%s 1" % (ymd(d1), ymd(d2))
                for st in (1, 2, 7, 30):
                    yield "pn.dates", "parse_numbers s=%s:%d:%s 1" % (ymd(d1), st, ymd(d2))
        # counted down (few: before the repair of the date loop each of these walked back to year 1)
        if B.year == 2012 or ymd(B) in ("20000301", "21000301", "20130101"):
            for back, fwd, st in ((3, 2, 1), (3, 0, 2), (31, 2, 7)):
                yield "pn.dates", "parse_numbers s=%s:-%d:%s 1" % (ymd(B + fwd * one), st, ymd(B - back * one))
    for y in (1999, 2000, 2011, 2012, 2013, 2099, 2100):
        yield "pn.dates", "parse_numbers s=%d0101:%d1231 1" % (y, y)
        yield "pn.dates", "parse_numbers s=%d0101:7:%d0101 1" % (y, y + 1)
        yield "pn.dates", "parse_numbers s=%d0228,%d0301:%d0303 1" % (y, y, y)
    for s in ["20130101", "20130101,20130105", "20130101:20130101", "20130105:20130101", "20130228:20130230",
              "20130230", "20130230:20130301", "20130100:20130102", "20131301:20131302", "20130101:20130199",
              "20130101:1.5:20130105", "20130105:-1:20130101", "20130105:-2:20121230", "20130301:-1:20130227",
              "20130101:0:20130105", "20130101:20130102:20130103:1", "2013010a", "20130101:", "20130101.5",
              "20130101:-1:20130105", "20130105:-1.5:20130101", "20130105:-0.5:20130101", "20130105.5:-1:20130101",
              "20130301:-1:20130230", "20130230:-1:20130101", "20130100:-1:20121230", "20130301:20130230",
              "20130101:2.0:20130105", "-5:-1:-10", "0:5", "20130105:-3:20130101"]:
        yield "pn.dates.edge", "parse_numbers s=%s 1" % s
    # the date arithmetic leaves datetime's years 1-9999 (one step beyond the last value that is kept, a huge step
    # in either direction, a first date whose year does not fit a C int) or stays just inside
    for s in ["99991230:99991231", "99991231:99991231", "99991225:7:99991231", "99991201:99991210", "99991231",
              "99991201:3:99991229", "99991230:100000105", "100000101:100000102", "1000000000000101:1000000000000102",
              "20130101:9999999999:20130105", "20130101:3000000:20130105", "20130101:2900000:20130105",
              "20130101:-9999999999:20130105", "20130105:-9999999999:20130101", "20130105:-735300:20130101",
              "20130105:-734000:20130101", "00010102:-1:00010101", "00010103:-7:00010101", "00010110:-3:00010105",
              "00010101:00010103", "00010101:-1:00010101", "20130101,99991230:99991231", "99991231:1:99991231"]:
        yield "pn.dates.calendar-end", "parse_numbers s=%s 1" % s
    for s in ["20121231:0.25:20130101", "20130101:1.5:20130105", "20130101:2:20130105", "20130105:-0.5:20130101"]:
        yield "pn.dates.sub", "parse_numbers_sub s=%s 1" % s
    for s in MALFORMED:
        if " " in s:
            continue
        yield "pn.malformed", "parse_numbers s=%s 0" % s
        yield "pn.malformed", "parse_numbers s=%s 1" % s
    n = 300 if tier == "quick" else 6000
    for _ in range(n):
        k = rng.randint(1, 3)
        a = Fraction(rng.randint(-5000, 5000), rng.choice([1, 10, 100, 1000]))
        b = a + Fraction(rng.randint(-3000, 9000), rng.choice([1, 10, 100, 1000]))
        s = Fraction(rng.randint(1, 2500), rng.choice([1, 10, 100, 1000])) * rng.choice([1, 1, 1, -1])
        if abs((b - a) / s) > 400:
            s = s * 50
        yield "pn.random", "parse_numbers s=%s 0" % ":".join([dec(a), dec(s), dec(b)][:k] if k < 3 else
                                                             [dec(a), dec(s), dec(b)])


def _vec(rng):
    return rng.choice(["1,2,3", "0:2:10", "0:0.5:2", "5", "-1:1", "3,4:6,2:5:9,6", "0,6,12", "0:6:48", "10:-2:4",
                       "1.5", "100,200", "0.1:0.1:0.5", "3:3"])


def _val(flag, rng):
    syn = DOC[flag][2]
    if syn == "numbers":
        if flag == "-t":
            return rng.choice(["1325376000", "1325376000,1325462400", "1325376000:86400:1325635200"])
        if flag in ("-l", "-lx"):
            return rng.choice(["3", "3,6", "1:5", "0:2:10", "41,18,3"])
        return _vec(rng)
    if syn == "dates":
        return rng.choice(["20120101", "20120101:20120105", "20111230:2:20120103", "20120101,20120301",
                           "20120227:20120302", "20111231:20120101", "20120101:7:20120301"])
    if syn == "range2":
        a = rng.choice(["-10", "0", "40.5", "-122.3", "100"])
        b = rng.choice(["10", "60", "1000", "-100.25", "55.75"])
        return a + "," + b
    if syn == "ints":
        return rng.choice(["0", "0,12", "0:6:18", "6,18", "0:23"])
    if syn == "file":
        return "clim.txt"
    if syn == "field":
        return rng.choice(["obs", "fcst", "pit", "threshold:1", "threshold:0.5", "quantile:0.5", "quantile:0.9",
                           "temperature", "spread"])
    if syn == "posint":
        return rng.choice(["1", "2", "6", "24"])
    if syn == "agg":
        return rng.choice(DOC_AGGS + ["0.5", "0.25", "1", "0"])
    if syn == "axis":
        if flag == "-Tx":
            return rng.choice(["time", "leadtime"])
        return rng.choice([a for a in DOC_AXES if a != "threshold"] + ["threshold"] * 3)
    if syn == "legend":
        return rng.choice(["A", "A,B", "First_run,Second_run", "Model_1"])
    if syn == "unit":
        return rng.choice(["0.1,0.9", "0:0.25:1", "0.5", "0,1", "0.1:0.2:0.9", "0.25,0.75", "0.9"])
    if syn == "str":
        if flag == "-b":
            return rng.choice(DOC_BINS)
        if flag == "-type":
            return rng.choice(list(DOC_ENTRY))
    raise ValueError(flag)


def _appearance(rng):
    f = rng.choice(["-title", "-dpi", "-lw", "-xlim", "-nogrid", "-sp", "-legfs", "-ylabel", "-ms", "-f", "-simple",
                    "-legloc", "-xticks", "-ls", "-aspect", "-a"])
    vals = {"-title": "Hello_World", "-dpi": "80", "-lw": "1,2", "-xlim": "0,10", "-legfs": "10", "-ylabel": "Y_axis",
            "-ms": "3,4", "-f": "out.png", "-legloc": "upper_left", "-xticks": "0:2:10", "-ls": "-,--",
            "-aspect": "1.5"}
    return [f] + ([vals[f]] if f in vals else [])


def _cmdline(rng, dup=False):
    """-> (groups, files): groups = list of token lists in documented grammar"""
    nf = rng.choice([1, 1, 1, 2, 2, 0])
    files = ["fa.txt", "fb.txt"][:nf] if rng.random() < 0.8 else ["fb.txt", "fa.txt"][:nf]
    groups = []
    r = rng.random()
    hist = None
    if r < 0.4:
        groups.append(["-m", rng.choice(STD_METRICS)])
    elif r < 0.55:
        groups.append(["-m", rng.choice(THR_METRICS + Q_METRICS)])
    elif r < 0.75:
        groups.append(["-m", rng.choice(sorted(SPECIAL))])
    elif r < 0.9:
        groups.append(["-m", rng.choice(FIELD_METRICS)])
        hist = rng.choice(["-hist", "-sort", None])
        if hist:
            groups.append([hist])
    pool = [f for f in DOC if DOC[f][0] in ("data", "out")]
    k = rng.choice([0, 1, 2, 3, 3, 4, 5, 7])
    chosen = rng.sample(pool, k)
    if "-c" in chosen and "-C" in chosen:
        chosen.remove("-C")
    for f in chosen:
        groups.append([f] if DOC[f][2] == "flag" else [f, _val(f, rng)])
    if rng.random() < 0.25:
        groups.append(["-type", _val("-type", rng)])
    for _ in range(rng.choice([0, 0, 1, 2])):
        g = _appearance(rng)
        if all(g[0] != h[0] for h in groups):
            groups.append(g)
    if rng.random() < 0.06:
        groups.append([rng.choice(["--list-times", "--list-dates", "--list-locations", "--list-quantiles",
                                   "--list-thresholds", "--version", "--help"])])
    if dup and groups:
        g = rng.choice([h for h in groups if h[0] in DOC] or groups)
        groups.append([g[0]] + ([_val(g[0], rng)] if len(g) == 2 and g[0] in DOC and g[0] not in ("-m",) else g[1:]))
    return groups, files


def _layout(rng, groups, files, with_config):
    """random interleaving of files (relative order kept) and option groups; optionally moves groups
    into config files.  -> (argv tokens, configs dict)"""
    groups = list(groups)
    rng.shuffle(groups)
    configs = {}
    inline = groups
    files = list(files)
    if with_config and (groups or files):
        ncfg = rng.choice([1, 1, 2])
        inline = []
        buckets = [[] for _ in range(ncfg)]
        for g in groups:
            w = rng.randint(0, ncfg)
            (inline if w == ncfg else buckets[w]).append(g)
        # input file names inside a config file (driver.run appends the config tokens to argv, so these files come
        # after every file of the command line): some of the files, or all of them
        if files and rng.random() < 0.4:
            for f in (list(files) if rng.random() < 0.4 else [files[-1]]):
                files.remove(f)
                buckets[rng.randrange(ncfg)].append([f])
        for i, b in enumerate(buckets):
            configs["k%d.cfg" % (i + 1)] = _cfg_lines(rng, b)
            inline.insert(rng.randint(0, len(inline)), ["--config", "k%d.cfg" % (i + 1)])
    items = list(inline)
    pos = sorted(rng.randint(0, len(items)) for _ in files)
    for off, (p, f) in enumerate(zip(pos, files)):
        items.insert(p + off, [f])
    return [t for g in items for t in g], configs


def _cfg_lines(rng, groups):
    """tokens of a config file with `^` line-break markers: one option group per line, several groups per line,
    blank lines, a group split between its flag and its value"""
    style = rng.choice(["one", "one", "group", "mixed", "mixed", "split"])
    out = []
    if rng.random() < 0.15:
        out.append("^")
    for k, g in enumerate(groups):
        if style == "split" and len(g) == 2 and rng.random() < 0.5:
            out += [g[0], "^", g[1]]
        else:
            out += g
        if k == len(groups) - 1:
            break
        if style == "group" or (style in ("mixed", "split") and rng.random() < 0.6):
            out.append("^")
            if rng.random() < 0.2:
                out.append("^")
    if rng.random() < 0.3:
        out.append("^")
    return out


def cfg_tokens(toks):
    """the arguments a config file contributes: its whitespace-separated tokens, line by line"""
    return [t for t in toks if t != "^"]


def cfg_text(toks):
    """file content for a token list with `^` line breaks; separators (blanks, tabs), leading and trailing blanks are
    chosen deterministically from the tokens"""
    lines, cur = [], []
    for t in toks:
        if t == "^":
            lines.append(cur)
            cur = []
        else:
            cur.append(t)
    lines.append(cur)
    h = zlib.crc32("|".join(toks).encode())
    seps = [" ", " ", "  ", "\t", " \t ", "   "]
    edge = ["", "", " ", "\t", "  "]
    out = []
    for i, l in enumerate(lines):
        k = (h >> (2 * (i % 14))) + i
        out.append(edge[k % 5] + seps[(k // 5) % 6].join(l) + edge[(k // 30) % 5])
    return "\n".join(out) + ("" if h % 4 == 0 else "\n")


def mkop(kind, toks, configs, badkind=None, data=None, classes=False):
    c = ";".join("%s~%s" % (n, "|".join(t)) for n, t in sorted(configs.items()))
    head = "argv" if badkind is None else "argvbad %s" % badkind
    return "%s %s C=%s A=%s" % (head, FPART, c, "|".join(toks)) + (" D=" + data if data else "") + \
        (" " + BPART if classes else "")


# ---- D=: the content of the dataset the stub shows to driver.run
DGRID = [-4.0, -2.5, -1.0, 0.0, 0.5, 1.0, 2.0, 3.25, 7.0, 10.5, 100.0, -0.125]


def _gen_data(rng):
    """obs;fcst;thresholds;quantiles;fields with NaNs among the values, an all-missing field, smin = smax,
    negative ranges, an empty threshold list, obs or fcst absent from data.get_fields()"""
    n = rng.randint(1, 6)
    r = rng.random()
    if r < 0.1:
        v = rng.choice(DGRID)
        obs, fcst = [v] * n, [v] * rng.randint(1, 3)                    # smin = smax
    elif r < 0.2:
        obs = [rng.choice([-4.0, -2.5, -1.0, -0.125]) for _ in range(n)]  # negative range
        fcst = [rng.choice([-4.0, -2.5, -1.0]) for _ in range(n)]
    else:
        obs = [rng.choice(DGRID) for _ in range(n)]
        fcst = [rng.choice(DGRID) for _ in range(n)]
    nan = float("nan")
    if rng.random() < 0.35:
        obs[rng.randrange(len(obs))] = nan
    if rng.random() < 0.25:
        fcst[rng.randrange(len(fcst))] = nan
    r = rng.random()
    if r < 0.04:
        obs = [nan] * len(obs)
    elif r < 0.08:
        fcst = [nan] * len(fcst)
    elif r < 0.1:
        obs, fcst = [nan] * len(obs), [nan] * len(fcst)
    thr = rng.choice([[], [], [1.0], [0.5, 1.0, 2.5], [-3.0, 0.0, 10.0], [0.0], [0.25, 0.5, 0.75, 1.0, 7.0]])
    qua = rng.choice([[], [0.5], [0.1, 0.9], [0.25, 0.75], [0.1, 0.5, 0.9], [0.0, 1.0], [0.9], [0.05, 0.25, 0.75, 0.95]])
    fields = rng.choice(["of", "of", "of", "of", "of", "o", "f", "-"])
    return ";".join([xvec(obs), xvec(fcst), xvec(thr), xvec(qua), fields])


def parse_data(tok):
    """D= token -> dict(obs, fcst, thr, qua: lists of floats; fields)"""
    o, f, t, q, fl = tok.split(";")
    return {"obs": from_xvec(o), "fcst": from_xvec(f), "thr": from_xvec(t), "qua": from_xvec(q), "fields": fl}


def gen_bad(rng):
    base = lambda: rng.choice([["fa.txt", "-m", "mae"], ["-m", "mae", "fa.txt"], ["fa.txt", "fb.txt", "-m", "rmse"]])
    def ins(b, extra):
        b = list(b)
        p = rng.choice([0, len(b)]) if b[0] == "-m" else rng.choice([0, 1, len(b)])
        if b[0] == "-m" and p == 0:
            pass
        return b[:p] + extra + b[p:]
    cases = []
    for f in ["-bogus", "--nonsense", "-M", "-latitude", "-Agg", "--list", "-"]:
        cases.append(("unknown-flag", ins(base(), [f, "1"]), {}))
        cases.append(("unknown-flag", base() + [f], {}))
    for f in ["-m", "-x", "-r", "-q", "-agg", "-b", "-obs", "-fcst", "-c", "-C", "-T", "-Tagg", "-Tx", "-d", "-l",
              "-lx", "-latrange", "-lonrange", "-elevrange", "-obsrange", "-o", "-t", "-tod", "-leg", "-type", "-f"]:
        cases.append(("missing-value", ["fa.txt"] + ([] if f == "-m" else ["-m", "mae"]) + [f], {}))
    for f in ["-l", "-lx", "-o", "-r", "-t", "-tod", "-latrange", "-q", "-d", "-xlim"]:
        for s in ["1.2.3", "1-2", "1::2", "a:b", "1,", "1:0:3", "1:2:3:4", ":", "3,,4", "--1", "."]:
            cases.append(("malformed-vector", ins(base(), [f, s]), {}))
    for f in ["-x", "-Tx"]:
        for s in ["bogus", "Leadtime", "lead", "times", "0.5"]:
            cases.append(("unknown-axis", ins(base(), [f, s]), {}))
    for f in ["-agg", "-Tagg"]:
        for s in ["bogus", "Mean", "average", "1.5", "-0.5", "med"]:
            cases.append(("unknown-aggregator", ins(base(), [f, s]), {}))
    cases.append(("bad-file", ["nofile.txt", "-m", "mae"], {}))
    cases.append(("bad-file", ["fa.txt", "nofile.txt", "-m", "mae"], {}))
    cases.append(("bad-file", ["fa.txt", "-m", "mae", "-c", "nofile.txt"], {}))
    cases.append(("bad-file", ["fa.txt", "-m", "mae", "-C", "nofile.txt"], {}))
    cases.append(("bad-file", ["nofile.txt", "--list-times"], {}))
    cases.append(("bad-config", ["fa.txt", "-m", "mae", "--config", "nocfg.cfg"], {}))
    cases.append(("bad-config", ["fa.txt", "-m", "mae", "--config"], {}))
    for f in ["-latrange", "-lonrange", "-elevrange", "-obsrange"]:
        for s in ["1", "1,2,3", "1:3", "0:10", "5:1", "1,2,3,4"]:
            cases.append(("range-length", ins(base(), [f, s]), {}))
            cases.append(("range-length", ["fa.txt", "-m", "mae", "--config", "k1.cfg"], {"k1.cfg": [f, s]}))
    # axis / colour limits: "the two values lower,upper" (AUDIT4 C13; /repo c94a168 has no such check: finding,
    # proposed repair harness/proposed/c13_driver_validation.diff)
    for f in ["-xlim", "-ylim", "-clim"]:
        for s in ["1", "1,2,3", "1:3", "0:10"]:
            cases.append(("limit-length", ins(base(), [f, s]), {}))
    # -b: a name that is not one of the eight documented bin types, with a metric that does not use it
    for s in ["bogus", "Below", "above==", "with"]:
        cases.append(("unknown-bin", ins(base(), ["-b", s]), {}))
    # -type: not one of plot|text|csv|map|rank|maprank|impact|mapimpact
    for s in ["bogus", "CSV", "plots"]:
        cases.append(("unknown-type", ins(base(), ["-type", s]), {}))
    for s in ["0", "-1", "-24"]:
        cases.append(("nonpositive-T", ins(base(), ["-T", s]), {}))
        cases.append(("nonpositive-T", ["fa.txt", "-m", "mae", "--config", "k1.cfg"], {"k1.cfg": ["-T", s]}))
    for s in ["1.5", "-0.1", "0.5,2", "0:0.5:1.5", "-1:1", "100", "0.1,0.9,1.0001"]:
        cases.append(("quantile-range", ins(base(), ["-q", s]), {}))
    for s in ["x", "1.5", "", "two", "1e1"]:
        if s:
            cases.append(("malformed-scalar", ins(base(), ["-T", s]), {}))
            cases.append(("malformed-scalar", ["fa.txt", "-m", "mae", "--config", "k1.cfg"], {"k1.cfg": ["-T", s]}))
    for f in ["-dpi", "-aspect", "-legfs", "-bottom", "-xrot", "-gw", "-afs"]:
        for s in ["x", "1,2", "1.2.3"] + (["1.5"] if f == "-dpi" else []):
            cases.append(("malformed-scalar", ins(base(), [f, s]), {}))
    cases.append(("list-without-files", ["--list-times"], {}))
    for k, toks, cfg in cases:
        yield "cli.bad", mkop(k, toks, cfg, badkind=k)
    # every class of file as first input, second input, -c and -C climatology, with a metric and with a listing
    # (REAL verif.data.Data: an empty file passes get_input and is rejected by Data())
    for cls, name in CLASS_FILES.items():
        for tail in (["-m", "mae"], ["--list-times"]):
            for toks in ([name] + tail, ["fa.txt", name] + tail, ["fa.txt"] + tail + ["-c", name],
                         ["fa.txt", "-C", name] + tail):
                if cls in ACCEPTED_CLASSES:
                    yield "cli.badfile", mkop("argv", toks, {}, classes=True)
                else:
                    yield "cli.badfile", mkop("argv", toks, {}, badkind="bad-file:" + cls, classes=True)


def gen_list(tier, rng):
    for k in range(260 if tier == "quick" else 3000):
        yield "cli.list", _list_op(_list_scenario(rng, k))


def gen_ops(tier, rng):
    for x in gen_list(tier, rng):
        yield x
    for x in gen_pn(tier, rng):
        yield x
    for x in gen_bad(rng):
        yield x
    n = 1200 if tier == "quick" else 12000
    for i in range(n):
        groups, files = _cmdline(rng)
        toks, cfg = _layout(rng, groups, files, rng.random() < 0.35)
        yield "cli.parse", mkop("argv", toks, cfg, data=_gen_data(rng))
    for i in range(n // 8):
        groups, files = _cmdline(rng, dup=True)
        toks, cfg = _layout(rng, groups, files, rng.random() < 0.3)
        yield "cli.dup", mkop("argv", toks, cfg, data=_gen_data(rng))
    # the default thresholds / quantiles: every kind of requirement x a dataset, with and without -r / -q,
    # -type impact, -hist, and -x threshold on a metric that does not support it
    for i in range(n // 3):
        m = rng.choice(["ets", "hit", "bs", "bss", "ign0", "quantilescore", "quantile", "spread", "spreadskillratio",
                        "quantilecoverage", "mae", "freq", "cond", "marginal", "obs"])
        groups = [["-m", m]]
        r = rng.random()
        if r < 0.2:
            groups.append(["-r", _vec(rng)])
        if rng.random() < (0.5 if m in Q_METRICS else 0.15):
            groups.append(["-q", _val("-q", rng)])
        if m == "obs" and rng.random() < 0.7:
            groups.append([rng.choice(["-hist", "-sort"])])
        if rng.random() < 0.15:
            groups.append(["-type", rng.choice(["impact", "impact", "text", "csv"])])
        if rng.random() < 0.25:
            groups.append(["-x", rng.choice(["threshold", "threshold", "leadtime", "obs", "fcst"])])
        if rng.random() < 0.2:
            groups.append(["-b", rng.choice(DOC_BINS)])
        toks, cfg = _layout(rng, groups, ["fa.txt", "fb.txt"][:rng.choice([1, 1, 2])], rng.random() < 0.2)
        yield "cli.defaults", mkop("argv", toks, cfg, data=_gen_data(rng))


# ----------------------------------------------------------------------------------------------
# running the real code
# ----------------------------------------------------------------------------------------------
_TMP = [None]
FILE_TEXT = """date     leadtime location  lat   lon   altitude  obs   fcst
20120101 0        3         50    10    12    3     6
20120101 6        3         50    10    12    5     7
20120102 0        3         50    10    12    5     6
20120102 6        41        51    11    120   6     4
"""


GARBAGE = bytes([0xff, 0xfe, 0x00, 0x00]) + bytes((37 * k * k + 101 * k + 200) % 256 for k in range(300))


def class_content(cls):
    """-> bytes of the file of that class (None: no file; "dir": a directory; "nc": a NetCDF file)"""
    if cls in ("good", "text-named-nc"):
        return FILE_TEXT.encode()
    if cls == "missing":
        return None
    if cls == "empty":
        return b""
    if cls in ("garbage", "nc-binary"):
        return GARBAGE
    if cls == "no-data-column":
        return b"date leadtime location lat lon altitude value\n20120101 0 3 50 10 12 3\n"
    if cls == "header-only":
        return FILE_TEXT.split("\n")[0].encode() + b"\n"
    if cls == "short-row":
        return FILE_TEXT.encode() + b"20120102 6 41 51 11 120 6\n"
    if cls == "nc-garbage":
        return b"garbage zzz 123\n%%% 1 2\n@@@@ ~~~~\n"
    if cls == "nc-nodims":
        return "nc"
    if cls == "directory":
        return "dir"
    if cls == "comment-bare":
        return b"#\n" + FILE_TEXT.encode()
    if cls == "comment-x0":
        return b"# x0: abc\n" + FILE_TEXT.encode()
    if cls == "comment-x1":
        return b"# x1:\n" + FILE_TEXT.encode()
    raise ValueError(cls)


def tmpdir():
    if _TMP[0] is None:
        d = tempfile.mkdtemp(prefix="verif_c13_")
        for f in VALID:
            with open(os.path.join(d, f), "w") as fh:
                fh.write(FILE_TEXT)
        for cls, name in CLASS_FILES.items():
            c = class_content(cls)
            path = os.path.join(d, name)
            if c is None:
                continue
            if c == "dir":
                os.mkdir(path)
            elif c == "nc":
                import netCDF4
                nc = netCDF4.Dataset(path, "w")
                nc.createDimension("x", 3)
                v = nc.createVariable("obs", "f4", ("x",))
                v[:] = [1, 2, 3]
                nc.close()
            else:
                with open(path, "wb") as fh:
                    fh.write(c)
        _TMP[0] = d
        import atexit
        import shutil
        atexit.register(shutil.rmtree, d, True)
    return _TMP[0]


class _StubData(object):
    """what driver.run reads from the dataset before it calls the output's entry point; `content` = the parsed
    D= token of the op line (None: the fixed legacy content)"""

    def __init__(self, inputs, content=None):
        self.content = content
        self.thresholds = np.array(content["thr"] if content else [1.0, 2.0])
        self.quantiles = np.array(content["qua"] if content else [0.1, 0.9])
        self.locations = []
        self.times = np.array([1325376000.0])
        self.num_inputs = len(inputs)

    def get_fields(self):
        import verif.field
        fl = self.content["fields"] if self.content else "of"
        return ([verif.field.Obs()] if "o" in fl else []) + ([verif.field.Fcst()] if "f" in fl else [])

    def get_scores(self, field=None, *a, **k):
        import verif.field
        if self.content is None:
            return np.array([0.0, 1.0])
        return np.array(self.content["fcst"] if field == verif.field.Fcst() else self.content["obs"], float)


class Recorder(object):
    def __init__(self):
        self.inputs = None
        self.kwargs = None
        self.pl = None
        self.entry = None
        self.sets = {}


ENTRY_POINTS = ["plot", "text", "csv", "map", "plot_rank", "plot_impact", "plot_mapimpact"]


def call_driver(tokens, configs, content=None, real=False):
    """runs verif.driver.run(["verif"] + tokens) in the temp dir with the recorders installed.
    content: what the stub dataset shows (parsed D= token); real: keep the REAL verif.data.Data (its constructor
    arguments are still recorded).
    -> (status, recorder, stdout)   status: "ok" | "exit:<code>"; other exceptions propagate"""
    import verif.data
    import verif.driver
    import verif.output
    d = tmpdir()
    for n in os.listdir(d):
        if n.endswith(".cfg"):
            os.remove(os.path.join(d, n))
    for n, toks in configs.items():
        with open(os.path.join(d, n), "w") as fh:
            fh.write(cfg_text(toks))
    rec = Recorder()
    real_data = verif.data.Data

    def fake_data(inputs, **kw):
        rec.inputs = list(inputs)
        rec.kwargs = kw
        if real:
            return real_data(inputs, **kw)
        return _StubData(inputs, content)

    def hook(self, name, value):
        f = sys._getframe(1)
        if f.f_code.co_name == "run" and f.f_code.co_filename.endswith("driver.py"):
            rec.sets[name] = value
        object.__setattr__(self, name, value)

    def entry(name):
        def f(self, data):
            rec.pl = self
            rec.entry = name
        return f

    saved = {n: verif.output.Output.__dict__.get(n) for n in ENTRY_POINTS}
    saved_data = verif.data.Data
    had_setattr = "__setattr__" in verif.output.Output.__dict__
    old_setattr = verif.output.Output.__dict__.get("__setattr__")
    cwd = os.getcwd()
    buf = io.StringIO()
    status = "ok"
    try:
        os.chdir(d)
        verif.data.Data = fake_data
        verif.output.Output.__setattr__ = hook
        for n in ENTRY_POINTS:
            setattr(verif.output.Output, n, entry(n))
        import warnings
        with contextlib.redirect_stdout(buf), contextlib.redirect_stderr(io.StringIO()), \
                np.errstate(all="ignore"), warnings.catch_warnings():
            warnings.simplefilter("ignore")
            try:
                verif.driver.run(["verif"] + list(tokens))
            except SystemExit as e:
                status = "exit:%s" % (e.code,)
    finally:
        os.chdir(cwd)
        verif.data.Data = saved_data
        if had_setattr:
            verif.output.Output.__setattr__ = old_setattr
        else:
            del verif.output.Output.__setattr__
        for n in ENTRY_POINTS:
            if saved[n] is not None:
                setattr(verif.output.Output, n, saved[n])
    return status, rec, buf.getvalue()


def _sstr(s):
    return str(s).replace(" ", "+")


def _num(x):
    if isinstance(x, (int, np.integer)) and not isinstance(x, bool):
        return str(int(x))
    if x != x or x in (float("inf"), float("-inf")):
        return xr(float(x))
    return xr(Fraction(repr(float(x))))


def canon(v):
    import verif.aggregator
    import verif.axis
    import verif.field
    import verif.input
    if v is None:
        return "-"
    if isinstance(v, bool):
        return "1" if v else "0"
    if isinstance(v, str):
        return _sstr(v)
    if isinstance(v, verif.input.Input):
        return os.path.basename(v.fullname)
    if isinstance(v, verif.field.Field):
        if isinstance(v, verif.field.Threshold):
            return "threshold:" + _num(v.threshold)
        if isinstance(v, verif.field.Quantile):
            return "quantile:" + _num(v.quantile)
        if isinstance(v, verif.field.Other):
            return "other:" + _sstr(v._name)
        return type(v).__name__.lower()
    if isinstance(v, verif.axis.Axis):
        return type(v).__name__.lower()
    if isinstance(v, verif.aggregator.Aggregator):
        if isinstance(v, verif.aggregator.Quantile):
            return "quantile:" + _num(v.quantile)
        return v.name()
    if isinstance(v, (list, tuple, np.ndarray)):
        v = list(v)
        if not v:
            return "[]"
        if all(isinstance(x, str) for x in v):
            return ",".join(_sstr(x) for x in v)
        return ",".join(_num(x) for x in v)
    if isinstance(v, (int, float, np.integer, np.floating)):
        return _num(v)
    return "?" + type(v).__name__


def describe(status, rec, out, values=False):
    """values: report what driver.run assigned to pl.thresholds / pl.quantiles (ops with a D= token) instead of the
    word `auto` for a default"""
    if status != "ok":
        return "ERR" if status not in ("exit:0", "exit:None") else "EXIT0"
    if rec.kwargs is None:
        return "version" if out.startswith("Version:") else "help"
    data = "files=" + ",".join(os.path.basename(i.fullname) for i in rec.inputs)
    data += ";" + ";".join("%s=%s" % (k, canon(v)) for k, v in rec.kwargs.items())
    if rec.pl is None:
        return ("help " if "usage: verif" in out else "list ") + data
    import verif.metric
    import verif.output
    pl = rec.pl
    cls = type(pl).__name__
    if isinstance(pl, verif.output.Standard):
        m = pl._metric
        if type(m) is verif.metric.FromField:
            f = canon(m._field)
            cls += ":" + (f[6:] if f.startswith("other:") else f)
        else:
            cls += ":" + type(m).__name__.lower()
    elif isinstance(pl, (verif.output.Hist, verif.output.Sort)):
        f = canon(pl._field)
        cls += ":" + (f[6:] if f.startswith("other:") else f)
    attrs = []
    for k in OUT_KEYS:
        if k in ("thresholds", "quantiles") and ("Missing '-%s" % ("r" if k == "thresholds" else "q")) in out \
                and k in rec.sets and not values:
            attrs.append("%s=auto" % k)
        elif k == "show_acc" and "does not support -acc" in out:
            attrs.append("%s=ign" % k)
        elif k == "axis" and "Ignoring it" in out:
            attrs.append("%s=ign" % k)
        elif k in rec.sets:
            v = rec.sets[k]
            attrs.append("%s=%s" % (k, "1" if v is True else canon(v)))
        else:
            attrs.append("%s=-" % k)
    return "run %s out=%s;entry=%s;%s" % (data, cls, rec.entry, ";".join(attrs))


def parse_op(op):
    """-> kind, argv tokens, configs (name -> tokens, `^` = line break)"""
    a = op.split(" ")
    if a[0] == "argvbad":
        kind, a = a[1], [a[0]] + a[2:]
    else:
        kind = None
    configs = {}
    for e in [x for x in a[2][2:].split(";") if x]:
        n, _, t = e.partition("~")
        configs[n] = [x for x in t.split("|") if x]
    toks = [x for x in a[3][2:].split("|") if x]
    return kind, toks, configs


def parse_extras(op):
    """the optional tokens after A=: {"D": parsed dataset content | None, "B": True if the classified files are in
    play (then the real Data is used)}"""
    a = op.split(" ")
    rest = a[5:] if a[0] == "argvbad" else a[4:]
    ex = {"D": None, "B": False}
    for t in rest:
        if t.startswith("D="):
            ex["D"] = parse_data(t[2:])
        elif t.startswith("B="):
            ex["B"] = True
    return ex


def run_cli(toks, configs, ex=None):
    ex = ex or {"D": None, "B": False}
    status, rec, out = call_driver(toks, configs, content=ex["D"], real=ex["B"])
    return describe(status, rec, out, values=ex["D"] is not None)


SUB_TIMEOUT = 5
_SUB_CODE = """
import sys
from fractions import Fraction
import verif.util
try:
    r = verif.util.parse_numbers(sys.argv[1], sys.argv[2] == "1")
except SystemExit as e:
    sys.stdout = sys.__stdout__
    print("@@ERR" if e.code not in (0, None) else "@@EXIT0")
    raise SystemExit(0)
except Exception as e:
    print("@@EXC:" + type(e).__name__)
    raise SystemExit(0)
print("@@" + ",".join("%d/%d" % Fraction(repr(float(x))).as_integer_ratio() if not isinstance(x, int)
                      else "%d/1" % x for x in r))
"""


def impl_sub(s, is_date):
    """parse_numbers in a child process; a call that does not return within SUB_TIMEOUT seconds is HANG"""
    import subprocess
    from common import PY, REPO
    env = dict(os.environ, PYTHONPATH=REPO + os.pathsep + os.environ.get("PYTHONPATH", ""))
    try:
        p = subprocess.run([PY, "-c", _SUB_CODE, s, "1" if is_date else "0"], capture_output=True, text=True,
                           timeout=SUB_TIMEOUT, env=env)
    except subprocess.TimeoutExpired:
        return "HANG"
    for line in p.stdout.splitlines():
        if line.startswith("@@"):
            r = line[2:]
            if r.startswith("E"):
                return r
            return show_nums(Fraction(x) for x in r.split(",")) if r else "[]"
    return "EXC:subprocess"


def impl(op):
    import verif.util
    a = op.split(" ")
    if a[0] == "parse_numbers_sub":
        return impl_sub(a[1][2:], a[2] == "1")
    if a[0] == "parse_numbers":
        with contextlib.redirect_stdout(io.StringIO()):
            try:
                r = verif.util.parse_numbers(a[1][2:], a[2] == "1")
            except SystemExit as e:
                return "ERR" if e.code not in (0, None) else "EXIT0"
        return show_nums(Fraction(repr(float(x))) if not isinstance(x, int) else x for x in r)
    if a[0] == "clilist":
        return impl_list(op)
    if a[0] in ("argv", "argvbad"):
        _, toks, configs = parse_op(op)
        return run_cli(toks, configs, parse_extras(op))
    raise ValueError(op)


# ----------------------------------------------------------------------------------------------
# cli.list: --list-times / --list-dates / --list-locations / --list-thresholds / --list-quantiles on the REAL
# verif.driver.run with the REAL verif.data.Data, on generated text files
# ----------------------------------------------------------------------------------------------
LIST_FLAGS = ["thresholds", "quantiles", "locations", "times", "dates"]          # the order driver.run prints them in
# (id, lat, lon, altitude) as written into the files: fractional values whose second / first decimal is decided
# by rounding the EXACT binary value (2.675 -> 2.67, 1.005 -> 1.00, 0.125 -> 0.12, 0.375 -> 0.38, 0.35 -> 0.3,
# 0.25 -> 0.2, 0.05 -> 0.1), negative values that round to -0.00 / -0.0, an id wider than its column
L_LOCS = [("3", "50.125", "-10.005", "12.25"), ("41", "-0.001", "0.005", "-0.04"),
          ("-7", "89.995", "179.995", "1234.56"), ("100", "60.25", "-120.5", "1500"),
          ("7", "-33.865", "151.215", "0.05"), ("12345", "1.005", "2.675", "0.25"),
          ("999999", "-89.994999", "-179.999", "-430.55"), ("1234567", "0.125", "0.375", "8848.85"),
          ("18", "45", "7.5", "0.35"), ("0", "0", "0", "0"), ("250", "-0.005", "-0.015", "-0.05"),
          ("19", "59.9999", "10.7501", "99.95")]
L_DATES = [20120101, 20120102, 20120229, 20120301, 20111231, 20130101, 19991231, 20000229, 19700101, 20991231,
           21001231, 19500615, 19691231]
L_SECS_H = [0, 21600, 43200, 64800, 10800, 82800, 23400, 1800]       # whole and half hours (date + hour columns)
L_SECS_U = [0, 1, 59, 3599, 3600, 45296, 86399, 43200, 21600]         # any second of the day (unixtime column)
L_LEADS = [0, 6, 12, 24]
L_THR = ["0", "0.5", "1", "2.5", "10", "-3", "1e-05", "123456.7", "1234567", "0.1", "100000", "1000000", "0.25",
         "999999.5", "-0.5"]
L_QUA = ["0.1", "0.25", "0.5", "0.75", "0.9", "0.05", "0.95", "0.333", "0", "1"]
_LCAP = {"on": False}
_LBASE = [None]
_WARN = None


def _strip_warnings(text):
    global _WARN
    if _WARN is None:
        import re
        _WARN = re.compile(r"^\x1b\[1;3[13]m(Warning|Error): .*\x1b\[0m$")
    return "\n".join(l for l in text.split("\n") if not _WARN.match(l))


def esc(s):
    return s.replace("\\", "\\\\").replace("\n", "\\n")


def unesc(s):
    out, i = [], 0
    while i < len(s):
        if s[i] == "\\" and i + 1 < len(s):
            out.append({"n": "\n", "\\": "\\"}.get(s[i + 1], s[i + 1]))
            i += 2
        else:
            out.append(s[i])
            i += 1
    return "".join(out)


def _ut(date):
    return (datetime.date(date // 10000, date // 100 % 100, date % 100) - datetime.date(1970, 1, 1)).days * 86400


def _list_scenario(rng, k):
    """1-3 text files with 2-4 initialisation times that are not all at midnight, several locations, p/q columns
    that differ between the files, a location missing from one file, an extra time in one file; subset options"""
    nf = rng.choice([1, 2, 2, 3])
    sub = k % 3 == 2                        # any second of the day: every file carries a unixtime column
    days = sorted(rng.sample(L_DATES[:10] if rng.random() < 0.85 else L_DATES, rng.randint(1, 3)))
    pool = L_SECS_U if sub else L_SECS_H
    inits = set()
    while len(inits) < rng.randint(2, 4):
        inits.add((rng.choice(days), rng.choice(pool)))
    if all(sec == 0 for _, sec in inits):
        inits.add((days[0], pool[2]))
    inits = sorted(inits)
    extra_init = (20140101, pool[3])
    leads = sorted(rng.sample(L_LEADS, rng.randint(1, 2)))
    locs = rng.sample(L_LOCS, rng.randint(2, 5))
    core_t = rng.sample(L_THR, rng.choice([0, 1, 2, 3, 4]))
    core_q = rng.sample(L_QUA, rng.choice([0, 1, 2, 3]))
    names = rng.sample(["a.txt", "b.txt", "raw.txt", "kf.txt", "m1", "x.y.txt"], nf)
    miss_f = rng.randrange(nf) if nf > 1 and rng.random() < 0.4 else None
    xtra_f = rng.randrange(nf) if rng.random() < 0.4 else None
    files = []
    for f in range(nf):
        mode = "u" if sub or rng.random() < 0.3 else "h"
        i2 = list(inits) + ([extra_init] if f == xtra_f else [])
        l2 = list(leads) + ([48] if rng.random() < 0.2 else [])
        s2 = [s for j, s in enumerate(locs) if not (f == miss_f and j == 1)]
        if rng.random() < 0.3:
            s2.append(rng.choice([s for s in L_LOCS if s not in locs]))
        thr = list(core_t) + [t for t in rng.sample(L_THR, rng.choice([0, 1, 2])) if t not in core_t]
        qua = list(core_q) + [q for q in rng.sample(L_QUA, rng.choice([0, 1])) if q not in core_q]
        if f > 0 and rng.random() < 0.15 and thr:
            thr = thr[1:]                    # one of the common thresholds is absent from this file
        rng.shuffle(thr)
        rng.shuffle(qua)
        idn = rng.choice(["location", "location", "id"])
        eln = rng.choice(["altitude", "altitude", "elev"])
        head = ("unixtime" if mode == "u" else "date hour") + " leadtime %s lat lon %s obs fcst" % (idn, eln)
        head += "".join(" p" + t for t in thr) + "".join(" q" + q for q in qua)
        rows = []
        for (d, sec), l, s in itertools.product(i2, l2, s2):
            tcols = "%d" % (_ut(d) + sec) if mode == "u" else "%d~%s" % (d, dec(Fraction(sec, 3600)))
            vals = ["%g" % rng.choice([0, 1.5, 3, -2, 7.25]), "%g" % rng.choice([0, 2, 3.5, -1, 6])]
            vals += ["%g" % rng.choice([0, 0.25, 0.5, 1]) for _ in thr] + ["%g" % rng.choice([-1, 0, 2.5, 4]) for _ in qua]
            rows.append("~".join([tcols, str(l), s[0], s[1], s[2], s[3]] + vals))
        rng.shuffle(rows)
        files.append({"n": names[f], "h": head.replace(" ", "~"), "r": rows})
    flags = rng.sample(LIST_FLAGS, rng.choice([1, 1, 2, 3, 5]))
    groups = [["--list-" + x] for x in flags]
    ids = [s[0] for s in locs]
    uts = [_ut(d) + sec for d, sec in inits]
    for opt in rng.sample(["-d", "-t", "-tod", "-l", "-lx", "-latrange", "-lonrange", "-elevrange", "-o"],
                          rng.choice([0, 0, 1, 1, 2, 3])):
        if opt == "-d":
            ds = rng.sample(days + [20140101], rng.randint(1, 2))
            v = rng.choice([",".join(map(str, ds)), "%d:%d" % (min(days), max(days)), "%d" % days[0],
                            ymd(datetime.date(days[0] // 10000, days[0] // 100 % 100, days[0] % 100)
                                - datetime.timedelta(days=1)) + ":2:%d" % days[-1]])
        elif opt == "-t":
            v = ",".join(str(x) for x in sorted(rng.sample(uts + [uts[0] + 7], rng.randint(1, len(uts)))))
        elif opt == "-tod":
            hs = sorted({sec // 3600 for _, sec in inits} | {rng.choice([0, 6, 12, 18])})
            v = ",".join(str(h) for h in rng.sample(hs, rng.randint(1, len(hs))))
        elif opt in ("-l", "-lx"):
            v = ",".join(rng.sample(ids + ["555"], rng.randint(1, max(1, len(ids) - 1))))
        elif opt == "-latrange":
            v = rng.choice(["-90,90", "0,60", "-40,1.005", "50.125,89.995", "-0.001,0.125", "60,61"])
        elif opt == "-lonrange":
            v = rng.choice(["-180,180", "0,180", "-130,0.005", "2.675,151.215", "170,171"])
        elif opt == "-elevrange":
            v = rng.choice(["-500,9000", "0,100", "0.05,12.25", "1000,2000", "-0.05,0.35", "5000,6000"])
        else:
            v = ",".join(str(x) for x in rng.sample(leads + [48, 3], rng.randint(1, 2)))
        groups.append([opt, v])
    rng.shuffle(groups)
    return {"files": files, "args": [t for g in groups for t in g]}


def _lbase():
    if _LBASE[0] is None:
        import atexit
        import shutil
        _LBASE[0] = tempfile.mkdtemp(prefix="verif_c13l_")
        atexit.register(shutil.rmtree, _LBASE[0], True)
    return _LBASE[0]


def _install_list_capture():
    import verif.data
    if getattr(verif.data, "_c13_patched", False):
        return
    verif.data._c13_patched = True
    orig = verif.data.Data.__init__

    def init(self, *a, **k):
        orig(self, *a, **k)
        if _LCAP["on"]:
            _LCAP["data"] = self
    verif.data.Data.__init__ = init


def _run_list(scen, capture=False):
    """the real driver on the scenario's files -> dict(status ok|exit|exc:<Type>, out, [data])"""
    import shutil
    import warnings
    import verif.driver
    _install_list_capture()
    d = tempfile.mkdtemp(dir=_lbase())
    res = {"status": "ok", "out": ""}
    cwd = os.getcwd()
    try:
        for fl in scen["files"]:
            with open(os.path.join(d, fl["n"]), "w") as f:
                f.write(fl["h"].replace("~", " ") + "\n")
                for r in fl["r"]:
                    f.write(r.replace("~", " ") + "\n")
        buf = io.StringIO()
        _LCAP.clear()
        _LCAP["on"] = capture
        try:
            os.chdir(d)
            with contextlib.redirect_stdout(buf), contextlib.redirect_stderr(io.StringIO()), \
                    np.errstate(all="ignore"), warnings.catch_warnings():
                warnings.simplefilter("ignore")
                verif.driver.run(["verif"] + [fl["n"] for fl in scen["files"]] + list(scen["args"]))
        except SystemExit:
            res["status"] = "exit"
        except Exception as e:
            res["status"] = "exc:" + type(e).__name__
        finally:
            os.chdir(cwd)
            _LCAP["on"] = False
        res["out"] = _strip_warnings(buf.getvalue())
        if capture and "data" in _LCAP:
            res["data"] = _LCAP["data"]
    finally:
        shutil.rmtree(d, True)
    return res


def _list_op(scen):
    """run the real code once to capture the verified dimensions of the Data object it built"""
    import json
    res = _run_list(scen, capture=True)
    tok = json.dumps(scen, separators=(",", ":"), ensure_ascii=True)
    assert " " not in tok
    flags = ",".join(x for x in LIST_FLAGS if "--list-" + x in scen["args"])
    data = res.get("data")
    if data is None:
        return "clilist %s T=? L=? R=? Q=? S=%s" % (flags, tok)
    try:
        T = ",".join("%d" % int(t) for t in data.times) or "-"
        L = ";".join(":".join(xr(float(v)) for v in (l.id, l.lat, l.lon, l.elev)) for l in data.locations) or "-"
        R = ",".join(xr(float(v)) for v in data.thresholds) or "-"
        Q = ",".join(xr(float(v)) for v in data.quantiles) or "-"
    except Exception:
        return "clilist %s T=? L=? R=? Q=? S=%s" % (flags, tok)
    return "clilist %s T=%s L=%s R=%s Q=%s S=%s" % (flags, T, L, R, Q, tok)


def lean_op(op):
    """corpus lines of stream cli.list carry `T=! L=! R=! Q=!`: the verified dimensions are captured from the real run
    when the line is evaluated (a corpus line must not pin what the code computed on the day it was written)"""
    if op.startswith("clilist ") and " T=! " in op:
        return _list_op(_list_scen_of(op))
    return op


def _list_scen_of(op):
    import json
    return json.loads(op.split(" ", 6)[6][2:])


def impl_list(op):
    res = _run_list(_list_scen_of(op))
    return esc(res["out"]) if res["status"] == "ok" else "RUN:" + res["status"]


def list_cmdline(scen):
    return "verif " + " ".join(fl["n"] for fl in scen["files"]) + " " + " ".join(scen["args"])


# ---- the oracle: verified dimensions recomputed from the rows, formatted from the documentation
def _fixed(x, k, w):
    """'%{w}.{k}f' written out: the exact binary value rounded half-to-even to k decimals (sign kept), right-justified"""
    from decimal import Decimal, ROUND_HALF_EVEN
    return format(Decimal(x).quantize(Decimal(1).scaleb(-k), rounding=ROUND_HALF_EVEN), "f").rjust(w)


def _civil_of(t):
    d = datetime.date(1970, 1, 1) + datetime.timedelta(days=t // 86400)
    return d.year * 10000 + d.month * 100 + d.day


def _opt(args, flag):
    return args[args.index(flag) + 1] if flag in args else None


def _list_expect(scen, tod_floor=False, date_trunc=False):
    """-> ("ERR", why, False) | ("OUT", text, empty_by_day_filter).  tod_floor: -tod read as 'the hour of the day the
    time falls in' (the documentation does not say what happens to 06:30); date_trunc: the day of a time computed
    with truncation toward zero (the behaviour of the code before the repair fix_predate, used only to name that failure)"""
    args = scen["args"]
    per = []
    for fl in scen["files"]:
        head = fl["h"].split("~")
        col = {n: i for i, n in enumerate(head)}
        times, leads, locs = set(), set(), {}
        for r in fl["r"]:
            w = r.split("~")
            if "unixtime" in col:
                t = Fraction(w[col["unixtime"]])
            else:
                t = _ut(int(w[col["date"]])) + Fraction(w[col["hour"]]) * 3600
            assert t.denominator == 1
            times.add(int(t))
            leads.add(Fraction(w[col["leadtime"]]))
            i = float(w[col["location" if "location" in col else "id"]])
            locs.setdefault(i, (w[col["lat"]], w[col["lon"]], w[col["altitude" if "altitude" in col else "elev"]]))
        per.append({"times": times, "leads": leads, "locs": locs,
                    "thr": {float(n[1:]) for n in head if n[0] == "p" and len(n) > 1},
                    "qua": {float(n[1:]) for n in head if n[0] == "q" and len(n) > 1}})
    inter = lambda key: set.intersection(*[set(p[key]) for p in per])
    times, leads, ids = inter("times"), inter("leads"), inter("locs")
    thr, qua = sorted(inter("thr")), sorted(inter("qua"))
    v = _opt(args, "-t")
    if v is not None:
        times &= {int(x) for x in doc_numbers(v) if x.denominator == 1}
    v = _opt(args, "-o")
    if v is not None:
        leads &= set(doc_numbers(v))
    first = per[0]["locs"]
    v = _opt(args, "-l")
    if v is not None:
        ids &= {float(x) for x in doc_numbers(v)}
    v = _opt(args, "-lx")
    if v is not None:
        ids -= {float(x) for x in doc_numbers(v)}
    for flag, j in (("-latrange", 0), ("-lonrange", 1), ("-elevrange", 2)):
        v = _opt(args, flag)
        if v is not None:
            lo, hi = doc_numbers(v)
            ids = {i for i in ids if lo <= Fraction(first[i][j]) <= hi}
    if not times:
        return ("ERR", "no common time", False)
    if not leads:
        return ("ERR", "no common lead time", False)
    if not ids:
        return ("ERR", "no common location", False)
    n0 = len(times)
    v = _opt(args, "-d")
    if v is not None:
        dd = set(doc_dates(v))
        day = (lambda t: _civil_of(int(t / 86400) * 86400)) if date_trunc else _civil_of
        times = {t for t in times if day(t) in dd}
    v = _opt(args, "-tod")
    if v is not None:
        hh = set(doc_numbers(v))
        times = {t for t in times if (Fraction(t % 86400 // 3600) if tod_floor else Fraction(t % 86400, 3600)) in hh}
    times, ids = sorted(times), sorted(ids)
    out = ""
    if "--list-thresholds" in args:
        out += "Thresholds: " + "".join("%g " % x for x in thr) + "\n"
    if "--list-quantiles" in args:
        out += "Quantiles: " + "".join("%g " % x for x in qua) + "\n"
    if "--list-locations" in args:
        out += "    id     lat     lon    elev\n"
        for i in ids:
            lat, lon, elev = [float(x) for x in first[i]]
            out += "%s %s %s %s\n" % (str(int(i)).rjust(6), _fixed(lat, 2, 7), _fixed(lon, 2, 7), _fixed(elev, 1, 7))
        out += "\n"
    if "--list-times" in args:
        out += "".join("%d\n" % t for t in times) + "\n"
    if "--list-dates" in args:
        for t in times:
            s = t % 86400
            out += "%d %02d:%02d:%02d\n" % (_civil_of(t), s // 3600, s % 3600 // 60, s % 60)
        out += "\n"
    return ("OUT", out, len(times) == 0 and n0 > 0)


def judge_list(op, impl_out):
    scen = _list_scen_of(op)
    line = list_cmdline(scen)
    if impl_out.startswith("RUN:exc:") or impl_out.startswith("EXC:"):
        return ({"kind": "exception", "site": "list", "exc": impl_out.split(":")[-1]},
                "`%s` raises %s" % (line, impl_out.split(":")[-1]))
    want = _list_expect(scen)
    alt = _list_expect(scen, tod_floor=True)
    if impl_out == "RUN:exit":
        if want[0] == "ERR" or alt[0] == "ERR" or want[2] or alt[2]:
            return None
        return ({"kind": "list-rejected", "site": "list"},
                "`%s` exits with an error although every verified dimension is non-empty; expected\n%s" % (line, want[1]))
    got = unesc(impl_out)
    if want[0] == "ERR":
        return ({"kind": "list-not-rejected", "site": "list", "why": want[1]},
                "`%s` lists although there is %s:\n%s" % (line, want[1], got))
    if got == want[1] or got == alt[1]:
        return None
    if "-d" in scen["args"] and got == _list_expect(scen, date_trunc=True)[1]:
        return ({"kind": "list-output", "site": "dates-pre-1970"},
                "`%s`: -d keeps the initialisation times of the wrong day before 1970 (the day of a time is computed "
                "with int(t / 86400), which rounds toward zero)\n  got      %r\n  expected %r" % (line, got, want[1]))
    return ({"kind": "list-output", "site": "list"},
            "`%s` does not print the verified dimensions of the files:\n  got      %r\n  expected %r" % (line, got, want[1]))


# ----------------------------------------------------------------------------------------------
# comparison with the model (wildcards: defaults the model does not compute)
# ----------------------------------------------------------------------------------------------
def _fields(line):
    head, _, rest = line.partition(" ")
    d = {"stage": head}
    for part in rest.replace(" ", ";").split(";"):
        k, _, v = part.partition("=")
        d[k] = v
    return d


def same(a, b):
    """a = implementation line, b = model/oracle line"""
    if a == b:
        return True, None
    if " " not in a or " " not in b:
        return False, "stage"
    fa, fb = _fields(a), _fields(b)
    for k in list(fa) + [k for k in fb if k not in fa]:
        x, y = fa.get(k), fb.get(k)
        if x == y:
            continue
        if x in ("auto", "ign") or y == "*":
            continue
        if k in ("thresholds", "quantiles") and x is not None and y is not None and tokens_close(x, y):
            continue
        return False, k
    return True, None


def cmp(op, impl_out, model_out):
    if op.startswith("clilist "):
        # byte-exact; NOCAP = the real run built no dataset (it then must have ended in an error or an exception)
        return impl_out == model_out or (model_out == "NOCAP" and impl_out.startswith("RUN:"))
    return same(impl_out, model_out)[0]


# ----------------------------------------------------------------------------------------------
# the documented meaning of a command line, evaluated independently of model and code
# ----------------------------------------------------------------------------------------------
def split_groups(toks):
    """documented grammar -> (items, ok): items = ('file', name) | ('opt', flag, value|None)"""
    items = []
    i = 0
    while i < len(toks):
        t = toks[i]
        if not t.startswith("-"):
            items.append(("file", t))
            i += 1
            continue
        ar = arity(t)
        if ar is None:
            return items, "unknown-flag"
        if ar == 0:
            items.append(("opt", t, None))
            i += 1
        else:
            if i + 1 >= len(toks):
                return items, "missing-value"
            items.append(("opt", t, toks[i + 1]))
            i += 2
    return items, None


def doc_value(flag, val):
    """-> canonical string, None (must be rejected) or 'undefined'"""
    syn = DOC[flag][2]
    if syn in ("numbers", "range2", "unit", "ints"):
        v = doc_numbers(val)
        if v is None:
            return None
        if syn == "range2" and len(v) != 2:
            return None
        if syn == "unit" and (not v or min(v) < 0 or max(v) > 1):
            return None if v else "undefined"
        if syn == "ints":
            if any(x.denominator != 1 for x in v):
                return "undefined"
        return show_nums(v)
    if syn == "dates":
        v = doc_dates(val)
        return v if v is None or v == "undefined" else show_nums(v)
    if syn == "file":
        return val if val in VALID + [CLASS_FILES[c] for c in ACCEPTED_CLASSES] else None
    if syn == "field":
        if val in ("obs", "fcst", "pit"):
            return val
        for p in ("threshold:", "quantile:"):
            if val.startswith(p):
                q = doc_float(val[len(p):])
                return "undefined" if q is None else p + xr(q)
        if val in ("spread", "ensemble", "field", "other", "quantile", "threshold"):
            return "undefined"
        return "other:" + val
    if syn == "posint":
        import re
        if not re.fullmatch(r"[-+]?\d+", val):
            return None
        return None if int(val) <= 0 else str(int(val))
    if syn == "agg":
        if val in DOC_AGGS:
            return val
        q = doc_float(val)
        if q is None or q < 0 or q > 1:
            return None
        return "quantile:" + xr(q)
    if syn == "axis":
        if flag == "-Tx":
            return val if val in ("time", "leadtime") else ("undefined" if val in DOC_AXES else None)
        return val if val in DOC_AXES else ("undefined" if val in ("obs", "fcst", "all", "dayofmonth", "axis") else None)
    if syn == "legend":
        return ",".join(x.replace("_", "+") for x in val.split(","))
    if syn == "str":
        return val.replace(" ", "+")
    return "undefined"


def inline_config(toks, configs):
    """--config file: "Read further arguments from this file."  FURTHER arguments: the tokens of the file (all its
    lines, split at white space) follow the arguments of the command line, in the order of the --config options
    (ASSUMPTIONS).  -> token list, or None if a config file is missing / unnamed"""
    full, extra = [], []
    i = 0
    while i < len(toks):
        if toks[i] == "--config":
            if i + 1 >= len(toks) or toks[i + 1] not in configs:
                return None
            extra += cfg_tokens(configs[toks[i + 1]])
            i += 2
        else:
            full.append(toks[i])
            i += 1
    return full + extra


def doc_defaults(m, opts, vals, content, cls):
    """the documented values of pl.thresholds / pl.quantiles for metric m on the dataset `content`, computed with
    exact fractions from the D= token and the hand-written table REQ.
    -> "ERR" | (thresholds, quantiles) as canonical strings, "*" = the documentation does not say"""
    need = REQ.get(m)
    if cls.startswith("Hist"):
        need = "det"                    # "Plot values as histogram": the bins are thresholds on the values
    if opts.get("-type") == "impact" and not isinstance(need, tuple):
        need = "det"                    # the impact plot bins the observed / forecast values
    thr = vals.get("-r", "-")
    qua = vals.get("-q", "-")
    if opts.get("-x") in ("threshold", "obs", "fcst"):
        if m not in THRESHOLD_AXIS_OK or cls.split(":")[0] in ("Hist", "Sort"):
            thr = "*"                   # the axis may be ignored with a warning; what then becomes of -r is not
                                        # documented
    if isinstance(need, tuple):
        _, lo, hi = need
        if "-q" in opts:
            n = len(doc_numbers(opts["-q"]))
        else:
            n = len(content["qua"])
            qua = show_nums(Fraction(x) for x in content["qua"]) if n else "[]"
        if (lo is not None and n < lo) or (hi is not None and n > hi):
            return "ERR"
        return "*", qua                 # where the quantiles are kept internally is not documented
    if "-r" in opts:
        return thr, qua
    if need == "thr":
        if not content["thr"]:
            return "ERR"                # "No thresholds available"
        return show_nums(Fraction(x) for x in content["thr"]), qua
    if need == "det":
        present = [content[k] for k, c in (("obs", "o"), ("fcst", "f")) if c in content["fields"]]
        finite = [[Fraction(x) for x in v if x == x] for v in present]
        if not present or any(not v for v in finite):
            return "*", qua             # no observed / forecast value at all in one of the fields
        lo, hi = min(min(v) for v in finite), max(max(v) for v in finite)
        return show_nums(lo + (hi - lo) * Fraction(k, 19) for k in range(20)), qua
    return thr, qua


def doc_eval(toks, configs, content=None):
    """-> expected canonical line, or None when the documentation does not determine it"""
    full = inline_config(toks, configs)
    if full is None:
        return "ERR"
    items, bad = split_groups(full)
    if bad:
        return "ERR"
    flags = [it[1] for it in items if it[0] == "opt"]
    if len(set(flags)) != len(flags) or ("-c" in flags and "-C" in flags):
        return None
    files = [it[1] for it in items if it[0] == "file"]
    opts = {it[1]: it[2] for it in items if it[0] == "opt"}
    vals = {}
    reject = False
    for f, v in opts.items():
        if f in DOC and DOC[f][2] != "flag":
            r = doc_value(f, v)
            if r == "undefined":
                return None
            if r is None:
                reject = True
            vals[f] = r
    if "--version" in opts:
        return None if reject else "version"
    if reject or any(f not in VALID + [CLASS_FILES[c] for c in ACCEPTED_CLASSES] for f in files):
        return "ERR"
    listing = [f for f in opts if f.startswith("--list-")]
    data = {k: "-" for k in DATA_KEYS}
    data.update({"clim_type": "subtract", "obs_field": "obs", "fcst_field": "fcst", "dim_agg_axis": "leadtime",
                 "dim_agg_method": "mean"})
    for f, v in vals.items():
        where, target, _ = DOC[f]
        if where == "data":
            data[target] = v
            if f in ("-c", "-C"):
                data["clim_type"] = "subtract" if f == "-c" else "divide"
    dline = "files=" + ",".join(files) + ";" + ";".join("%s=%s" % (k, data[k]) for k in DATA_KEYS)
    if listing:
        return "ERR" if not files else "list " + dline
    if not files:
        return "help"
    if "-m" not in opts or "--help" in opts:
        return "help " + dline
    m = opts["-m"]
    ptype = opts.get("-type", "plot")
    if ptype not in DOC_ENTRY:
        return None
    if any(f in opts for f in ("-fs", "-maptype", "-lc")):
        return None
    if m in SPECIAL:
        cls = SPECIAL[m]
    elif m in STD_METRICS + FIELD_METRICS + THR_METRICS + Q_METRICS:
        cls = ("Sort" if "-sort" in opts else "Hist" if "-hist" in opts else "Standard") + ":" + m
        if "-sort" in opts and "-hist" in opts:
            return None
    else:
        return None
    out = {k: "-" for k in OUT_KEYS}
    for f, v in vals.items():
        if DOC[f][0] == "out":
            out[DOC[f][1]] = v
    if "-acc" in opts:
        out["show_acc"] = "1"
    if content is not None:
        r = doc_defaults(m, opts, vals, content, cls)
        if r == "ERR":
            return "ERR"
        out["thresholds"], out["quantiles"] = r
    elif m in THR_METRICS + Q_METRICS:
        out["thresholds"] = out["quantiles"] = "*"
    return "run %s out=%s;entry=%s;%s" % (dline, cls, DOC_ENTRY[ptype], ";".join("%s=%s" % (k, out[k]) for k in OUT_KEYS))


def _shuffled(toks, seed):
    """option groups permuted, relative order of file names kept (documented grammar)"""
    import random
    items, bad = split_groups(toks)
    if bad:
        return None
    r = random.Random(seed)
    files = [it for it in items if it[0] == "file"]
    opts = [it for it in items if it[0] == "opt"]
    r.shuffle(opts)
    seq = list(opts)
    for off, (p, f) in enumerate(zip(sorted(r.randint(0, len(seq)) for _ in files), files)):
        seq.insert(p + off, f)
    out = []
    for it in seq:
        out += [it[1]] if it[0] == "file" else ([it[1]] if it[2] is None else [it[1], it[2]])
    return out


def judge(op, impl_out, spec_out):
    a = op.split(" ")
    if a[0] == "clilist":
        return judge_list(op, impl_out)
    if a[0] in ("parse_numbers", "parse_numbers_sub"):
        s, is_date = a[1][2:], a[2] == "1"
        if impl_out == "HANG":
            return ({"kind": "date-fractional-step-hang", "site": "parse_dates"},
                    "parse_numbers(%r, is_date=%s) does not return within %d s" % (s, is_date, SUB_TIMEOUT))
        want = doc_dates(s) if is_date else doc_numbers(s)
        if any(c not in "-0123456789.:," for c in s):
            want = None
        if want == "undefined":
            if impl_out.startswith("EXC:"):
                return ({"kind": "undocumented-raises", "exc": impl_out[4:], "site": "parse_dates"},
                        "parse_numbers(%r, is_date=True) raises %s" % (s, impl_out[4:]))
            return None
        if want is None:
            if impl_out == "ERR":
                return None
            if impl_out.startswith("EXC:"):
                return ({"kind": "malformed-raises", "exc": impl_out[4:], "site": "parse_numbers"},
                        "parse_numbers(%r) raises %s instead of an error message" % (s, impl_out[4:]))
            return ({"kind": "malformed-accepted", "site": "parse_numbers"},
                    "parse_numbers(%r) accepted a malformed string: %s" % (s, impl_out))
        exp = show_nums(want)
        if impl_out.startswith("EXC:") and is_date and ":-" in s:
            return ({"kind": "date-negative-step", "exc": impl_out[4:], "site": "parse_dates"},
                    "parse_numbers(%r, is_date=True) raises %s; documented a:step:b gives %s" % (s, impl_out[4:], exp))
        if impl_out != exp:
            return ({"kind": "vector-syntax", "site": "parse_dates" if is_date else "parse_numbers"},
                    "parse_numbers(%r, %s) = %s, documented meaning %s" % (s, is_date, impl_out, exp))
        return None
    kind, toks, configs = parse_op(op)
    ex = parse_extras(op)
    line = " ".join(["verif"] + toks) + ("".join("  [%s: %r]" % (n, cfg_text(t)) for n, t in sorted(configs.items())))
    if kind is not None:
        if impl_out == "ERR":
            return None
        site = {"malformed-vector": "parse_numbers", "malformed-scalar": "scalar-option"}.get(kind, kind)
        sig = {}
        if kind.startswith("bad-file:"):
            site, sig = "bad-file", {"class": kind[len("bad-file:"):]}
            c = class_content(sig["class"])
            line += "  [%s: %s]" % (CLASS_FILES[sig["class"]], "no such file" if c is None else
                                   "a directory" if c == "dir" else "a NetCDF file with the single dimension x" if c == "nc"
                                   else repr(c[:80]))
        if impl_out.startswith("EXC:"):
            return (dict({"kind": "malformed-raises", "exc": impl_out[4:], "site": site}, **sig),
                    "`%s` (%s) ends in an unhandled %s instead of an error message" % (line, kind, impl_out[4:]))
        return (dict({"kind": "not-rejected", "site": site}, **sig),
                "`%s` (%s) is not rejected: %s" % (line, kind, impl_out[:200]))
    if impl_out.startswith("EXC:"):
        return ({"kind": "exception", "exc": impl_out[4:]}, "`%s` raises %s" % (line, impl_out[4:]))
    want = doc_eval(toks, configs, ex["D"])
    if want is not None:
        ok, key = same(impl_out, want)
        if not ok:
            return ({"kind": "wiring", "key": key},
                    "`%s`: %s differs from the documented meaning\n  got      %s\n  expected %s" %
                    (line, key, impl_out, want))
    items, bad = split_groups([t for t in toks])
    flags = [it[1] for it in items if it[0] == "opt"]
    allflags = flags + [it[1] for n in configs for it in split_groups(cfg_tokens(configs[n]))[0] if it[0] == "opt"]
    distinct = len(set(allflags)) == len(allflags) and not ("-c" in allflags and "-C" in allflags) and not bad
    if distinct and not impl_out.startswith("E"):
        seed = zlib.crc32(op.encode())
        # metamorphic 1: option order is irrelevant
        alt = _shuffled(toks, seed)
        if alt is not None:
            try:
                got = run_cli(alt, configs, ex)
            except Exception as e:
                got = "EXC:" + type(e).__name__
            if not same(got, impl_out)[0] or not same(impl_out, got)[0]:
                return ({"kind": "order"}, "option order matters:\n  `%s` -> %s\n  `%s` -> %s" %
                        (line, impl_out, " ".join(["verif"] + alt), got))
        # metamorphic 2: arguments read through --config act as if given inline AFTER the arguments of the command
        # line (file names included), however they are spread over the lines of the file
        flat = lambda its: [t for it in its for t in ([it[1]] if it[0] == "file" or it[2] is None else [it[1], it[2]])]
        if configs:
            ctoks, ccfg = toks, configs
            inl = inline_config(toks, configs)
            got_cfg = impl_out
        else:
            # move the trailing half of the arguments (options and files, one per line, or all on one line) into a
            # config file
            k = len(items) // 2
            inl = toks
            tail = [flat([it]) for it in items[k:]]
            sep = ["^"] if seed % 2 else []
            ctoks = flat(items[:k]) + ["--config", "m.cfg"]
            ccfg = {"m.cfg": [t for j, g in enumerate(tail) for t in (sep if j else []) + g]}
            got_cfg = None
        try:
            got_inline = run_cli(inl, {}, ex) if configs else impl_out
            if got_cfg is None:
                got_cfg = run_cli(ctoks, ccfg, ex)
        except Exception as e:
            got_inline, got_cfg = "EXC:" + type(e).__name__, got_cfg or impl_out
        if not same(got_cfg, got_inline)[0] or not same(got_inline, got_cfg)[0]:
            return ({"kind": "config-inline"},
                    "--config differs from inline:\n  `%s` %s -> %s\n  `%s` -> %s" %
                    (" ".join(["verif"] + ctoks), ccfg, got_cfg, " ".join(["verif"] + inl), got_inline))
    return None


def nontrivial(op, out):
    if out.startswith("E") or out in ("help", "version"):
        return False
    if op.startswith("parse_numbers"):
        return out.count(",") >= 1 and out != "HANG"
    if op.startswith("clilist "):
        return not out.startswith("RUN:") and out.count("\\n") >= 3
    _, toks, configs = parse_op(op)
    alltoks = toks + [t for c in configs.values() for t in c]
    if " D=" in op and ("thresholds=-;" not in out or "quantiles=-;" not in out):
        return True
    return any(t in DOC and DOC[t][0] in ("data", "out") for t in alltoks)


def _shrink_list(op):
    """smaller listing scenarios: one --list-* flag, one subset option less, one file less"""
    scen = _list_scen_of(op)
    args = scen["args"]
    groups, i = [], 0
    while i < len(args):
        n = 1 if args[i].startswith("--list-") else 2
        groups.append(args[i:i + n])
        i += n
    lists = [g for g in groups if g[0].startswith("--list-")]
    subs = [g for g in groups if not g[0].startswith("--list-")]
    flat = lambda gs: [t for g in gs for t in g]
    for g in lists:
        if len(lists) > 1:
            yield _list_op(dict(scen, args=flat([g] + subs)))
    for k in range(len(subs)):
        yield _list_op(dict(scen, args=flat(lists + subs[:k] + subs[k + 1:])))
    for k in range(len(scen["files"])):
        if len(scen["files"]) > 1:
            yield _list_op(dict(scen, files=scen["files"][:k] + scen["files"][k + 1:]))


def shrink(op):
    if op.startswith("clilist "):
        for x in _shrink_list(op):
            yield x
        return
    if not op.startswith("argv "):
        return
    _, toks, configs = parse_op(op)
    items, bad = split_groups(toks)
    if bad or configs:
        return
    flat = lambda its: [t for it in its for t in ([it[1]] if it[0] == "file" or it[2] is None else [it[1], it[2]])]
    base = [it for it in items if it[0] == "file" or it[1] == "-m"]
    dtok = [t[2:] for t in op.split(" ")[4:] if t.startswith("D=")]
    dtok = dtok[0] if dtok else None
    if " B=" in op:
        return
    for k in range(len(items)):            # smallest first: files, -m and one option group
        if items[k][0] == "opt" and items[k][1] != "-m":
            yield mkop("argv", flat(base + [items[k]]), {}, data=dtok)
    for k in range(len(items)):
        if items[k][0] == "opt" and items[k][1] != "-m":
            yield mkop("argv", flat(items[:k] + items[k + 1:]), {}, data=dtok)


def extra_evidence(rows):
    flags = {}
    stages = {}
    for r in rows:
        if r["op"].startswith("argv"):
            _, toks, configs = parse_op(r["op"])
            for t in toks + [t for c in configs.values() for t in c]:
                if t.startswith("-") and arity(t) is not None:
                    flags[t] = flags.get(t, 0) + 1
            st = r["impl"].split(" ")[0]
            stages[st] = stages.get(st, 0) + 1
    lists, classes = {}, {}
    for r in rows:
        if r["op"].startswith("clilist "):
            k = r["op"].split(" ")[1] + (" ERR" if r["impl"].startswith("RUN:") else "")
            lists[k] = lists.get(k, 0) + 1
        elif r["op"].startswith("argvbad bad-file:"):
            k = r["op"].split(" ")[1][9:] + " -> " + r["impl"].split(" ")[0]
            classes[k] = classes.get(k, 0) + 1
    return {"input_distribution": {"flag_counts": flags, "cli_outcomes": stages,
                                   "with_config": sum(1 for r in rows if "--config" in r["op"]),
                                   "multi_line_config": sum(1 for r in rows if "|^" in r["op"] or "~^" in r["op"]),
                                   "with_dataset_content": sum(1 for r in rows if " D=" in r["op"]),
                                   "listings": lists, "bad_file_classes": classes}}


# ----------------------------------------------------------------------------------------------
# cli.badreal: unknown names that are rejected only at run time, by the REAL Data / output classes (AUDIT4 C13):
# unknown metric (-m bogus: read as a field name, "<file> does not contain 'bogus'"), unknown field (-obs / -fcst
# bogus), unknown bin type with a metric that uses it (-m ets -r 1 -b bogus: "Unrecognized bintype"), unknown -type.
# Nothing is stubbed: verif.driver.run on a real text file, -type csv.  Oracle: the run must end in the error exit
# (SystemExit with a non-zero code), not in a table and not in a traceback.  Implementation-only (the argument-loop
# model stops at the call of the output's entry point; the missing-field error itself is C01's / Model/Data's).
_REAL_FILE = ("date hour leadtime location lat lon altitude obs fcst p1 q0.5\n"
              "20120101 0 0 1 40 10 100 1 2 0.5 1.5\n20120101 0 6 1 40 10 100 2 2 0.3 1.0\n"
              "20120102 0 0 1 40 10 100 3 1 0.1 2.0\n20120102 0 6 1 40 10 100 0 1 0.9 3.0\n")
_REAL_CASES = (
    [("unknown-metric", ["-m", m]) for m in ("bogus", "MAE", "maee", "rmse2")] +
    [("unknown-field", ["-m", "mae", f, n]) for f in ("-obs", "-fcst") for n in ("bogus", "Obs", "p2", "q0.9")] +
    [("unknown-bin", ["-m", m, "-r", "1", "-b", b]) for m in ("ets", "hit", "freq") for b in ("bogus", "Below")] +
    [("unknown-type", ["-m", "mae", "-type", t]) for t in ("bogus", "CSV")])


def _gen_badreal():
    for kind, toks in _REAL_CASES:
        tail = [] if "-type" in toks else ["-type", "csv"]
        yield "cli.badreal", "realbad %s A=%s" % (kind, "|".join(["a.txt"] + toks + tail))


def _impl_badreal(op):
    import shutil
    import tempfile
    import warnings
    import verif.driver
    toks = op.split(" ")[2][2:].split("|")
    d = tempfile.mkdtemp(prefix="verifc13real")
    cwd = os.getcwd()
    buf = io.StringIO()
    try:
        with open(os.path.join(d, "a.txt"), "w") as fh:
            fh.write(_REAL_FILE)
        os.chdir(d)
        try:
            with contextlib.redirect_stdout(buf), contextlib.redirect_stderr(io.StringIO()), \
                    np.errstate(all="ignore"), warnings.catch_warnings():
                warnings.simplefilter("ignore")
                verif.driver.run(["verif"] + toks)
        except SystemExit as e:
            return "ERR" if e.code not in (0, None) else "EXIT0"
        return "OK:" + buf.getvalue().strip().replace("\n", "/").replace(" ", "+")[:120]
    finally:
        os.chdir(cwd)
        shutil.rmtree(d, ignore_errors=True)


_gen_ops_b, _impl_b, _judge_b, _cmp_b, _spec_op_b, _nontrivial_b = \
    gen_ops, impl, judge, cmp, globals().get("spec_op"), globals().get("nontrivial")


def gen_ops(tier, rng):
    for s in _gen_ops_b(tier, rng):
        yield s
    for s in _gen_badreal():
        yield s


def impl(op):
    return _impl_badreal(op) if op.startswith("realbad ") else _impl_b(op)


def cmp(op, impl_out, model_out):
    return True if op.startswith("realbad ") else _cmp_b(op, impl_out, model_out)


def spec_op(op):
    if op.startswith("realbad ") or _spec_op_b is None:
        return None
    return _spec_op_b(op)


def judge(op, impl_out, spec_out):
    if op.startswith("realbad "):
        a = op.split(" ")
        line = "verif " + " ".join(a[2][2:].split("|"))
        if impl_out == "ERR":
            return None
        if impl_out.startswith("EXC:"):
            return ({"kind": "malformed-raises", "exc": impl_out[4:], "site": "real:" + a[1]},
                    "`%s` (%s) ends in an unhandled %s instead of an error message" % (line, a[1], impl_out[4:]))
        return ({"kind": "not-rejected", "site": "real:" + a[1]},
                "`%s` (%s) is not rejected: %s" % (line, a[1], impl_out[:200]))
    return _judge_b(op, impl_out, spec_out)


def nontrivial(op, out):
    if op.startswith("realbad "):
        return out == "ERR"
    return _nontrivial_b(op, out) if _nontrivial_b is not None else True
