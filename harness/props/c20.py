"""C20 — helper scripts (accumulate, ens2prob, expandverif; window and text2nc ride along).

One op describes a complete input file plus the script options.  `impl` writes that file
(NetCDF or verif text format) into a private temp dir, runs the REAL script from
$VERIF_REPO/scripts in-process (its own `main()` with `sys.argv` set), reads the output file
back with netCDF4 and prints one canonical line.  The Lean driver computes the same line from
the model.  `judge` recomputes the documented result from the input with exact fractions.

FILE = <fmt> <name> <units> <times> <leads> <ids> <lats> <lons> <elevs> <obs|none> <fcst|none> <M> <ens>
fmt: nc (NaN = missing) | ncm (masked/fill value = missing) | txt (unixtime column) | txtd (date+hour)
"""
import atexit
import importlib.util
import math
import os
import shutil
import sys
import tempfile
import time as _time
import warnings
from fractions import Fraction

import numpy as np

import common
from common import xr, xvec, from_xvec

ID = "C20"
TARGETS = ["Proofs.C20", "Proofs.C20Rich", "Proofs.C20Order"]
GEN_PREFIXES = []
THEOREMS = {
    "Proofs.C20": ["VerifModel.C20." + t for t in [
        "C20_accumulate", "C20_accumulate_too_long", "C20_accumulate_missing_iff", "C20_cumulative",
        "C20_accumulate_w1", "C20_accumulate_axis", "C20_accumulate_file", "C20_accumulate_file_total",
        "C20_cdf", "C20_cdf_bounds", "C20_cdf_mono", "C20_cdf_missing", "C20_cdf_file",
        "C20_quantile", "C20_quantile_single", "C20_quantile_def", "C20_quantile_file",
        "C20_pit", "C20_pit_missing_obs",
        "C20_expand", "C20_expand_nowhere_else", "C20_expand_times", "C20_window_file", "C20_preserve"]],
    "Proofs.C20Rich": ["VerifModel.C20." + t for t in [
        "C20_preserve_partial", "C20_preserve_full_iff", "C20_preserve_negation", "C20_expand_never_written"]],
    "Proofs.C20Order": ["VerifModel.C20." + t for t in [
        "C20_accumulate_ascending", "C20_accumulate_coord_partial", "C20_accumulate_order_negation"]],
}
TRUSTED_BASE = [
    "Lean 4.33 kernel; axioms propext, Classical.choice, Quot.sound only",
    "Spec/Scripts.lean: my reading of the scripts' help texts and of the property statement (window sum, "
    "strict-below CDF, floor quantile, PIT, first-stored valid-time match)",
    "Model/Scripts.lean is hand-written; SciPy/NumPy primitives enter with their documented definitions "
    "(scipy.signal.convolve 'valid' with a ones kernel = sums of w consecutive entries; np.cumsum/nancumsum; "
    "np.sort NaN-last; np.nanmean/np.mean; interp1d(kind='zero', bounds_error=False) = previous-grid-point step "
    "function) and are tied to the installed libraries only by the correspondence streams",
    "netCDF4 / HDF5 (bytes <-> arrays) and verif.input (text and NetCDF readers; C09/C10 are about those)",
    "float32 storage of every output variable: replies are compared after rounding the exact model value to float32; "
    "inputs are drawn on a dyadic grid so that sums are exact in binary64",
    "the index glue of the Lean driver (flat row-major <-> (t,l,s)) and of this harness, validated by the streams",
]
ASSUMPTIONS = [
    "accumulate: the documented window runs along the COORDINATE (Spec/ScriptsOrder.lean accumCoord: 'the leadtimes leading up "
    "to this time'); the theorems identify it with the script's stored-order window for axes stored ascending "
    "(C20_accumulate_coord_partial); on NetCDF files whose lead times / times are NOT stored ascending the script follows the "
    "stored order and violates the statement (C20_accumulate_order_negation, known finding accumulate-axis-order; streams "
    "acc.unsorted, acc.file with shuffled times: model = code in stored order, judge along the coordinate); window.py on such "
    "files is correspondence-only (win.unsorted; it writes negative durations there)",
    "input times are non-negative whole seconds, -i hours give whole seconds; window lengths >= 1",
    "ensembles have 1..6 members for ens2prob; quantile levels in [0,1] whose binary64 value lies on the same side "
    "of every grid point i/(M-1) as NumPy's linspace value (checked per op; the model is exact, not rounded)",
    "fields a script does not write at all are now JUDGED (streams pres.*): ensemble, stored pit / cdf / x and other score "
    "fields are dropped by all four scripts and expandverif never writes the fcst / -t / -q variables it creates — known "
    "findings accumulate- / window- / ens2prob- / expandverif-drops-fields, expandverif-never-written; the x0 / x1 attributes "
    "and times after 2038 are preserved since the repairs fix_scripts_x0x1 / fix_time_type",
    "units: the scripts write units.replace('$', '') — a units attribute that itself contains dollar signs loses them; the "
    "global attribute is spelled `Convensions` by three scripts: neither is in the property's list (times, lead times, "
    "location metadata, fields) and both are modelled as they are",
    "rich files (pres.*) are NetCDF only; location metadata is compared after rounding to the f4 the scripts store",
    "the CDF at t is the fraction of non-missing members strictly below t (consistent with PIT = fraction below "
    "the observation)",
    "accumulate and window on a file without obs or without fcst are modelled (C20_accumulate_file, C20_window_file): "
    "the field that is present is processed, the absent one is not written",
]
RULE = ("seeded random files: 1-4 times x 1-6 lead times x 1-3 locations, values on a 1/4 grid in [-2,8], missing "
        "cells/series/fields, 1-6 members (with ties and missing members); NetCDF (NaN or masked) and text (unixtime "
        "or date+hour columns, rows shuffled); accumulate: every -w in 1..len+1 and none, both axes, -i; plus files "
        "large enough for SciPy's auto method to pick FFT (48 lead times x 10 locations, -w 24; the scripts now force "
        "the direct method); ens2prob: thresholds "
        "below/inside/equal-to-member/above, levels incl. 0 and 1, -p; -r and -q lists that are not ascending (every "
        "ordering of three thresholds and of three levels on a fixed 2x2x2 file with 4 members, repeated thresholds, "
        "descending lists typed as ranges like 6:-2:0, plus random reversed/rotated/shuffled lists): each cdf/x slice "
        "is judged against the threshold/level stored at the same index of the coordinate variable, and "
        "monotonicity is read along the sorted coordinate; expandverif: -i hour lists (or default), "
        "-lt lists partly outside the input, unsorted and overlapping times; window: files with both fields and files "
        "that lack obs, fcst or both; pres.acc / pres.win / pres.e2p / pres.exp: NetCDF files holding any subset of pit, stored "
        "cdf / x, other score fields, an ensemble, x0 / x1 (every fifth with station id 100000, latitude 60.123, units with "
        "dollar signs, times beyond 2^31 stored as f8), expandverif with -t / -q and without -lt; e2p.nofield: ensemble files "
        "without obs / fcst / both (with -p: error message); acc.badw: -w 0 and negative; acc.unsorted / win.unsorted: NetCDF files whose lead times are "
        "stored reversed / rotated / shuffled (accumulate every -w and none, -i; window every bin type), judged along the "
        "lead-time coordinate; an op is non-trivial if the transformed field holds a finite number")
EXHAUSTIVE = {"quick": False, "thorough": False}
EXHAUSTIVE_NOTE = "random; for each generated series length every window length 1..len+1 is visited over the stream"
LEVEL_TEXT = ("Lean theorems over a hand-written model of the script kernels: trailing-window sums and running totals "
              "equal the documented sums with the documented missingness for series and windows of any length "
              "(induction over lists), lifted to both axes; the window along the lead-time / time COORDINATE is that window "
              "for axes stored ascending (C20_accumulate_coord_partial) and is NOT what the script computes otherwise "
              "(C20_accumulate_order_negation on the witness 6,0,3); CDF in [0,1] and monotone, step-function quantiles "
              "(file level: slice i of cdf/x belongs to entry i of the -r/-q list in whatever order it was typed) "
              "monotone, inside the member range and equal to the floor rule, PIT = fraction below (for non-missing "
              "observations), valid-time matching places the first stored observation and nothing else, metadata "
              "copied; of everything else a file can hold the scripts carry the x0 / x1 attributes only (C20_preserve_partial; the "
              "full statement holds iff the file holds nothing else, C20_preserve_full_iff; negation on a witness per script). The model is tied to the real scripts by running them on generated NetCDF and text files.")
TECHNIQUE = "Lean 4 proof over a hand-written model; differential correspondence against the real scripts run on generated files"

FMTS = ["nc", "ncm", "txt", "txtd"]
NFILE = 13
BASE_TIME = 1325376000       # 2012-01-01 00 UTC
F32 = np.float32

# ------------------------------------------------------------------ running the real scripts
_TMP = [None]
_MODS = {}
_COUNTER = [0]


def _tmpdir():
    if _TMP[0] is None:
        _TMP[0] = tempfile.mkdtemp(prefix="c20_")
        atexit.register(shutil.rmtree, _TMP[0], True)
    return _TMP[0]


def _script(name):
    if name not in _MODS:
        path = os.path.join(common.REPO, "scripts", name + ".py")
        spec = importlib.util.spec_from_file_location("c20_script_" + name, path)
        mod = importlib.util.module_from_spec(spec)
        spec.loader.exec_module(mod)
        _MODS[name] = mod
    return _MODS[name]


def _run(name, argv):
    mod = _script(name)
    old = sys.argv
    sys.argv = [name] + list(argv)
    try:
        with warnings.catch_warnings():
            warnings.simplefilter("ignore")
            with np.errstate(all="ignore"):
                mod.main()
    finally:
        sys.argv = old


class VF(object):
    """the input file an op describes"""

    def __init__(self, a):
        (self.fmt, self.name, self.units) = a[0:3]
        self.times = [int(x) for x in a[3].split(",")] if a[3] != "-" else []
        self.leads = from_xvec(a[4])
        self.ids, self.lats, self.lons, self.elevs = (from_xvec(x) for x in a[5:9])
        T, L, S = len(self.times), len(self.leads), len(self.ids)
        self.shape = (T, L, S)
        self.obs = None if a[9] == "none" else np.array(from_xvec(a[9]), float).reshape(T, L, S)
        self.fcst = None if a[10] == "none" else np.array(from_xvec(a[10]), float).reshape(T, L, S)
        self.M = int(a[11])
        self.ens = np.array(from_xvec(a[12]), float).reshape(T, L, S, self.M)


def _write_nc(path, f, masked):
    import netCDF4
    d = netCDF4.Dataset(path, "w")
    T, L, S = f.shape
    d.createDimension("time", None)
    d.createDimension("leadtime", L)
    d.createDimension("location", S)
    d.createVariable("time", "i4", ("time",))[:] = np.array(f.times, dtype="i4")
    d.createVariable("leadtime", "f4", ("leadtime",))[:] = f.leads
    d.createVariable("location", "i4", ("location",))[:] = np.array(f.ids, dtype="i4")
    d.createVariable("lat", "f4", ("location",))[:] = f.lats
    d.createVariable("lon", "f4", ("location",))[:] = f.lons
    d.createVariable("altitude", "f4", ("location",))[:] = f.elevs

    def put(var, arr):
        var[:] = np.ma.masked_invalid(arr) if masked else arr
    if f.obs is not None:
        put(d.createVariable("obs", "f4", ("time", "leadtime", "location")), f.obs)
    if f.fcst is not None:
        put(d.createVariable("fcst", "f4", ("time", "leadtime", "location")), f.fcst)
    if f.M > 0:
        d.createDimension("ensemble_member", f.M)
        put(d.createVariable("ensemble", "f4", ("time", "leadtime", "location", "ensemble_member")), f.ens)
    d.long_name = f.name
    d.units = f.units
    d.Conventions = "verif_1.0.0"
    d.close()


def _num(x):
    if math.isnan(x):
        return "-999"
    return repr(int(x)) if float(x).is_integer() else repr(float(x))


def _write_txt(path, f, use_date):
    T, L, S = f.shape
    cols = (["date", "hour"] if use_date else ["unixtime"]) + ["leadtime", "location", "lat", "lon", "altitude"]
    if f.obs is not None:
        cols.append("obs")
    if f.fcst is not None:
        cols.append("fcst")
    cols += ["e%d" % m for m in range(f.M)]
    rows = []
    for t in range(T):
        for l in range(L):
            for s in range(S):
                if use_date:
                    tm = _time.gmtime(f.times[t])
                    r = ["%04d%02d%02d" % (tm.tm_year, tm.tm_mon, tm.tm_mday), _num(tm.tm_hour + tm.tm_min / 60.0)]
                else:
                    r = [str(f.times[t])]
                r += [_num(f.leads[l]), _num(f.ids[s]), _num(f.lats[s]), _num(f.lons[s]), _num(f.elevs[s])]
                if f.obs is not None:
                    r.append(_num(f.obs[t, l, s]))
                if f.fcst is not None:
                    r.append(_num(f.fcst[t, l, s]))
                r += [_num(f.ens[t, l, s, m]) for m in range(f.M)]
                rows.append(" ".join(r))
    # file order must not matter: deterministic shuffle
    k = (len(rows) * 7 + 3) % max(1, len(rows))
    rows = rows[k:][::-1] + rows[:k]
    with open(path, "w") as fh:
        fh.write("# variable: %s\n# units: %s\n" % (f.name, f.units))
        fh.write(" ".join(cols) + "\n")
        fh.write("\n".join(rows) + "\n")


def _write_input(f):
    _COUNTER[0] += 1
    base = os.path.join(_tmpdir(), "in%d" % _COUNTER[0])
    if f.fmt in ("nc", "ncm"):
        path = base + ".nc"
        _write_nc(path, f, f.fmt == "ncm")
    else:
        path = base + ".txt"
        _write_txt(path, f, f.fmt == "txtd")
    return path, base + "_out.nc"


def _arr(v):
    return np.ma.filled(v[:].astype(float), np.nan)


def _read_out(path, extra=()):
    """canonical reply from an output file; locations are put in ascending id order (the text reader keeps
    them in set order)"""
    import netCDF4
    d = netCDF4.Dataset(path, "r")
    try:
        ids = _arr(d.variables["location"])
        order = np.argsort(ids, kind="stable")
        name = getattr(d, "long_name", None) or getattr(d, "standard_name", "?")
        out = ["name=%s" % name.replace(" ", "_"), "units=%s" % str(getattr(d, "units", "?")).replace(" ", "_"),
               "times=%s" % ",".join(str(int(x)) for x in _arr(d.variables["time"])),
               "leads=%s" % xvec(_arr(d.variables["leadtime"])),
               "ids=%s" % xvec(ids[order])]
        for key, var in (("lats", "lat"), ("lons", "lon"), ("elevs", "altitude")):
            out.append("%s=%s" % (key, xvec(_arr(d.variables[var])[order])))
        for key in ("obs", "fcst"):
            if key in d.variables:
                out.append("%s=%s" % (key, xvec(_arr(d.variables[key])[:, :, order].flatten())))
            else:
                out.append("%s=none" % key)
        for key, var in extra:
            if var in d.variables:
                a = _arr(d.variables[var])
                if a.ndim >= 3:
                    a = a[:, :, order]
                out.append("%s=%s" % (key, xvec(a.flatten())))
            else:
                out.append("%s=none" % key)
        return " ".join(out)
    finally:
        d.close()


def _cleanup(*paths):
    for p in paths:
        try:
            os.unlink(p)
        except OSError:
            pass


def _dec(x):
    """float -> the shortest decimal string that parses back to it (what a user types)"""
    x = float(x)
    return repr(int(x)) if x.is_integer() else repr(x)


def _numlist(tok):
    return ",".join(_dec(x) for x in from_xvec(tok))


def _rlist(tok):
    """how the -r / -q list of an op is typed: a descending whole-number progression of three or more values goes in as
    the range `first:step:last` (e.g. 6,4,2,0 -> 6:-2:0), everything else as a comma list"""
    v = from_xvec(tok)
    if len(v) >= 3 and all(float(x).is_integer() for x in v):
        d = v[1] - v[0]
        if d < 0 and all(v[i + 1] - v[i] == d for i in range(len(v) - 1)):
            return "%d:%d:%d" % (v[0], d, v[-1])
    return _numlist(tok)


def _mini(series=None, M=0, ens=None, obs=None, leads=None):
    """FILE tokens of a one-location file holding `series` along the lead-time axis"""
    n = len(series) if series is not None else 1
    leads = leads if leads is not None else list(range(n))
    o = series if series is not None else [obs if obs is not None else 0.0]
    return ["nc", "T", "K", "0", xvec(leads), "1", "0", "0", "0", xvec(o), xvec(o), str(M),
            xvec(ens) if M else "-"]


def _field(reply, key):
    for tok in reply.split(" "):
        if tok.startswith(key + "="):
            return tok[len(key) + 1:]
    return None


def impl(op):
    a = op.split(" ")
    k = a[0]
    # ---- series-level ops are run through one-location files
    if k == "accumulate":
        r = impl(" ".join(["acc", "leadtime", a[1], a[2]] + _mini(series=from_xvec(a[3]))))
        return r if r.startswith("E") else _field(r, "obs")
    if k == "window":
        r = impl(" ".join(["win", a[1], a[2]] + _mini(series=from_xvec(a[4]), leads=from_xvec(a[3]))))
        return r if r.startswith("E") else _field(r, "obs")
    if k in ("ens_cdf", "ens_q", "ens_pit"):
        ens = from_xvec(a[2])
        if k == "ens_cdf":
            r = impl(" ".join(["e2p", a[1], "-", "0"] + _mini(M=len(ens), ens=ens)))
            return r if r.startswith("E") else _field(r, "cdf")
        if k == "ens_q":
            r = impl(" ".join(["e2p", "-", a[1], "0"] + _mini(M=len(ens), ens=ens)))
            return r if r.startswith("E") else _field(r, "x")
        r = impl(" ".join(["e2p", "-", "-", "1"] + _mini(M=len(ens), ens=ens, obs=common.from_xr(a[1]))))
        return r if r.startswith("E") else _field(r, "pit")
    if k == "expand1":
        itimes, ileads = a[1], a[2]
        file = ["nc", "T", "K", itimes, ileads, "1", "0", "0", "0", a[3], "none", "0", "-"]
        ot, ol = Fraction(a[4]), Fraction(a[5])
        day = (ot // 86400) * 86400
        r = impl(" ".join(["exp", xr((ot - day) / 3600), xr(ol)] + file))
        if r.startswith("E"):
            return r
        times = _field(r, "times").split(",")
        vals = _field(r, "obs").split(",")
        return vals[times.index(str(int(ot)))] if str(int(ot)) in times else "absent"

    if k == "pres":
        return _impl_pres(a)
    # ---- file-level ops
    nopt = {"acc": 4, "win": 3, "e2p": 4, "exp": 3, "t2n": 1}[k]
    f = VF(a[nopt:nopt + NFILE])
    ipath, opath = _write_input(f)
    try:
        try:
            if k == "acc":
                argv = [ipath, opath]
                if a[2] != "-":
                    argv += ["-w", a[2]]
                if a[3] == "1":
                    argv.append("-i")
                if a[1] != "leadtime" or len(op) % 2 == 0:     # the default axis is given half of the time
                    argv += ["-x", a[1]]
                _run("accumulate", argv)
                return _read_out(opath)
            if k == "win":
                _run("window", [ipath, opath, "-r", _dec(common.from_xr(a[2])), "-b", a[1]])
                return _read_out(opath)
            if k == "e2p":
                argv = [ipath, opath]
                if a[1] != "-":
                    argv.append("-r=" + _rlist(a[1]))
                if a[2] != "-":
                    argv.append("-q=" + _numlist(a[2]))
                if a[3] == "1":
                    argv.append("-p")
                _run("ens2prob", argv)
                return _read_out(opath, (("thr", "threshold"), ("cdf", "cdf"), ("qlv", "quantile"), ("x", "x"),
                                         ("pit", "pit")))
            if k == "exp":
                argv = [ipath, "-o", opath]
                if a[1] != "def":
                    argv.append("-i=" + _numlist(a[1]))
                argv.append("-lt=" + _numlist(a[2]))
                _run("expandverif", argv)
                r = _read_out(opath)
                return " ".join(t for t in r.split(" ") if not t.startswith("fcst="))
            if k == "t2n":
                _run("text2nc", [ipath, opath])
                return _read_out(opath)
        except SystemExit:
            return "ERR"
    finally:
        _cleanup(ipath, opath)
    raise ValueError(op)


# ------------------------------------------------------------------ rich files: everything a verif NetCDF file can hold
# RFILE = FILE (13 tokens, fmt nc) + <pit|none> <thr|-> <cdf|-> <qlv|-> <x|-> <other|-> <x0|-> <x1|-> <tfmt>
#   other = name:values;name:values   (3-D fields under other names)     tfmt = i4 | f8 (type of the time variable)
# ops:   pres acc <axis> <w|-> <0|1> RFILE      pres win <bin> <r> RFILE
#        pres e2p <thr|-> <qs|-> <0|1> RFILE    pres exp <inits|def> <oleads> <t|-> <q|-> RFILE
# reply: the reply of the plain op + ens= thr= cdf= qlv= x= pit= other=<names> o.<name>=… x0= x1=   (none = not in the output)
NRFILE = NFILE + 9
PRES_NOPT = {"acc": 3, "win": 2, "e2p": 3, "exp": 4}


class RF(VF):
    def __init__(self, a):
        VF.__init__(self, a[:NFILE])
        T, L, S = self.shape
        e = a[NFILE:NRFILE]
        self.pit = None if e[0] == "none" else np.array(from_xvec(e[0]), float).reshape(T, L, S)
        self.thr = from_xvec(e[1])
        self.cdf = np.array(from_xvec(e[2]), float).reshape(T, L, S, len(self.thr)) if self.thr else None
        self.qlv = from_xvec(e[3])
        self.x = np.array(from_xvec(e[4]), float).reshape(T, L, S, len(self.qlv)) if self.qlv else None
        self.other = {}
        if e[5] != "-":
            for item in e[5].split(";"):
                n, v = item.split(":")
                self.other[n] = np.array(from_xvec(v), float).reshape(T, L, S)
        self.x0 = None if e[6] == "-" else common.from_xr(e[6])
        self.x1 = None if e[7] == "-" else common.from_xr(e[7])
        self.tfmt = e[8]


def _write_rich(path, f):
    import netCDF4
    d = netCDF4.Dataset(path, "w")
    T, L, S = f.shape
    d.createDimension("time", None)
    d.createDimension("leadtime", L)
    d.createDimension("location", S)
    d.createVariable("time", f.tfmt, ("time",))[:] = np.array(f.times, dtype="i8" if f.tfmt != "f8" else float)
    d.createVariable("leadtime", "f4", ("leadtime",))[:] = f.leads
    d.createVariable("location", "f8", ("location",))[:] = np.array(f.ids, float)
    d.createVariable("lat", "f8", ("location",))[:] = f.lats
    d.createVariable("lon", "f8", ("location",))[:] = f.lons
    d.createVariable("altitude", "f4", ("location",))[:] = f.elevs
    dims3 = ("time", "leadtime", "location")
    for nm, arr in [("obs", f.obs), ("fcst", f.fcst), ("pit", f.pit)] + sorted(f.other.items()):
        if arr is not None:
            d.createVariable(nm, "f4", dims3)[:] = arr
    if f.M > 0:
        d.createDimension("ensemble_member", f.M)
        d.createVariable("ensemble", "f4", dims3 + ("ensemble_member",))[:] = f.ens
    if f.thr:
        d.createDimension("threshold", len(f.thr))
        d.createVariable("threshold", "f4", ("threshold",))[:] = f.thr
        d.createVariable("cdf", "f4", dims3 + ("threshold",))[:] = f.cdf
    if f.qlv:
        d.createDimension("quantile", len(f.qlv))
        d.createVariable("quantile", "f4", ("quantile",))[:] = f.qlv
        d.createVariable("x", "f4", dims3 + ("quantile",))[:] = f.x
    d.long_name = f.name
    d.units = f.units
    if f.x0 is not None:
        d.x0 = f.x0
    if f.x1 is not None:
        d.x1 = f.x1
    d.Conventions = "verif_1.0.0"
    d.close()


REGULAR_VARS = ["time", "leadtime", "location", "lat", "lon", "altitude", "obs", "fcst", "pit", "ensemble", "threshold",
                "cdf", "quantile", "x"]


def _read_rich(path):
    """the plain reply plus every other thing the output file holds"""
    import netCDF4
    base = _read_out(path)
    d = netCDF4.Dataset(path, "r")
    try:
        ids = _arr(d.variables["location"])
        order = np.argsort(ids, kind="stable")
        # the time variable as stored (the plain reply prints int(x))
        out = [base]

        def var(name, key):
            if name not in d.variables:
                return "%s=none" % key
            a = _arr(d.variables[name])
            if a.ndim >= 3:
                a = a[:, :, order]
            return "%s=%s" % (key, xvec(a.flatten()))
        out += [var("ensemble", "ens"), var("threshold", "thr"), var("cdf", "cdf"), var("quantile", "qlv"), var("x", "x"),
                var("pit", "pit")]
        others = sorted(v for v in d.variables if v not in REGULAR_VARS)
        out.append("other=%s" % (",".join(others) if others else "none"))
        for v in others:
            a = _arr(d.variables[v])
            out.append("o.%s=%s" % (v, xvec((a[:, :, order] if a.ndim >= 3 else a).flatten())))
        for att in ("x0", "x1"):
            out.append("%s=%s" % (att, xr(float(getattr(d, att))) if hasattr(d, att) else "none"))
        return " ".join(out)
    finally:
        d.close()


def _impl_pres(a):
    k = a[1]
    nopt = PRES_NOPT[k]
    f = RF(a[2 + nopt:2 + nopt + NRFILE])
    _COUNTER[0] += 1
    ipath = os.path.join(_tmpdir(), "rin%d.nc" % _COUNTER[0])
    opath = os.path.join(_tmpdir(), "rout%d.nc" % _COUNTER[0])
    _write_rich(ipath, f)
    try:
        try:
            if k == "acc":
                argv = [ipath, opath, "-x", a[2]]
                if a[3] != "-":
                    argv += ["-w", a[3]]
                if a[4] == "1":
                    argv.append("-i")
                _run("accumulate", argv)
            elif k == "win":
                _run("window", [ipath, opath, "-r", _dec(common.from_xr(a[3])), "-b", a[2]])
            elif k == "e2p":
                argv = [ipath, opath]
                if a[2] != "-":
                    argv.append("-r=" + _rlist(a[2]))
                if a[3] != "-":
                    argv.append("-q=" + _numlist(a[3]))
                if a[4] == "1":
                    argv.append("-p")
                _run("ens2prob", argv)
            elif k == "exp":
                argv = [ipath, "-o", opath]
                if a[2] != "def":
                    argv.append("-i=" + _numlist(a[2]))
                if a[3] != "-":
                    argv.append("-lt=" + _numlist(a[3]))
                if a[4] != "-":
                    argv.append("-t=" + _numlist(a[4]))
                if a[5] != "-":
                    argv.append("-q=" + _numlist(a[5]))
                _run("expandverif", argv)
            else:
                raise ValueError(" ".join(a[:3]))
            return _read_rich(opath)
        except SystemExit:
            return "ERR"          # verif.util.error (status 1) or argparse's usage message (status 2)
    finally:
        _cleanup(ipath, opath)


# ------------------------------------------------------------------ generators
GRID = [x / 4.0 for x in range(-8, 33)]


def _values(rng, n, pmiss, lo=-8, hi=32):
    return [float("nan") if rng.random() < pmiss else rng.randint(lo, hi) / 4.0 for _ in range(n)]


def _gen_file(rng, fmt=None, T=None, L=None, S=None, M=0, need=("obs", "fcst"), text_ok=True, sorted_times=True,
              nonneg=False):
    fmt = fmt or rng.choice(FMTS if text_ok else ["nc", "ncm"])
    T = T or rng.choice([1, 1, 2, 3, 4])
    L = L or rng.choice([1, 2, 3, 4, 5, 6])
    S = S or rng.choice([1, 1, 2, 3])
    step = rng.choice([3600, 21600, 43200, 86400, 86400])
    if fmt == "txtd":
        step = rng.choice([3600, 21600, 86400])
    t0 = BASE_TIME + rng.choice([0, 86400, 10 * 86400, 43200])
    times = [t0 + i * step for i in range(T)]
    if not sorted_times and fmt in ("nc", "ncm"):
        rng.shuffle(times)
    lstep = rng.choice([1, 1, 3, 6, 12, 24, 0.5])
    l0 = rng.choice([0, 0, 1, 6])
    leads = [l0 + i * lstep for i in range(L)]
    ids = sorted(rng.sample(range(1, 60), S))
    lats = [rng.randint(-360, 360) / 4.0 for _ in range(S)]
    lons = [rng.randint(-720, 720) / 4.0 for _ in range(S)]
    elevs = [rng.randint(0, 4000) / 2.0 for _ in range(S)]
    pm = rng.choice([0, 0, 0.1, 0.3, 0.6])
    n = T * L * S
    lo = 0 if nonneg else -8

    def field():
        v = _values(rng, n, pm, lo)
        if rng.random() < 0.15 and L > 1:      # a whole series missing
            arr = np.array(v).reshape(T, L, S)
            arr[rng.randrange(T), :, rng.randrange(S)] = np.nan
            v = arr.flatten().tolist()
        return v
    obs = xvec(field()) if "obs" in need else "none"
    fcst = xvec(field()) if "fcst" in need else "none"
    if M:
        base = _values(rng, n * M, rng.choice([0, 0, 0.1, 0.4]))
        if rng.random() < 0.3:                 # ties inside the ensemble
            base = [b if (rng.random() < 0.5 or math.isnan(b)) else float(round(b)) for b in base]
        ens = xvec(base)
    else:
        ens = "-"
    name = rng.choice(["Precip", "T", "Wind_speed"])
    units = rng.choice(["mm", "K", "m/s", "%"])
    return [fmt, name, units, ",".join(str(t) for t in times), xvec(leads), xvec(ids), xvec(lats), xvec(lons),
            xvec(elevs), obs, fcst, str(M), ens]


def _q_in_domain(q, M):
    """binary64 level q sits on the same side of each exact grid point i/(M-1) as of NumPy's linspace value"""
    if M <= 1:
        return True
    g = np.linspace(0, 1, M)
    fq = Fraction(q)
    for i in range(M):
        if (fq >= Fraction(i, M - 1)) != (q >= g[i]):
            return False
    return True


def _unsorted(rng, v):
    """a reordering of the ascending list v that is not ascending (v itself if it has fewer than two values)"""
    v = list(v)
    if len(v) < 2:
        return v
    k = rng.randint(0, 2)
    if k == 0:
        return v[::-1]
    if k == 1:
        j = rng.randrange(1, len(v))
        return v[j:] + v[:j]
    w = list(v)
    while w == v:
        rng.shuffle(w)
    return w


# the file of the fixed ordering ops: 2 times x 2 lead times x 2 locations, 4 members
_ORDER_ENS = [3.0, 4.0, 5.0, 9.0, 11.0, 6.0, 4.0, 1.5, 4.5, 4.0, 0.5, 2.0, 2.5, 2.0, 2.25, 7.0,
              0.0, 8.0, 3.5, 3.75, 5.5, 1.25, 1.5, 9.5, -1.0, 0.25, 6.5, 2.5, 7.5, 7.75, 3.25, float("nan")]
_ORDER_OBS = [3.0, 6.0, 5.0, 1.0, 5.0, 4.0, float("nan"), 7.0]


def _order_ops():
    """deterministic: every ordering of three thresholds and of three levels, repeated thresholds, descending ranges"""
    import itertools

    def file(fmt):
        return [fmt, "T", "K", "%d,%d" % (BASE_TIME, BASE_TIME + 86400), "0,6", "3,7", "53,57", "10,10", "12,12",
                xvec(_ORDER_OBS), xvec([o + 1 for o in _ORDER_OBS]), "4", xvec(_ORDER_ENS)]
    tperm = list(itertools.permutations([1.0, 3.0, 5.0]))
    qperm = list(itertools.permutations([0.25, 0.5, 1.0]))
    for k in range(6):
        yield "e2p.order", " ".join(["e2p", xvec(tperm[k]), "-", "0"] + file(FMTS[k % 4]))
        yield "e2p.order", " ".join(["e2p", "-", xvec(qperm[k]), "0"] + file(FMTS[(k + 1) % 4]))
        yield "e2p.order", " ".join(["e2p", xvec(tperm[k]), xvec(qperm[5 - k]), "1"] + file(FMTS[(k + 2) % 4]))
    for j, thr in enumerate([[6.0, 4.0, 2.0, 0.0], [5.0, 4.0, 3.0, 2.0, 1.0], [2.0, 0.0, -2.0], [5.0, 1.0, 5.0, 3.0],
                             [3.0, 3.0, 1.0], [4.5, 2.25, 7.0, 0.5], [9.0, 4.0], [10.0, 1.0, 5.0, 2.0, 4.0, 3.0]]):
        yield "e2p.order", " ".join(["e2p", xvec(thr), "-", str(j % 2)] + file(FMTS[j % 4]))


def _gen_rich(rng, stress=False):
    """RFILE tokens: a NetCDF file with any subset of pit, stored cdf / x, other fields, ensemble, x0 / x1; `stress`:
    station id 100000, latitude 60.123, units with dollar signs, times beyond 2^31 (stored as f8)"""
    M = rng.choice([0, 0, 2, 3, 4])
    file = _gen_file(rng, fmt="nc", M=M, T=rng.choice([1, 2, 3]), L=rng.choice([1, 2, 3, 4]), S=rng.choice([1, 2]))
    T, L, S = len(file[3].split(",")), len(file[4].split(",")), len(file[5].split(","))
    n = T * L * S
    tfmt = "i4"
    if stress:
        ids = from_xvec(file[5])
        ids[-1] = 100000.0
        file[5] = xvec(ids)
        lats = from_xvec(file[6])
        lats[0] = 60.123
        file[6] = xvec(lats)
        if rng.random() < 0.5:
            file[2] = rng.choice(["$m^2$", "$^oC$"])
        if rng.random() < 0.6:
            t0 = 2 ** 31 + rng.choice([-7200, 3600, 86400 * 400])      # around and after 2038-01-19 03:14:08
            file[3] = ",".join(str(t0 + i * 3600) for i in range(T))
            tfmt = "f8"
    pit = xvec([rng.randint(0, 4) / 4.0 for _ in range(n)]) if rng.random() < 0.5 else "none"
    thr = sorted(rng.sample([0.0, 0.5, 1.0, 2.0, 5.0], rng.choice([0, 0, 1, 2])))
    cdf = xvec([rng.randint(0, 4) / 4.0 for _ in range(n * len(thr))]) if thr else "-"
    qlv = sorted(rng.sample([0.1, 0.25, 0.5, 0.75, 0.9], rng.choice([0, 0, 1, 2])))
    x = xvec(_values(rng, n * len(qlv), 0.1)) if qlv else "-"
    other = ";".join("%s:%s" % (nm, xvec(_values(rng, n, 0.1))) for nm in sorted(rng.sample(["spread", "ctrl", "wetbulb"], rng.choice([0, 0, 1, 2]))))
    x0 = rng.choice(["-", "-", "0", "1/2"])
    x1 = rng.choice(["-", "-", "8", "100"])
    return file + [pit, xvec(thr), cdf, xvec(qlv), x, other or "-", x0, x1, tfmt]


def _gen_pres(rng, quick):
    """the four scripts on rich files (what is carried over), plus the option edge cases of the audit"""
    for i in range(50 if quick else 500):
        rf = _gen_rich(rng, stress=(i % 5 == 0))
        T, L = len(rf[3].split(",")), len(rf[4].split(","))
        k = i % 4
        if k == 0:
            axis = rng.choice(["leadtime", "time"])
            nax = L if axis == "leadtime" else T
            yield "pres.acc", " ".join(["pres", "acc", axis, rng.choice(["-"] + [str(w) for w in range(1, nax + 1)]), str(rng.randint(0, 1))] + rf)
        elif k == 1:
            yield "pres.win", " ".join(["pres", "win", rng.choice(["below=", "below", "above", "above="]), xr(rng.choice([0.0, 0.5, 1.0, 2.0]))] + rf)
        elif k == 2:
            M = int(rf[11])
            if M == 0:
                rf = _gen_rich(rng, stress=(i % 5 == 0))
                if int(rf[11]) == 0:
                    continue
                M = int(rf[11])
            thr = sorted(rng.sample([0.0, 0.5, 1.0, 2.0, 5.0], rng.choice([0, 1, 2])))
            qs = [q for q in sorted(rng.sample([0.0, 0.25, 0.5, 0.75, 1.0], rng.choice([0, 1, 2]))) if _q_in_domain(q, M)]
            p = rng.randint(0, 1) if (thr or qs) else 1
            yield "pres.e2p", " ".join(["pres", "e2p", xvec(thr), xvec(qs), str(p)] + rf)
        else:
            leads = from_xvec(rf[4])
            ol = sorted(rng.sample(sorted(set(leads + [0.0, 6.0, 24.0])), rng.randint(1, 3)))
            yield "pres.exp", " ".join(["pres", "exp", rng.choice(["def", "0", "0,12"]), xvec(ol) if rng.random() > 0.08 else "-",
                                        rng.choice(["-", "-", "1,2"]), rng.choice(["-", "-", "1/2"])] + rf)


QLEVELS = [0.0, 0.05, 0.1, 0.2, 0.25, 0.3, 0.4, 0.5, 0.6, 0.7, 0.75, 0.8, 0.9, 0.95, 0.99, 1.0]


def gen_ops(tier, rng):
    quick = tier == "quick"
    n_acc, n_e2p, n_exp, n_win, n_t2n, n_ser = (90, 90, 80, 40, 12, 40) if quick else (1000, 1000, 1000, 300, 60, 300)
    # ---- accumulate: files
    for i in range(n_acc):
        # a third of the NetCDF files store their initialisation times out of order (runs appended late): the
        # script works on the stored order and writes the stored times back (seeded change C20f sorted the data
        # along time but not the time variable)
        file = _gen_file(rng, sorted_times=rng.random() > 0.35)
        T, L = len(file[3].split(",")), len(file[4].split(","))
        axis = rng.choice(["leadtime", "leadtime", "time"])
        n = L if axis == "leadtime" else T
        w = rng.choice(["-"] + [str(x) for x in range(1, n + 2)])
        yield "acc.file", " ".join(["acc", axis, w, str(rng.randint(0, 1))] + file)
    # ---- NetCDF files whose LEAD TIMES are not stored ascending (verif itself reads such a file as the same dataset as
    # the sorted one: Data sorts every axis): accumulate and window on them
    for i in range(30 if quick else 400):
        file = _gen_file(rng, fmt=rng.choice(["nc", "ncm"]), L=rng.choice([2, 3, 4, 5]), sorted_times=rng.random() > 0.2)
        file[4] = xvec(_unsorted(rng, from_xvec(file[4])))
        L = len(file[4].split(","))
        if i % 4 == 3:
            yield "win.unsorted", " ".join(["win", rng.choice(["below=", "below", "above", "above="]), xr(rng.choice([0.0, 0.5, 1.0, 2.0]))] + file)
        else:
            w = rng.choice(["-"] + [str(x) for x in range(1, L + 1)])
            yield "acc.unsorted", " ".join(["acc", "leadtime", w, str(rng.randint(0, 1))] + file)
    # every window length on one series, both -i settings
    for i in range(n_ser):
        n = rng.randint(1, 9)
        s = xvec(_values(rng, n, rng.choice([0, 0.2, 0.5])))
        for w in ["-"] + [str(x) for x in range(1, n + 2)]:
            yield "acc.series", "accumulate %s %d %s" % (w, rng.randint(0, 1), s)
    # files large enough for scipy.signal.convolve(method='auto') to pick its FFT method (regression: the
    # scripts force method='direct'; FFT would smear one NaN over the whole series)
    for i in range(3 if quick else 12):
        T, L, S = rng.choice([(1, 48, 10), (2, 48, 6), (10, 48, 1)])
        w = 24
        file = _gen_file(rng, fmt="nc", T=T, L=L, S=S)
        vals = np.array(_values(rng, T * L * S, 0, 0, 16)).reshape(T, L, S)
        miss = i % 3 != 2
        if miss:
            for _ in range(rng.randint(1, 3)):
                vals[rng.randrange(T), rng.randrange(L), rng.randrange(S)] = np.nan
        file[9] = xvec(vals.flatten())
        file[10] = xvec((vals * 2).flatten())
        yield "acc.large", " ".join(["acc", "leadtime", str(w), str(0 if miss else rng.randint(0, 1))] + file)
    for i in range(2 if quick else 6):
        T, L, S = rng.choice([(48, 1, 10), (48, 2, 6)])
        file = _gen_file(rng, fmt="nc", T=T, L=L, S=S)
        file[3] = ",".join(str(BASE_TIME + 3600 * j) for j in range(T))
        vals = np.array(_values(rng, T * L * S, 0, 0, 16)).reshape(T, L, S)
        vals[rng.randrange(T), rng.randrange(L), rng.randrange(S)] = np.nan
        file[9] = xvec(vals.flatten())
        file[10] = xvec((vals + 1).flatten())
        yield "acc.large", " ".join(["acc", "time", "24", str(i % 2)] + file)
    # a file that lacks one of the two fields
    for i in range(4 if quick else 12):
        file = _gen_file(rng, need=[("obs",), ("fcst",)][i % 2])
        yield "acc.nofield", " ".join(["acc", "leadtime", rng.choice(["-", "2"]), "0"] + file)
    # ---- ens2prob
    for i in range(n_e2p):
        M = rng.choice([1, 2, 3, 4, 5, 6])
        file = _gen_file(rng, M=M, T=rng.choice([1, 2]), L=rng.choice([1, 2, 3]), S=rng.choice([1, 2]),
                         need=rng.choice([("obs", "fcst"), ("obs", "fcst"), ("obs",)]))
        members = [x for x in from_xvec(file[12]) if not math.isnan(x)]
        lo, hi = (min(members), max(members)) if members else (0.0, 1.0)
        cand = [lo - 1, hi + 1, lo, hi, (lo + hi) / 2, 0.1, 2.3] + members[:3] + [rng.choice(GRID) for _ in range(2)]
        thr = sorted(set(rng.sample(cand, rng.randint(0, 5))))
        qs = sorted(set(q for q in rng.sample(QLEVELS, rng.randint(0, 6)) if _q_in_domain(q, M)))
        if i % 4 == 0:
            qs = sorted(set(qs + [0.0, 1.0]))
        p = rng.randint(0, 1) if (thr or qs) else 1
        yield "e2p.file", " ".join(["e2p", xvec(thr), xvec(qs), str(p)] + file)
    for i in range(n_ser):
        M = rng.randint(1, 6)
        ens = _values(rng, M, rng.choice([0, 0, 0.3]), 0, 12)
        t = rng.choice(ens + [-1.0, 4.0, 1.5])
        if not math.isnan(t):
            yield "e2p.cdf", "ens_cdf %s %s" % (xr(t), xvec(ens))
        q = rng.choice(QLEVELS)
        if _q_in_domain(q, M):
            yield "e2p.q", "ens_q %s %s" % (xr(q), xvec(ens))
        o = rng.choice(ens + [float("nan"), -1.0, 4.0, 1.5])
        yield "e2p.pit", "ens_pit %s %s" % (xr(o), xvec(ens))
    # ---- expandverif
    for i in range(n_exp):
        file = _gen_file(rng, need=("obs",) if i % 3 else ("obs", "fcst"), sorted_times=rng.random() < 0.5,
                         T=rng.choice([1, 2, 3, 4]), L=rng.choice([1, 2, 3, 4]))
        leads = from_xvec(file[4])
        inits = rng.choice(["def", "0", "0,12", "6,18", "0,6,12,18", "3", "12,0", "23", "0.5"])
        cand = sorted(set(leads + [0.0, 6.0, 12.0, 24.0, 36.0, 1.0, 0.5]))
        ol = rng.sample(cand, rng.randint(1, min(5, len(cand))))
        if rng.random() < 0.7:
            ol = sorted(ol)
        yield "exp.file", " ".join(["exp", inits if inits == "def" else xvec([float(x) for x in inits.split(",")]),
                                    xvec(ol)] + file)
    for i in range(n_ser):
        T, L = rng.randint(1, 3), rng.randint(1, 4)
        itimes = [BASE_TIME + rng.choice([0, 43200, 86400, 129600]) for _ in range(T)]
        itimes = list(dict.fromkeys(itimes))
        ileads = sorted(set(rng.choice([0, 6, 12, 18, 24, 36]) for _ in range(L)))
        obs = _values(rng, len(itimes) * len(ileads), 0.1)
        ot = BASE_TIME + rng.choice([0, 21600, 43200, 86400])
        ol = rng.choice([0, 6, 12, 24, 36, 48])
        if (ot // 86400) * 86400 not in [(t // 86400) * 86400 for t in itimes]:
            continue
        yield "exp.cell", "expand1 %s %s %s %d %d" % (",".join(map(str, itimes)), xvec(ileads), xvec(obs), ot, ol)
    # ---- window.py (rides along: modelled kernel + preservation)
    for i in range(n_win):
        file = _gen_file(rng, nonneg=rng.random() < 0.7)
        b = rng.choice(["below=", "below=", "below", "above", "above="])
        yield "win.file", " ".join(["win", b, xr(rng.choice([0.0, 0.5, 1.0, 2.0, 5.0]))] + file)
    # ---- text2nc (rides along: pass-through of the deterministic fields)
    for i in range(n_t2n):
        file = _gen_file(rng, fmt=rng.choice(["txt", "txtd"]))
        yield "t2n.file", " ".join(["t2n"] + file)
    # ---- window.py on a file that lacks one of the two fields (or both)
    for i in range(6 if quick else 18):
        need = [("obs",), ("fcst",), ("obs",), ("fcst",), ()][i % 5]
        # (a text file without any data column is refused by the reader: both fields absent only in NetCDF)
        file = _gen_file(rng, need=need, nonneg=rng.random() < 0.7, text_ok=bool(need))
        b = rng.choice(["below=", "below", "above", "above="])
        yield "win.nofield", " ".join(["win", b, xr(rng.choice([0.0, 0.5, 1.0, 2.0]))] + file)
    # ---- ens2prob with -r / -q lists that are NOT ascending: the cdf (x) slice stored at index i must belong to
    # the threshold (level) stored at index i of the coordinate variable, whatever order the user typed
    for item in _order_ops():
        yield item
    for i in range(40 if quick else 400):
        M = rng.choice([2, 3, 4, 5, 6])
        file = _gen_file(rng, M=M, T=rng.choice([1, 2]), L=rng.choice([1, 2, 3]), S=rng.choice([1, 2]),
                         need=rng.choice([("obs", "fcst"), ("obs",)]))
        members = [x for x in from_xvec(file[12]) if not math.isnan(x)]
        lo, hi = (min(members), max(members)) if members else (0.0, 1.0)
        cand = [lo - 1, hi + 1, lo, hi, (lo + hi) / 2, 0.1, 2.3] + members[:3] + [rng.choice(GRID) for _ in range(2)]
        thr = _unsorted(rng, sorted(set(rng.sample(cand, rng.randint(2, 5)))))
        qs = []
        if i % 2:
            qs = sorted(set(q for q in rng.sample(QLEVELS, rng.randint(2, 5)) if _q_in_domain(q, M)))
            qs = _unsorted(rng, qs)
        if i % 5 == 0 and thr:
            thr.insert(rng.randrange(len(thr) + 1), rng.choice(thr))      # a threshold typed twice
        yield "e2p.order", " ".join(["e2p", xvec(thr), xvec(qs), str(rng.randint(0, 1))] + file)
    # ---- ens2prob on a file that has an ensemble but lacks obs, fcst or both (with -p and no obs: error message)
    for i in range(8 if quick else 40):
        M = rng.choice([2, 3, 4])
        need = [("fcst",), (), ("fcst",), ("obs",)][i % 4]
        file = _gen_file(rng, M=M, T=rng.choice([1, 2]), L=rng.choice([1, 2, 3]), S=rng.choice([1, 2]), need=need,
                         text_ok=bool(need))
        qs = [q for q in [0.0, 0.5, 1.0] if _q_in_domain(q, M)]
        yield "e2p.nofield", " ".join(["e2p", xvec([0.5, 2.0]), xvec(qs), str(1 if i % 3 == 0 else 0)] + file)
    # ---- accumulate -w 0 / negative: an error message, not an unaccumulated copy
    for i in range(4 if quick else 12):
        file = _gen_file(rng)
        yield "acc.badw", " ".join(["acc", rng.choice(["leadtime", "time"]), rng.choice(["0", "-1", "-3"]), str(i % 2)] + file)
    # ---- what the scripts carry over from a file that holds more than obs and fcst
    for item in _gen_pres(rng, quick):
        yield item


# ------------------------------------------------------------------ oracle (plain Python, exact)
def _frac(x):
    return None if math.isnan(x) else Fraction(x)


def _f32(q):
    """what an exact value becomes when the script stores it in an f4 variable"""
    return float("nan") if q is None else float(F32(float(q)))


def _same(got, want):
    """got: float read from the file; want: Fraction or None (missing)"""
    if want is None:
        return math.isnan(got)
    return (not math.isnan(got)) and float(F32(got)) == _f32(want)


def _parse_reply(reply):
    d = {}
    for tok in reply.split(" "):
        k, _, v = tok.partition("=")
        d[k] = v
    return d


def _check_meta(script, f, r, times=True, leads=True):
    want = {"name": f.name, "units": f.units, "ids": xvec(f.ids), "lats": xvec(f.lats), "lons": xvec(f.lons),
            "elevs": xvec(f.elevs)}
    if times:
        want["times"] = ",".join(str(t) for t in (sorted(f.times) if f.fmt.startswith("txt") else f.times))
    if leads:
        want["leads"] = xvec(f.leads)
    for k, v in want.items():
        if r.get(k) != v:
            return ({"script": script, "kind": "preserve", "what": k},
                    "%s does not preserve %s: input %s, output %s" % (script, k, v, r.get(k)))
    return None


def _check_field(script, key, inp, r):
    got = r.get(key)
    want = "none" if inp is None else xvec(inp.flatten())
    if got != want:
        return ({"script": script, "kind": "preserve", "what": key},
                "%s does not preserve the %s field: input %s, output %s" % (script, key, want[:200], (got or "")[:200]))
    return None


def _doc_accum(x, w, ign, t):
    """documented accumulation of series x (list of Fraction|None) at step t; w=None: cumulative"""
    if w is None:
        w = t + 1
    if t + 1 < w:
        return None
    terms = x[t + 1 - w:t + 1]
    if not ign and any(v is None for v in terms):
        return None
    return sum((v for v in terms if v is not None), Fraction(0))


def _judge_acc(a, f, r):
    axis, w, ign = a[1], (None if a[2] == "-" else int(a[2])), a[3] == "1"
    T, L, S = f.shape
    n = L if axis == "leadtime" else T
    for key, inp in (("obs", f.obs), ("fcst", f.fcst)):
        if inp is None:
            if r.get(key) != "none":
                return ({"script": "accumulate", "kind": "preserve", "what": key}, "absent %s field appears in the output" % key)
            continue
        out = np.array(from_xvec(r[key]), float).reshape(T, L, S)
        # "the leadtimes leading up to this time": the window runs along the COORDINATE; `order` lists the stored
        # positions by ascending lead time (time); for a file that stores its axis ascending it is 0..n-1
        coords = list(f.leads) if axis == "leadtime" else list(f.times)
        order = sorted(range(n), key=lambda i: coords[i])
        ascending = order == list(range(n))
        for u in range(T if axis == "leadtime" else L):
            for s in range(S):
                ser = inp[u, :, s] if axis == "leadtime" else inp[:, u, s]
                got = out[u, :, s] if axis == "leadtime" else out[:, u, s]
                xf = [_frac(v) for v in ser]
                x = [xf[i] for i in order]
                for t in range(n):
                    want = _doc_accum(x, w, ign, t)
                    if not _same(got[order[t]], want):
                        where = "%s series (%s %d, location %d) %s %s" % (
                            key, "time" if axis == "leadtime" else "leadtime", u, s, axis, xr(float(coords[order[t]])))
                        sig = {"script": "accumulate", "kind": "value"}
                        if want is not None and math.isnan(got[order[t]]):
                            sig["kind"] = "spurious-missing"
                        if not ascending and all(_same(got[k], _doc_accum(xf, w, ign, k)) for k in range(n)):
                            # exactly the window over the STORED order of an axis that is not stored ascending
                            sig = {"script": "accumulate", "kind": "axis-order", "axis": axis}
                        return (sig, "accumulate -x %s -w %s%s: %s is %s, documented window sum along %s of %s (%s %s) is %s" % (
                            axis, a[2], " -i" if ign else "", where, xr(got[order[t]]), axis,
                            [xr(v) if v is not None else "nan" for v in x], axis,
                            ",".join(xr(float(coords[i])) for i in order),
                            "missing" if want is None else xr(want)))
    return None


def _judge_e2p(a, f, r):
    T, L, S = f.shape
    M = f.M
    thr = from_xvec(a[1])
    qs = from_xvec(a[2])
    bad = _check_field("ens2prob", "obs", f.obs, r) or _check_field("ens2prob", "fcst", f.fcst, r)
    if bad:
        return bad
    if thr:
        if r["thr"] == "none" or [float(F32(x)) for x in thr] != from_xvec(r["thr"]):
            return ({"script": "ens2prob", "kind": "preserve", "what": "threshold"},
                    "threshold variable %s does not hold the requested thresholds %s" % (r["thr"], a[1]))
        cdf = np.array(from_xvec(r["cdf"]), float).reshape(T, L, S, len(thr))
    if qs:
        if r["qlv"] == "none" or [float(F32(x)) for x in qs] != from_xvec(r["qlv"]):
            return ({"script": "ens2prob", "kind": "preserve", "what": "quantile"},
                    "quantile variable %s does not hold the requested levels %s" % (r["qlv"], a[2]))
        xq = np.array(from_xvec(r["x"]), float).reshape(T, L, S, len(qs))
    pit = None
    if a[3] == "1":
        if r["pit"] == "none":
            return ({"script": "ens2prob", "kind": "pit-absent"}, "-p given but no pit variable written")
        pit = np.array(from_xvec(r["pit"]), float).reshape(T, L, S)
    order = sorted(range(len(thr)), key=lambda i: thr[i])
    qorder = sorted(range(len(qs)), key=lambda i: qs[i])
    for t in range(T):
        for l in range(L):
            for s in range(S):
                mem = [_frac(v) for v in f.ens[t, l, s, :]]
                val = sorted(v for v in mem if v is not None)
                cell = "cell (time %d, leadtime %d, location %d) members %s" % (
                    t, l, s, [xr(v) if v is not None else "nan" for v in mem])
                prev = None
                for i in order:
                    got = cdf[t, l, s, i]
                    want = Fraction(sum(1 for v in val if v < Fraction(thr[i])), len(val)) if val else None
                    if want is not None and not (0 <= got <= 1):
                        return ({"script": "ens2prob", "kind": "cdf-range"}, "%s: cdf(%s) = %s outside [0,1]" % (cell, xr(thr[i]), xr(got)))
                    if prev is not None and not math.isnan(got) and got < prev:
                        return ({"script": "ens2prob", "kind": "cdf-monotone"},
                                "%s: cdf decreases to %s at threshold %s" % (cell, xr(got), xr(thr[i])))
                    if not _same(got, want):
                        return ({"script": "ens2prob", "kind": "cdf-value"},
                                "%s: cdf(%s) = %s, fraction of non-missing members below is %s" % (
                                    cell, xr(thr[i]), xr(got), "missing" if want is None else xr(want)))
                    prev = got if not math.isnan(got) else prev
                prev = None
                for i in qorder:
                    got = xq[t, l, s, i]
                    q = Fraction(qs[i])
                    if not math.isnan(got):
                        if not val or not (val[0] <= Fraction(got) <= val[-1]):
                            return ({"script": "ens2prob", "kind": "quantile-range"},
                                    "%s: x(%s) = %s outside the ensemble range" % (cell, xr(qs[i]), xr(got)))
                        if prev is not None and got < prev:
                            return ({"script": "ens2prob", "kind": "quantile-monotone"},
                                    "%s: quantile decreases to %s at level %s" % (cell, xr(got), xr(qs[i])))
                        prev = got
                    if len(val) == M and M >= 2:
                        want = val[int(math.floor(q * (M - 1)))]
                        if not _same(got, want):
                            return ({"script": "ens2prob", "kind": "quantile-value"},
                                    "%s: x(%s) = %s, member floor(q(M-1)) of the sorted ensemble is %s" % (
                                        cell, xr(qs[i]), xr(got), xr(want)))
                    if len(val) == M and M == 1 and q in (0, 1) and not _same(got, val[0]):
                        return ({"script": "ens2prob", "kind": "quantile-value"},
                                "%s: x(%s) = %s for the single member %s" % (cell, xr(qs[i]), xr(got), xr(val[0])))
                if pit is not None:
                    got = pit[t, l, s]
                    o = _frac(f.obs[t, l, s]) if f.obs is not None else None
                    want = None if o is None else Fraction(sum(1 for v in val if v < o), M)
                    if not _same(got, want):
                        return ({"script": "ens2prob", "kind": "pit-value"}, "%s obs %s: pit = %s, documented %s" % (
                            cell, "nan" if o is None else xr(o), xr(got), "missing" if want is None else xr(want)))
    return None


def _judge_exp(a, f, r):
    inits = [Fraction(0)] if a[1] == "def" else [Fraction(x) for x in from_xvec(a[1])]
    oleads = [Fraction(x) for x in from_xvec(a[2])]
    if r.get("leads") != a[2]:
        return ({"script": "expandverif", "kind": "leads"}, "lead times %s, requested %s" % (r.get("leads"), a[2]))
    days = sorted(set((t // 86400) * 86400 for t in f.times))
    want_times = sorted(d + h * 3600 for h in inits for d in days)
    otimes = [int(x) for x in r["times"].split(",")]
    if sorted(otimes) != want_times:
        return ({"script": "expandverif", "kind": "times"},
                "output times %s, expected every whole day of the input at hours %s: %s" % (otimes, a[1], want_times))
    S = f.shape[2]
    out = np.array(from_xvec(r["obs"]), float).reshape(len(otimes), len(oleads), S)
    itimes = sorted(f.times) if f.fmt.startswith("txt") else f.times
    for ti, ot in enumerate(otimes):
        for li, ol in enumerate(oleads):
            target = ot + 3600 * ol
            match = [(t0, l0) for t0 in range(len(itimes)) for l0 in range(len(f.leads))
                     if itimes[t0] + 3600 * Fraction(f.leads[l0]) == target]
            for s in range(S):
                got = out[ti, li, s]
                if f.fmt.startswith("txt"):
                    src = f.obs[np.argsort(f.times, kind="stable")]
                else:
                    src = f.obs
                allowed = [_frac(src[t0, l0, s]) for (t0, l0) in match]
                if not match:
                    if not math.isnan(got):
                        return ({"script": "expandverif", "kind": "placed-elsewhere"},
                                "obs %s placed at (time %d, leadtime %s, location %d) but no stored (time, leadtime) has "
                                "valid time %s; stored times %s leads %s" % (xr(got), ot, xr(ol), s, target, itimes, xvec(f.leads)))
                elif not any(_same(got, w) for w in allowed):
                    return ({"script": "expandverif", "kind": "not-placed"},
                            "(time %d, leadtime %s, location %d) holds %s; stored pairs %s with that valid time hold %s" % (
                                ot, xr(ol), s, xr(got), match, [xr(w) if w is not None else "nan" for w in allowed]))
    return None


def _judge_win(a, f, r):
    # window.py is not part of the property text: correspondence + preservation only; a field is written iff the
    # input has it
    for key, inp in (("obs", f.obs), ("fcst", f.fcst)):
        if (inp is None) != (r.get(key) == "none"):
            return ({"script": "window", "kind": "preserve", "what": key},
                    "%s field: %s in the input, %s in the output" % (
                        key, "absent" if inp is None else "present", "absent" if r.get(key) == "none" else "present"))
    return None


def _f32list(tok):
    return [float(F32(v)) if v == v else v for v in from_xvec(tok)]


def _same_list(tok_got, want_vals):
    if tok_got is None or tok_got == "none":
        return False
    got = from_xvec(tok_got)
    want = [float(F32(v)) if v == v else v for v in want_vals]
    return len(got) == len(want) and all((g != g and w != w) or float(F32(g)) == w for g, w in zip(got, want))


def _judge_pres(a, impl_out):
    """`All of them preserve times, lead times, location metadata and the fields they do not transform`, on a file that
    holds everything a verif file can hold.  Order of the tests: metadata, the x0 / x1 attributes, then every field the
    script does not transform (ensemble, stored pit / cdf / x, other fields), then the transformation itself."""
    k = a[1]
    script = {"acc": "accumulate", "win": "window", "e2p": "ens2prob", "exp": "expandverif"}[k]
    nopt = PRES_NOPT[k]
    opts = a[2:2 + nopt]
    f = RF(a[2 + nopt:2 + nopt + NRFILE])
    T, L, S = f.shape
    if impl_out.startswith("EXC:") or impl_out.startswith("EXIT:"):
        return ({"script": script, "kind": "exception", "exc": impl_out}, "%s ended in %s on %s" % (script, impl_out, " ".join(a)[:300]))
    if impl_out.startswith("ERR"):
        if k == "acc" and opts[1] != "-" and (int(opts[1]) < 1 or int(opts[1]) > (L if opts[0] == "leadtime" else T)):
            return None              # documented errors: window shorter than one step or longer than the axis
        if k == "exp" and opts[1] == "-":
            return None              # -lt is a required option
        if k == "e2p" and opts[2] == "1" and f.obs is None:
            return None
        return ({"script": script, "kind": "error-exit"}, "%s stopped with an error on %s" % (script, " ".join(a)[:300]))
    if k == "acc" and opts[1] != "-" and int(opts[1]) < 1:
        return ({"script": script, "kind": "bad-window-accepted"}, "accumulate -w %s wrote a file" % opts[1])
    r = _parse_reply(impl_out)
    # --- metadata (location metadata is stored as f4: compared after rounding)
    for key, want in (("name", f.name), ("units", f.units.replace("$", ""))):
        if r.get(key) != want:
            return ({"script": script, "kind": "preserve", "what": key}, "%s does not preserve %s: input %s, output %s" % (script, key, want, r.get(key)))
    for key, vals in (("ids", f.ids), ("lats", f.lats), ("lons", f.lons), ("elevs", f.elevs)):
        order = np.argsort(f.ids, kind="stable")
        if not _same_list(r.get(key), [vals[i] for i in order]):
            return ({"script": script, "kind": "preserve", "what": key},
                    "%s does not preserve %s: input %s, output %s" % (script, key, xvec(vals), r.get(key)))
    if k != "exp":
        if r.get("times") != ",".join(str(t) for t in f.times):
            return ({"script": script, "kind": "preserve", "what": "times", "after2038": max(f.times) > 2 ** 31 - 1},
                    "%s does not preserve the times: input %s, output %s" % (script, f.times, r.get("times")))
        if not _same_list(r.get("leads"), f.leads):
            return ({"script": script, "kind": "preserve", "what": "leads"}, "%s: lead times %s -> %s" % (script, xvec(f.leads), r.get("leads")))
    else:
        inits = [Fraction(0)] if opts[0] == "def" else [Fraction(x) for x in from_xvec(opts[0])]
        days = sorted(set((t // 86400) * 86400 for t in f.times))
        want_times = sorted(int(d + h * 3600) for h in inits for d in days)
        if sorted(int(x) for x in r["times"].split(",")) != want_times:
            return ({"script": script, "kind": "times", "after2038": max(want_times) > 2 ** 31 - 1},
                    "expandverif: output times %s, expected %s" % (r["times"], want_times))
    for att, val in (("x0", f.x0), ("x1", f.x1)):
        want = "none" if val is None else xr(val)
        if r.get(att) != want:
            return ({"script": script, "kind": "attribute-dropped", "what": att},
                    "%s does not preserve the attribute %s (discrete mass of the variable): input %s, output %s" % (script, att, want, r.get(att)))
    # --- the transformation itself and obs / fcst
    base = " ".join(t for t in impl_out.split(" ") if t.split("=")[0] in ("name", "units", "times", "leads", "ids", "lats", "lons", "elevs", "obs", "fcst", "thr", "cdf", "qlv", "x", "pit"))
    rb = _parse_reply(base)
    if k == "acc":
        bad = _judge_acc(["acc"] + opts, f, rb)
    elif k == "win":
        bad = _judge_win(["win"] + opts, f, rb)
    elif k == "e2p":
        bad = _judge_e2p(["e2p"] + opts, f, rb)
    else:
        bad = _judge_exp(["exp"] + opts[:2], f, rb)
    if bad:
        return bad
    # --- fields the script does not transform
    recomputed = set()
    if k == "e2p":
        if opts[0] != "-":
            recomputed.add("cdf")
        if opts[1] != "-":
            recomputed.add("x")
        if opts[2] == "1":
            recomputed.add("pit")
    if k == "exp":
        # the (time, lead time) grid changes: a field cannot be carried over unchanged; what the script announces by
        # creating a variable it must also write
        for key, coord, opt in (("cdf", "thr", opts[2]), ("x", "qlv", opts[3])):
            if opt != "-" and r.get(key) not in (None, "none") and all(t == "nan" for t in r[key].split(",")):
                return ({"script": script, "kind": "variable-never-written", "what": key},
                        "expandverif -%s %s creates the variable %s and never writes it (all missing)" % ("t" if key == "cdf" else "q", opt, key))
        if f.fcst is not None and not np.all(np.isnan(f.fcst)) and all(t == "nan" for t in r.get("fcst", "nan").split(",")):
            return ({"script": script, "kind": "variable-never-written", "what": "fcst"},
                    "expandverif creates the variable fcst and never writes it although the input has forecasts")
        for key, present in (("ens", f.M > 0), ("pit", f.pit is not None), ("other", bool(f.other))):
            if present and r.get(key) == "none":
                return ({"script": script, "kind": "field-dropped", "what": key}, "expandverif drops %s" % key)
        return None
    checks = [("ens", f.M > 0, lambda: f.ens.flatten()), ("pit", f.pit is not None, lambda: f.pit.flatten()),
              ("cdf", f.cdf is not None, lambda: f.cdf.flatten()), ("x", f.x is not None, lambda: f.x.flatten())]
    for key, present, vals in checks:
        if present and key not in recomputed and not _same_list(r.get(key), vals()):
            return ({"script": script, "kind": "field-dropped", "what": key},
                    "%s does not carry over %s, a field it does not transform: output has %s" % (script, key, (r.get(key) or "none")[:80]))
    for nm, arr in sorted(f.other.items()):
        if not _same_list(r.get("o." + nm), arr.flatten()):
            return ({"script": script, "kind": "field-dropped", "what": "other"},
                    "%s does not carry over the field %s: output has %s" % (script, nm, (r.get("o." + nm) or "none")[:80]))
    return None


def spec_op(op):
    a = op.split(" ")
    if a[0] == "accumulate":
        return "spec_accum %s %s %s" % (a[1], a[2], a[3])
    if a[0] == "ens_cdf":
        return "spec_cdf %s %s" % (a[1], a[2])
    if a[0] == "ens_pit":
        return "spec_pit %s %s" % (a[1], a[2])
    if a[0] == "ens_q" and "nan" not in a[2] and len(a[2].split(",")) >= 2:
        return "spec_q %s %s" % (a[1], a[2])
    if a[0] == "expand1":
        return "spec_expand " + " ".join(a[1:])
    return None


def _tok_eq(x, y):
    if x == y:
        return True
    try:
        fx, fy = common.from_xr(x), common.from_xr(y)
    except (ValueError, ZeroDivisionError):
        return False
    if math.isnan(fx) or math.isnan(fy):
        return math.isnan(fx) and math.isnan(fy)
    with np.errstate(all="ignore"):
        return float(F32(fx)) == float(F32(fy))


def _reply_eq(x, y):
    """replies agree after rounding every number to float32 (the storage type of the outputs)"""
    if x == y:
        return True
    tx, ty = x.split(" "), y.split(" ")
    if len(tx) != len(ty):
        return False
    for p, q in zip(tx, ty):
        if p == q:
            continue
        kp, _, vp = p.partition("=") if "=" in p else ("", "", p)
        kq, _, vq = q.partition("=") if "=" in q else ("", "", q)
        if kp != kq:
            return False
        lp, lq = vp.split(","), vq.split(",")
        if len(lp) != len(lq) or not all(_tok_eq(u, v) for u, v in zip(lp, lq)):
            return False
    return True


def _in_domain(op):
    """is the op inside the domain on which the model mirrors the code (else only the oracle speaks)"""
    return True


def cmp(op, impl_out, model_out):
    if not _in_domain(op):
        return True
    return _reply_eq(impl_out, model_out)


def judge(op, impl_out, spec_out):
    a = op.split(" ")
    k = a[0]
    script = {"acc": "accumulate", "accumulate": "accumulate", "win": "window", "window": "window", "e2p": "ens2prob",
              "ens_cdf": "ens2prob", "ens_q": "ens2prob", "ens_pit": "ens2prob", "exp": "expandverif",
              "expand1": "expandverif", "t2n": "text2nc", "pres": "pres"}[k]
    if k == "pres":
        return _judge_pres(a, impl_out)
    if impl_out.startswith("EXC:") or impl_out.startswith("EXIT:"):
        sig = {"script": script, "kind": "exception", "exc": impl_out}
        if k in ("acc", "win"):
            nopt = 4 if k == "acc" else 3
            if a[nopt + 9] == "none" or a[nopt + 10] == "none":
                sig["absent_field"] = True
        return (sig, "%s ended in %s on %s" % (script, impl_out, op[:300]))
    # ---- series-level ops: the Lean Spec is the oracle
    if k in ("accumulate", "ens_cdf", "ens_q", "ens_pit", "expand1"):
        if k == "accumulate" and impl_out == "ERR":
            n = len(a[3].split(","))
            if a[1] != "-" and int(a[1]) > n:
                return None          # documented error: window longer than the axis
            return ({"script": script, "kind": "error-exit"}, "accumulate stopped with an error on %s" % op)
        if spec_out is None or spec_out.startswith("ERR"):
            return None
        if not _reply_eq("v=" + impl_out, "v=" + spec_out):
            return ({"script": script, "kind": k + "-spec"},
                    "%s: script gives %s, Spec gives %s" % (op, impl_out, spec_out))
        return None
    nopt = {"acc": 4, "win": 3, "e2p": 4, "exp": 3, "t2n": 1}[k]
    f = VF(a[nopt:nopt + NFILE])
    if k == "acc" and a[2] != "-" and int(a[2]) < 1:
        if impl_out == "ERR":
            return None              # a window of less than one step: error message
        return ({"script": script, "kind": "bad-window-accepted"}, "accumulate -w %s wrote a file instead of reporting an error" % a[2])
    if k == "e2p" and a[3] == "1" and f.obs is None:
        if impl_out == "ERR":
            return None              # -p needs observations: error message
        return ({"script": script, "kind": "pit-without-obs"}, "ens2prob -p on a file without obs wrote a file")
    if impl_out == "ERR":
        if k == "acc" and a[2] != "-" and int(a[2]) > (f.shape[1] if a[1] == "leadtime" else f.shape[0]):
            return None              # documented error: window longer than the axis
        return ({"script": script, "kind": "error-exit"}, "%s stopped with an error on %s" % (script, op[:300]))
    r = _parse_reply(impl_out)
    if k == "exp":
        return _check_meta(script, f, r, times=False, leads=False) or _judge_exp(a, f, r)
    bad = _check_meta(script, f, r)
    if bad:
        return bad
    if k == "acc":
        return _judge_acc(a, f, r)
    if k == "e2p":
        return _judge_e2p(a, f, r)
    if k == "win":
        return _judge_win(a, f, r)
    if k == "t2n":
        src_order = np.argsort(f.times, kind="stable")
        for key, inp in (("obs", f.obs), ("fcst", f.fcst)):
            bad = _check_field(script, key, None if inp is None else inp[src_order], r)
            if bad:
                return bad
    return None


def nontrivial(op, out):
    if out.startswith("E"):
        return False
    k = op.split(" ")[0]
    key = {"acc": "obs", "win": "obs", "exp": "obs", "t2n": "obs", "pres": "obs"}.get(k)
    if key:
        v = _field(out, key) or ""
        return any(t not in ("nan", "none", "") for t in v.split(","))
    if k == "e2p":
        return any(any(t not in ("nan", "none", "") for t in (_field(out, key) or "").split(","))
                   for key in ("cdf", "x", "pit"))
    return any(t != "nan" for t in out.split(","))


def extra_evidence(rows):
    fmts, scripts = {}, {}
    for r in rows:
        a = r["op"].split(" ")
        scripts[a[0]] = scripts.get(a[0], 0) + 1
        nopt = {"acc": 4, "win": 3, "e2p": 4, "exp": 3, "t2n": 1}.get(a[0])
        if nopt:
            fmts[a[nopt]] = fmts.get(a[nopt], 0) + 1
    return {"input_formats": fmts, "ops_by_kind": scripts,
            "out_of_model_domain": sum(1 for r in rows if not _in_domain(r["op"]))}
