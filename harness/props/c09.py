"""C09 — text input files are read faithfully.

One op = one generated text file:   textfile <genseed> <tokenised file>
  * the tokenised file (lines `|`, words `;`, word = name[~val[~sfx]]) is what the Lean model reads;
    val / sfx are the harness's canonicalisation of CPython float(word) / float(word[1:]);
  * impl() rebuilds the file text from the words of the op (separators: blanks / tabs drawn from the
    seed), writes it to a temp dir, reads it with the REAL verif.input.Text and canonicalises every
    attribute;
  * judge() regenerates the GENERATING TABLE from <genseed> (deterministic) and compares the reply
    cell by cell with it (independent of the Lean model), then re-renders the same table with
    shuffled rows / columns / separators / missing tokens, reads that with the real code and
    demands the same dataset (metamorphic oracle).
  * <genseed> is an integer (random table), `d:<k>` (the k-th file of the exhaustive family of
    files in which a location does not know its lat / lon / elevation, build_det) or `a:<seed>`
    (the random table of <seed> with one location whose id token is missing).
"""
import atexit
import binascii
import contextlib
import io
import math
import os
import random
import re
import shutil
import tempfile

from common import xr, xvec

ID = "C09"
TARGETS = ["Proofs.C09", "Proofs.C09Clean", "Proofs.GenEq.TextHeader"]
GEN_PREFIXES = ["texthdr."]
THEOREMS = {
    "Proofs.C09": ["VerifModel.C09." + t for t in [
        "C09_roundtrip", "C09_layout_irrelevant", "C09_rows_perm", "C09_classify", "C04_textclean",
        "C09_missing_tokens", "C09_missing_id_kept", "C09_missing_date_nan", "C09_missing_meta_nan"]],
    "Proofs.C09Clean": ["VerifModel.C09." + t for t in [
        "C09_clean_agrees_with_netcdf", "C09_clean_is_C04_textClean"]],
    "Proofs.GenEq.TextHeader": ["VerifModel.GenEq.TextHeader." + t for t in [
        "regular_eq", "isQ_eq", "isP_eq", "isE_eq", "isOther_eq"]],
}
TRUSTED_BASE = [
    "Lean 4.33 kernel; axioms propext, Classical.choice, Quot.sound only",
    "Spec/Table.lean: my reading of the documented text format (a table Case -> Row rendered with any column "
    "order/subset, date[+hour] or unixtime, leadtime or offset, location or id, altitude or elev, comment lines; "
    "Station.lat/lon/elev : Option Rat, none = not known = a missing-value token in that column = reads NaN, as the same "
    "entry of a NetCDF file does; 0 is the default of a file WITHOUT that column)",
    "CPython float() is modelled at the token-class level: the harness canonicaliser (regex for the generated "
    "grammar: decimal with optional sign/exponent, nan, inf; everything else bad) supplies float(word) and "
    "float(word[1:]) as exact rationals; it is cross-checked against float() on every generated word",
    "Python str.split() (the harness splits/joins words; cross-checked against str.split() on every line), "
    "dict/set/tuple semantics modelled as association lists with structural equality of keys "
    "(set iteration order canonicalised by sorting on both sides), sorted(), datetime/calendar.timegm "
    "modelled by CPython's _ymd2ord formula",
    "hand-written model Model/TextInput.lean of Text.__init__, tied by the correspondence stream text.parse "
    "on every attribute of the object",
    "IEEE rounding: date*86400 + hour*3600 is exact in binary64 for the generated values",
]
ASSUMPTIONS = [
    "well-formed file: one header line with at least one of obs/fcst/p*/q*, distinct column names, every data "
    "row has one value per column, time / lead time / id cells are numbers that are none of the missing-value encodings "
    "(not -999, not above 1e30: Spec.numOK), a lat / lon / "
    "altitude cell is such a number or, when the location does not know that coordinate, a "
    "missing-value token on EVERY row of the location (a coordinate given on some rows and missing on others is "
    "not generated: the documentation does not say which wins), no two rows with "
    "the same (time, leadtime, location), one (lat,lon,elev) per id, id-less files identify a location by the "
    "(lat,lon,elev) columns present (an unknown coordinate counting as NaN, equal to itself), distinct numeric values among the "
    "p/q/e headers",
    "a data value is not -999, not above 1e30 and not +inf (Spec.valOK): such a value cannot be written to a text file "
    "and read back, every token that spells it is a missing-value token (Text._clean since f945b9c, the same encodings "
    "as verif.util.clean for NetCDF: C09_clean_agrees_with_netcdf); -inf and exactly 1e30 are values",
    "an unknown lat / lon / elevation (token -999 -999.0 NA na . nan NaN inf 1e31 9.96921e+36 ...) reads as NaN (since the "
    "repair of text-missing-lat-zero / -lon-zero / -elev-zero: the same as the NetCDF reader gives), never as 0 (the default of "
    "an ABSENT column, input.py `# Default values if columns not available`) and never as another location's value",
    "streams text.anonid / text.nanid (one location whose id token is missing, spelled -999 / NA / . / nan / NaN): the table "
    "oracle demands id NaN for it (nothing invented; since the repair of text-missing-id-invented) with every value kept at its "
    "coordinate (since the repair of text-nan-id-values-lost the spelling nan is inside the modelled domain: _clean returns the "
    "np.nan singleton for it); Spec.Table has no location without id (Case.loc : Rat), C09_roundtrip does not cover it: "
    "model = code and the two oracles are asserted, and C09_missing_id_kept states the model's behaviour for ALL location lists",
    "a missing value in the date / hour column gives a NaN time like one in the unixtime column (since the repair of "
    "text-missing-date-crash; model rowTime, C09_missing_date_nan; exercised by text.reject and by C10's nc.text stream); "
    "sorted() of a set holding a NaN has no specified order: when (and only when) times / leadtimes hold a NaN, both sides "
    "list them NaN-last with the arrays moved along",
    "a `pit` column is additionally exposed as an other-field named pit (mirrored, stated in C09_roundtrip)",
]
RULE = ("text.parse: random well-formed files, 1-4 times x 1-4 lead times x 1-4 locations, sparse (each case kept "
        "with p in {1,.8,.5}), any column order and subset, time as unixtime / date / date+hour (hours 0..47, the "
        "same instant spelled differently on different rows) / absent, leadtime / offset / absent, location / id / "
        "neither (lat,lon,elev keyed), altitude / elev / absent, obs fcst pit p<t> q<q> e<m> and other columns with "
        "odd spellings (p-5 p+5 p.5 p5. p5e0 q0.25 e10 q p e pit x0), missing tokens -999 -999.0 NA na . nan NaN inf "
        "1e31 9.96921e+36, values on a 1/8 grid plus decimals, -inf (a value), and cells spelled inf / Inf / +inf / infinity / "
        "1e+31 / 9.96921e+36 / 3.4028234663852886e+38 / 1.0000000000000002e+30 = nextafter(1e30) (all above 1e30: the table "
        "oracle says MISSING, as for the same number in a NetCDF file), 1e+30 itself and -1e+31 (values), "
        "tabs / multiple blanks / CRLF, comment and # variable/units/x0/x1 "
        "lines anywhere; in about a third of the files some locations do not know some of lat / lon / elevation "
        "(any missing token on each of their rows; in id-less files the visible tuples stay distinct); "
        "text.locmiss: EXHAUSTIVE family of 2016 small files, {location, id, no id} x {altitude, elev} x {each "
        "non-empty subset of lat/lon/elevation unknown} x {second, third, first, second+third of three locations} x "
        "{each of the twelve missing tokens}, rows A B C A B so that an unknown cell follows a row of another location "
        "with a different non-zero value (A and B differ in the latitude only: filling from the previous row would "
        "merge them in an id-less file); text.anonid: random files with an id column in which one location has a "
        "missing id token; text.nanid: four files in which that id is spelled nan / NaN (regression inputs of the repaired "
        "finding text-nan-id-values-lost: correspondence and both oracles, like every other stream); "
        "text.reject: a few malformed files (no data column, short row, invalid date, bad x0); "
        "an op is non-trivial if the file has >= 2 data rows and at least one field with a non-missing value")
EXHAUSTIVE = {"quick": False, "thorough": False}
EXHAUSTIVE_NOTE = ("seeded random; the space of files is unbounded. The sub-stream text.locmiss (unknown lat / lon / "
                   "elevation of a location, 2016 files) is enumerated completely in both tiers")
LEVEL_TEXT = ("Lean theorems over a token-level model of Text.__init__: parsing the rendering of any well-formed "
              "table under any layout returns exactly the table (values at their own coordinates, NaN elsewhere, "
              "ascending duplicate-free times and lead times, location metadata per id - a lat / lon / elevation "
              "the table does not know, written as any missing-value token, reads as NaN (as in a NetCDF file; an absent column "
              "reads 0), never as the value of another row -, numeric thresholds / "
              "quantiles / members, variable metadata); layouts and row orders are irrelevant; header words are "
              "classified into exactly one class; _clean maps exactly the tokens bad / nan / -999 / inf / above 1e30 to "
              "NaN (C04_textclean; these are the spec's missing-value tokens: C09_missing_tokens) and, on every token "
              "that parses as a number, returns what verif.util.clean returns for that number in a NetCDF variable "
              "(C09_clean_agrees_with_netcdf; the token-level cleaner is C04's textClean: C09_clean_is_C04_textClean). "
              "A value that is -999, above 1e30 or +inf is not a table value (Spec.valOK): no text file carries it. "
              "The model is tied to /repo by differential correspondence on every attribute of the reader's result.")
TECHNIQUE = "Lean 4 proof over a hand-written model; seeded differential correspondence + table and metamorphic oracles"

# ------------------------------------------------------------------ float() at the token-class level
_DEC = re.compile(r"[+-]?(\d+\.?\d*|\.\d+)([eE][+-]?\d+)?\Z")
_SPECIAL = re.compile(r"([+-]?)(nan|inf|infinity)\Z", re.I)
_INTLIT = re.compile(r"-?(0|[1-9][0-9]*)\Z")
_SAFE = re.compile(r"[A-Za-z0-9_.:+\-/%$^(),]+\Z")


def tokclass(s):
    """class/value of CPython float(s) on the generated grammar: 'b' | 'n' | 'i' | 'j' | exact rational"""
    m = _SPECIAL.match(s)
    if m:
        out = "n" if m.group(2).lower() == "nan" else ("j" if m.group(1) == "-" else "i")
    elif _DEC.match(s):
        out = xr(float(s))
        if out in ("inf", "-inf"):
            out = "i" if out == "inf" else "j"
    else:
        out = "b"
    # cross-check with CPython (the trusted base is this agreement on the generated grammar)
    try:
        f = float(s)
        ok = (out != "b") and ((out == "n") == math.isnan(f))
    except ValueError:
        ok = out == "b"
    if not ok:
        raise AssertionError("canonicaliser disagrees with float() on %r" % s)
    return out


def enc_word(w):
    name = w if (_SAFE.match(w) and not w.startswith("=")) else "=" + binascii.hexlify(w.encode()).decode()
    if _INTLIT.match(w):
        return name
    out = name + "~" + tokclass(w)
    if w[0] in "pqe":
        sfx = tokclass(w[1:])
        if sfx != "b":
            out += "~" + sfx
    return out


def dec_name(t):
    n = t.split("~")[0]
    return binascii.unhexlify(n[1:]).decode() if n.startswith("=") else n


def enc_file(lines):
    """lines: list of (kind, [words]) with kind 'c' (comment, words after '#') or 'r'"""
    out = []
    for kind, ws in lines:
        toks = [enc_word(w) for w in ws]
        out.append(";".join((["#"] if kind == "c" else []) + toks))
    return "|".join(out)


def dec_file(enc):
    lines = []
    for l in enc.split("|"):
        if l == "":
            lines.append(("r", []))
            continue
        ts = l.split(";")
        if ts[0] == "#":
            lines.append(("c", [dec_name(t) for t in ts[1:]]))
        else:
            lines.append(("r", [dec_name(t) for t in ts]))
    return lines


# ------------------------------------------------------------------ calendar, independent of verif / datetime
def days_from_civil(y, m, d):
    """Howard Hinnant's algorithm (proleptic Gregorian), days since 1970-01-01"""
    y -= m <= 2
    era = (y if y >= 0 else y - 399) // 400
    yoe = y - era * 400
    doy = (153 * (m + (-3 if m > 2 else 9)) + 2) // 5 + d - 1
    doe = yoe * 365 + yoe // 4 - yoe // 100 + doy
    return era * 146097 + doe - 719468


def civil_from_days(z):
    z += 719468
    era = (z if z >= 0 else z - 146096) // 146097
    doe = z - era * 146097
    yoe = (doe - doe // 1460 + doe // 36524 - doe // 146096) // 365
    y = yoe + era * 400
    doy = doe - (365 * yoe + yoe // 4 - yoe // 100)
    mp = (5 * doy + 2) // 153
    d = doy - (153 * mp + 2) // 5 + 1
    m = mp + (3 if mp < 10 else -9)
    return y + (m <= 2), m, d


# ------------------------------------------------------------------ generator: table + layout -> file
# the tokens that stand for a missing value: not a number, nan, -999, and (since f945b9c, as in a NetCDF file) anything
# above 1e30: inf and the usual NetCDF fill values
MISSING = ["-999", "-999.0", "NA", ".", "nan", "NaN", "na", "-999.00", "-9.99e2", "inf", "1e31", "9.96921e+36"]
BIG = 1e30            # the largest value a file can carry; above it = missing (Text._clean, verif.util.clean)
# an id that is not known: every token Text._clean maps to NaN.  A literal nan / NaN token used to be float()'s own
# fresh NaN object on every row (finding text-nan-id-values-lost); _clean now returns the np.nan singleton for it too
ANON_TOKENS = ["-999", "-999.0", "NA", ".", "na", "-999.00", "-9.99e2", "inf", "1e31", "nan", "NaN"]
OTHER_NAMES = ["foo", "q", "p", "e", "x0", "pitx", "elevation", "eabc", "qq", "p5x", "T2m", "obs2", "fcst_raw",
               "ensmean", "lead", "time", "pp", "e1a"]
VAR_NAMES = [["Weird", "variable"], ["T"], ["Precip", "24h"], ["RH"], ["Wind", "speed", "10m"], []]
UNITS = [["Some", "units"], ["mm"], ["m/s"], ["$^oC$"], ["%"], ["kg", "m^-2"]]
OTHER_COMMENTS = [["this", "is", "a", "comment"], ["comment"], ["variable", "T"], ["x2:", "3"], ["Units:", "K"],
                  ["date", "obs", "fcst"], ["-999"]]


def spell_number(rng, v, plain=False):
    """a spelling s with float(s) == v (v a finite float)"""
    if v == int(v) and abs(v) < 1e15:
        i = int(v)
        forms = ["%d" % i] * 6 + ["%d.0" % i, "%d." % i, "%de0" % i, "%d.00" % i]
        if i >= 0:
            forms += ["+%d" % i, "0%d" % i]
    else:
        forms = [repr(v)] * 4 + ["%.10g" % v, "%.6e" % v]
        if 0 < abs(v) < 1 and repr(abs(v)).startswith("0."):
            forms.append(("-" if v < 0 else "") + repr(abs(v))[1:])
    if plain:
        forms = forms[:1]
    for _ in range(8):
        s = rng.choice(forms)
        if float(s) == v:
            return s
    return repr(v)


def draw_value(rng):
    r = rng.random()
    if r < 0.70:
        return rng.randint(-400, 400) / 8.0
    if r < 0.85:
        return float(rng.randint(-20, 40))
    if r < 0.93:
        return rng.choice([0.1, 0.2, 12.34, -3.7, 1e5, 2.5e-3, 999.0, -99.0, 998.9, 0.3333])
    if r < 0.95:
        # -inf is a value; +inf and every number above 1e30 (NetCDF fill values) are missing-value encodings, exactly
        # 1e30 is still a value (the oracle `expected` reads the table that way: cell_value)
        return rng.choice([float("inf"), float("-inf"), float("-inf"), 1e31, 9.96921e+36, 1e30, 1.0000000000000002e+30,
                           -1e31, 3.4028234663852886e+38])
    return rng.choice([0.0, 1.0, -1.0])


def cell_value(v):
    """what a cell of the generating table means: None = missing; a number above 1e30 (incl. +inf) cannot be carried by
    a text file (nor by a NetCDF file): each of its spellings is a missing-value token (format description + f945b9c)"""
    return float("nan") if (v is None or v > BIG) else v


def build(genseed, relayout=None, anon=False):
    """-> dict(table=..., lines=[(kind, words)], expect=...)   deterministic in genseed.
    relayout: a second seed; when given the TABLE is the one of genseed but rows / columns / comment
    placement / missing-token spellings / number spellings are drawn afresh (metamorphic variant)."""
    rng = random.Random(genseed * 2654435761 % (2 ** 61) + 17)
    T = {}
    # ---- dimensions and encodings
    nt, nl, ns = rng.randint(1, 4), rng.randint(1, 4), rng.randint(1, 4)
    time_enc = rng.choice(["unix", "date", "datehour", "datehour", "none"])
    lead_enc = rng.choice(["leadtime", "leadtime", "offset", "offset", "none"])
    id_enc = rng.choice(["location", "id", "location", "id", "none"])
    elev_enc = rng.choice(["altitude", "elev", "none"])
    has_lat, has_lon = rng.random() < 0.75, rng.random() < 0.75
    # ---- times
    if time_enc == "none":
        times = [0.0]
    elif time_enc == "unix":
        base = rng.choice([0, 1325376000, 1514764800, -86400 * 400, 4102444800])
        step = rng.choice([3600, 86400, 1800, 1, 21600])
        times = sorted(rng.sample([float(base + k * step) for k in range(-6, 12)], nt))
        if rng.random() < 0.1:
            times[0] += 0.5
    else:
        day0 = rng.choice([days_from_civil(2012, 1, 1), days_from_civil(2018, 1, 1), days_from_civil(2016, 2, 27),
                           days_from_civil(1999, 12, 30), days_from_civil(1969, 12, 30), days_from_civil(2100, 2, 27),
                           days_from_civil(2000, 2, 28), days_from_civil(1970, 1, 1), rng.randint(-3000, 60000)])
        if time_enc == "date":
            times = sorted(float(86400 * (day0 + k)) for k in rng.sample(range(0, 8), nt))
        else:
            hours = rng.sample([0, 6, 12, 18, 24, 30, 36, 1, 23, 25, 47, 0.5], nt)
            times = sorted(set(float(86400 * day0 + int(h * 3600)) for h in hours))
    # ---- lead times
    if lead_enc == "none":
        leads = [0.0]
    else:
        leads = sorted(rng.sample([0.0, 1.0, 2.0, 3.0, 6.0, 12.0, 18.0, 22.0, 24.0, 48.0, 0.5, 1.5, 240.0, -6.0], nl))
    # ---- stations
    stations = []
    if id_enc == "none" and not (has_lat or has_lon or elev_enc != "none"):
        ns = 1
    ids = rng.sample(list(range(0, 12)) + [41, 100, 18700, 99999, -3, 1000000], ns)
    grid_lat = [50.0, 42.0, 60.5, -33.875, 0.0, 89.0, 49.2, 10.0]
    grid_lon = [10.0, 23.0, -123.125, 0.0, 179.5, -0.1, 5.5, 10.0]
    grid_elev = [12.0, 341.0, 0.0, -5.0, 2000.5, 100.0, 8.0, 12.5]
    seen = set()
    for i in ids:
        for _ in range(200):
            if stations and id_enc != "none" and rng.random() < 0.3:
                m = rng.choice(stations)     # same lat/lon/elev as another station (different id)
                lat, lon, elev = m["lat"], m["lon"], m["elev"]
            else:
                lat, lon, elev = rng.choice(grid_lat), rng.choice(grid_lon), rng.choice(grid_elev)
            vis = (lat if has_lat else 0.0, lon if has_lon else 0.0, elev if elev_enc != "none" else 0.0)
            if id_enc != "none" or vis not in seen:
                seen.add(vis)
                break
        else:
            continue
        stations.append({"id": float(i), "lat": lat, "lon": lon, "elev": elev})
    ns = len(stations)
    draw_meta_missing(genseed, stations, id_enc, has_lat, has_lon, elev_enc)
    if anon and id_enc != "none":        # one location whose id is not known (missing-value token in the id column)
        random.Random(genseed * 69069 % (2 ** 61) + 3).choice(stations)["noid"] = True
    # ---- fields
    fields = []     # (kind, param, header word)
    if rng.random() < 0.85:
        fields.append(("obs", None, "obs"))
    if rng.random() < 0.85:
        fields.append(("fcst", None, "fcst"))
    if rng.random() < 0.35:
        fields.append(("pit", None, "pit"))

    def numbered(letter, pool, kmax):
        out, used = [], set()
        for v in rng.sample(pool, rng.choice([0, 0, 1, 2, kmax])):
            if v in used:
                continue
            used.add(v)
            if v == int(v):
                i = int(v)
                forms = ["%d" % i] * 4 + ["%d.0" % i, "%d." % i, "%de0" % i] + (["+%d" % i, "0%d" % i] if i >= 0 else [])
            else:
                forms = [repr(v)] * 3 + ["%.3f" % v]
                if 0 < v < 1:
                    forms.append(repr(v)[1:])
            out.append((v, letter + rng.choice(forms)))
        return out
    for v, w in numbered("p", [-5.0, 0.0, 0.5, 1.0, 5.0, 10.0, 2.5, 273.15, 100.0], 3):
        fields.append(("thr", v, w))
    for v, w in numbered("q", [0.1, 0.25, 0.5, 0.75, 0.9, 0.01, 0.99, 0.0, 1.0], 3):
        fields.append(("qtl", v, w))
    nmem = rng.choice([0, 0, 0, 1, 2, 3, 5])
    if nmem:
        if rng.random() < 0.7:
            for k in range(nmem):
                fields.append(("ens", float(k), "e%d" % k))
        else:
            for v, w in numbered("e", [0.0, 1.0, 2.0, 10.0, 3.0, 7.0, -1.0, 0.5], nmem):
                fields.append(("ens", v, w))
    for name in rng.sample(OTHER_NAMES, rng.choice([0, 0, 1, 1, 2, 3])):
        fields.append(("other", name, name))
    if not any(w in ("obs", "fcst") or w[0] in "pq" for _, _, w in fields):
        fields.append(rng.choice([("obs", None, "obs"), ("fcst", None, "fcst"), ("thr", 1.5, "p1.5"), ("qtl", 0.3, "q0.3")]))
    # ---- rows (sparse)
    keep = rng.choice([1.0, 1.0, 0.8, 0.5])
    pmiss = rng.choice([0.0, 0.1, 0.3])
    rows = []
    for t in times:
        for l in leads:
            for s in stations:
                if rng.random() < keep:
                    vals = [None if rng.random() < pmiss else draw_value(rng) for _ in fields]
                    rows.append({"t": t, "l": l, "s": s, "vals": vals})
    if rng.random() < 0.01:
        rows = []
    meta = {"name": rng.choice(VAR_NAMES) if rng.random() < 0.5 else None,
            "units": rng.choice(UNITS) if rng.random() < 0.5 else None,
            "x0": rng.choice([0.0, -5.0, 0.5, 10.0]) if rng.random() < 0.3 else None,
            "x1": rng.choice([100.0, 10.0, 1.0, 0.25]) if rng.random() < 0.3 else None}
    T = dict(times=times, leads=leads, stations=stations, fields=fields, rows=rows, meta=meta,
             time_enc=time_enc, lead_enc=lead_enc, id_enc=id_enc, elev_enc=elev_enc, has_lat=has_lat, has_lon=has_lon)
    # ================= layout (drawn from lrng so that a re-layout keeps the table)
    lrng = rng if relayout is None else random.Random(relayout * 7919 + genseed)
    return layout(T, lrng)


META_KIND = {"lat": "lat", "lon": "lon", "altitude": "elev", "elev": "elev"}


NAN = float("nan")       # ONE object: tuples that hold it compare equal (identity shortcut)


def nkey(x):
    """canonical order of the replies: numbers ascending, a missing value (NaN) last"""
    return (1, 0.0) if math.isnan(x) else (0, x)


def vis_of(T, s, miss=None):
    """the (lat, lon, elev) a reader of the file can know of station s: the default 0 for an absent column, missing
    (NaN, as the same entry of a NetCDF file reads) for a coordinate that is written as a missing-value token"""
    miss = s.get("miss", ()) if miss is None else miss

    def one(has, k):
        return 0.0 if not has else (NAN if k in miss else s[k])
    return (one(T["has_lat"], "lat"), one(T["has_lon"], "lon"), one(T["elev_enc"] != "none", "elev"))


def draw_meta_missing(genseed, stations, id_enc, has_lat, has_lon, elev_enc):
    """about a third of the files: some locations do not know their lat / lon / elevation; EVERY row of such a
    location has a missing-value token in that column.  Drawn from its own generator so that the rest of the
    table of a seed is what it was before.  Files without ids keep distinct visible (lat,lon,elev) tuples."""
    mrng = random.Random(genseed * 40503 % (2 ** 61) + 5)
    F = dict(has_lat=has_lat, has_lon=has_lon, elev_enc=elev_enc)
    present = [k for k, on in (("lat", has_lat), ("lon", has_lon), ("elev", elev_enc != "none")) if on]
    for s in stations:
        s["miss"] = frozenset()
    if not present or mrng.random() >= 0.35:
        return
    pm = mrng.choice([0.25, 0.5, 1.0])
    ps = mrng.choice([0.4, 0.7, 1.0])
    for s in stations:
        if mrng.random() >= ps:
            continue
        cand = frozenset(k for k in present if mrng.random() < pm)
        if id_enc == "none" and any(o is not s and vis_of(F, o) == vis_of(F, s, cand) for o in stations):
            continue
        s["miss"] = cand


def layout(T, lrng, fixed=False, metatok=None, idtok=None):
    """render table T as lines.  fixed: rows in table order, columns in canonical order, plain spellings
    (deterministic files); metatok: the token written for an unknown lat / lon / elevation (default: any of MISSING,
    drawn per cell)"""
    time_enc, lead_enc, id_enc, elev_enc = T["time_enc"], T["lead_enc"], T["id_enc"], T["elev_enc"]
    has_lat, has_lon, fields, rows, meta = T["has_lat"], T["has_lon"], T["fields"], T["rows"], T["meta"]
    cols = []
    if time_enc == "unix":
        cols.append("unixtime")
    elif time_enc == "date":
        cols.append("date")
    elif time_enc == "datehour":
        cols += ["date", "hour"]
    if lead_enc != "none":
        cols.append(lead_enc)
    if id_enc != "none":
        cols.append(id_enc)
    if has_lat:
        cols.append("lat")
    if has_lon:
        cols.append("lon")
    if elev_enc != "none":
        cols.append(elev_enc)
    ncoord = len(cols)
    cols += [w for _, _, w in fields]
    order = list(range(len(cols)))
    mode = 1.0 if fixed else lrng.random()
    if mode < 0.6:
        lrng.shuffle(order)
    elif mode < 0.7:
        order.reverse()
    rws = list(rows)
    mode = 1.0 if fixed else lrng.random()
    if mode < 0.6:
        lrng.shuffle(rws)
    elif mode < 0.7:
        rws.reverse()
    plain = True if fixed else lrng.random() < 0.3

    def cell(r, c):
        if c < ncoord:
            name = cols[c]
            if name == "unixtime":
                return spell_number(lrng, r["t"], plain)
            if name in ("date", "hour"):
                day, sec = divmod(int(r["t"]), 86400)
                h = sec / 3600.0
                if time_enc == "datehour" and r["t"] != int(r["t"]):
                    raise AssertionError
                if time_enc == "datehour" and "altday" in r:
                    day, h = r["altday"]
                y, m, d = civil_from_days(day)
                if name == "date":
                    return "%04d%02d%02d" % (y, m, d)
                return spell_number(lrng, h, plain)
            if name in ("leadtime", "offset"):
                return spell_number(lrng, r["l"], plain)
            if name in ("location", "id") and r["s"].get("noid"):
                return lrng.choice(ANON_TOKENS) if idtok is None else idtok
            if name in ("location", "id"):
                return spell_number(lrng, r["s"]["id"], plain)
            if META_KIND[name] in r["s"].get("miss", ()):      # not known: a missing-value token on every row
                return lrng.choice(MISSING) if metatok is None else metatok
            return spell_number(lrng, r["s"][META_KIND[name]], plain)
        v = r["vals"][c - ncoord]
        if v is None:
            return lrng.choice(MISSING)
        if math.isinf(v):
            return lrng.choice(["inf", "Inf", "+inf", "infinity"]) if v > 0 else lrng.choice(["-inf", "-Infinity"])
        return spell_number(lrng, v, plain)

    # the same instant spelled as (previous day, hour+24) on some rows
    if time_enc == "datehour":
        for r in rws:
            r.pop("altday", None)
            day, sec = divmod(int(r["t"]), 86400)
            h = sec / 3600.0
            if lrng.random() < 0.3 and h + 24 < 48 and civil_from_days(day - 1)[0] >= 1:
                r["altday"] = (day - 1, h + 24)
    lines = [("r", [cols[c] for c in order])]
    for r in rws:
        lines.append(("r", [cell(r, c) for c in order]))
    for r in rws:
        r.pop("altday", None)
    # comments: metadata lines and others, anywhere
    cm = []
    if meta["name"] is not None:
        cm.append(["variable:"] + meta["name"])
    if meta["units"] is not None:
        cm.append(["units:"] + meta["units"])
    for k in ("x0", "x1"):
        if meta[k] is not None:
            cm.append([k + ":", spell_number(lrng, meta[k], plain)] + (["extra"] if lrng.random() < 0.1 else []))
    for _ in range(0 if fixed else lrng.choice([0, 0, 1, 2])):
        cm.append(lrng.choice(OTHER_COMMENTS))
    lrng.shuffle(cm)
    where = 0.0 if fixed else lrng.random()
    for c in cm:
        pos = 0 if where < 0.6 else lrng.randint(0, len(lines))
        lines.insert(pos, ("c", c))
    T["lines"] = lines
    T["order"] = [cols[c] for c in order]
    return T


# ------------------------------------------------------------------ deterministic files: unknown location metadata
DET_ID = ["location", "id", "none"]
DET_ELEV = ["altitude", "elev"]
DET_SUBSETS = [("lat",), ("lon",), ("elev",), ("lat", "lon"), ("lat", "elev"), ("lon", "elev"), ("lat", "lon", "elev")]
DET_WHO = [(1,), (2,), (0,), (1, 2)]
N_DET = len(DET_ID) * len(DET_ELEV) * len(DET_SUBSETS) * len(DET_WHO) * len(MISSING)


def build_det(k, relayout=None):
    """the k-th file of the exhaustive family  {location, id, no id} x {altitude, elev} x {non-empty subset of
    lat/lon/elevation unknown} x {which of three locations (first, second, third, second and third)} x
    {missing-value token}: one date, two lead times, three locations A B C whose rows follow each other in the
    file (A B C A B), obs and fcst; locations A and B differ in the latitude only, so a reader that fills an unknown
    latitude from the previous row would merge them in a file without ids."""
    k0 = k
    k, tok = divmod(k, len(MISSING))
    k, who = divmod(k, len(DET_WHO))
    k, sub = divmod(k, len(DET_SUBSETS))
    k, el = divmod(k, len(DET_ELEV))
    id_enc = DET_ID[k]
    stations = [{"id": 3.0, "lat": 60.0, "lon": 10.0, "elev": 100.0, "miss": frozenset()},
                {"id": 41.0, "lat": 61.0, "lon": 10.0, "elev": 100.0, "miss": frozenset()},
                {"id": 7.0, "lat": 62.0, "lon": 11.0, "elev": 200.0, "miss": frozenset()}]
    for i in DET_WHO[who]:
        stations[i]["miss"] = frozenset(DET_SUBSETS[sub])
    if id_enc == "none" and len(DET_WHO[who]) == 2 and len(DET_SUBSETS[sub]) == 3:
        stations[2]["miss"] = frozenset(("lat", "lon"))       # two locations without any metadata are one location
    times, leads = [1325376000.0], [0.0, 6.0]
    fields = [("obs", None, "obs"), ("fcst", None, "fcst")]
    rows, n = [], 0
    for l in leads:
        for s in stations:
            n += 1
            if n < 6:                              # (lead 6, C) is absent from the file
                rows.append({"t": times[0], "l": l, "s": s, "vals": [float(n), None if n == 2 else float(10 * n)]})
    T = dict(times=times, leads=leads, stations=stations, fields=fields, rows=rows,
             meta={"name": None, "units": None, "x0": None, "x1": None},
             time_enc="date", lead_enc="leadtime", id_enc=id_enc, elev_enc=DET_ELEV[el], has_lat=True, has_lon=True)
    if id_enc == "none" and len(set(vis_of(T, s) for s in stations)) != 3:
        raise AssertionError("deterministic file %d: locations not distinct" % k0)
    if relayout is None:
        return layout(T, random.Random(k0), fixed=True, metatok=MISSING[tok])
    return layout(T, random.Random(relayout * 7919 + k0))


NANID = [("location", "nan"), ("id", "nan"), ("location", "NaN"), ("id", "NaN")]


def build_nanid(k, relayout=None):
    """three locations, the second without id, its id cells spelled with a literal nan / NaN (float()'s own NaN
    object on every row, which Text._clean now replaces by the np.nan singleton as it does for -999 / NA): regression
    inputs of the repaired finding text-nan-id-values-lost, judged like every other file"""
    id_enc, tok = NANID[k]
    stations = [{"id": 3.0, "lat": 60.0, "lon": 10.0, "elev": 100.0, "miss": frozenset()},
                {"id": 41.0, "lat": 61.0, "lon": 10.0, "elev": 100.0, "miss": frozenset(), "noid": True},
                {"id": 7.0, "lat": 62.0, "lon": 11.0, "elev": 200.0, "miss": frozenset()}]
    times, leads = [1325376000.0], [0.0, 6.0]
    rows, n = [], 0
    for l in leads:
        for st in stations:
            n += 1
            rows.append({"t": times[0], "l": l, "s": st, "vals": [float(n), float(10 * n)]})
    T = dict(times=times, leads=leads, stations=stations, fields=[("obs", None, "obs"), ("fcst", None, "fcst")],
             rows=rows, meta={"name": None, "units": None, "x0": None, "x1": None}, idtoken="nan",
             time_enc="date", lead_enc="leadtime", id_enc=id_enc, elev_enc="altitude", has_lat=True, has_lon=True)
    if relayout is None:
        return layout(T, random.Random(k), fixed=True, idtok=tok)
    return layout(T, random.Random(relayout * 7919 + k), idtok=tok)


def build_tag(tag, relayout=None):
    """the generating table + file of an op tag: <genseed>, d:<k> or a:<genseed>"""
    if tag.startswith("d:"):
        return build_det(int(tag[2:]), relayout)
    if tag.startswith("a:"):
        return build(int(tag[2:]), relayout, anon=True)
    if tag.startswith("n:"):
        return build_nanid(int(tag[2:]), relayout)
    return build(int(tag), relayout)


# ------------------------------------------------------------------ expected dataset of a table (the oracle)
def hexs(s):
    return binascii.hexlify(s.encode()).decode()


def expected(T):
    rows = T["rows"]
    times = sorted(set(r["t"] for r in rows))
    leads = sorted(set(r["l"] for r in rows))
    used = []
    for s in T["stations"]:
        if any(r["s"] is s for r in rows):
            used.append(s)

    def vis(s):
        return vis_of(T, s)
    if T["id_enc"] != "none":
        # a location whose id is not known (missing-value token in the id column) has id NaN, as the same entry of a
        # NetCDF file reads; nothing is invented.  The reply is sorted by id, NaN last
        used.sort(key=lambda s: (1, 0.0) if s.get("noid") else (0, s["id"]))
        ids = [NAN if s.get("noid") else s["id"] for s in used]
    else:
        used.sort(key=lambda s: tuple(nkey(x) for x in vis(s)))
        ids = [float(k) for k in range(len(used))]
    cells = {}
    for r in rows:
        cells[(r["t"], r["l"], id(r["s"]))] = r["vals"]
    nan = float("nan")

    def arr(k):
        out = []
        for t in times:
            for l in leads:
                for s in used:
                    v = cells.get((t, l, id(s)))
                    out.append(nan if v is None else cell_value(v[k]))
        return out

    def arr4(ks):
        out = []
        for t in times:
            for l in leads:
                for s in used:
                    v = cells.get((t, l, id(s)))
                    for k in ks:
                        out.append(nan if v is None else cell_value(v[k]))
        return out
    F = T["fields"]
    d = {"T": xvec(times), "L": xvec(leads), "IDS": xvec(ids),
         "LOC": ",".join("%s:%s:%s" % tuple(xr(x) for x in vis(s)) for s in used) or "-"}
    for name in ("obs", "fcst", "pit"):
        k = [i for i, f in enumerate(F) if f[0] == name]
        d[name] = xvec(arr(k[0])) if (k and rows) else "none"
    for kind, KEY, key in (("thr", "THR", "thr"), ("qtl", "Q", "q"), ("ens", "M", "ens")):
        ks = sorted([i for i, f in enumerate(F) if f[0] == kind], key=lambda i: F[i][1]) if rows else []
        d[KEY] = xvec([F[i][1] for i in ks])
        d[key] = xvec(arr4(ks))
    # other fields in header order; a pit column is also exposed as the other-field "pit"
    oth = []
    if rows:
        for w in T["order"]:
            for i, f in enumerate(F):
                if f[2] == w and f[0] in ("other", "pit"):
                    oth.append("%s=%s" % (hexs(w), xvec(arr(i))))
    d["O"] = ";".join(sorted(oth, key=lambda x: x.split("=")[0])) or "-"
    m = T["meta"]
    d["V"] = "%s:%s:%s:%s" % (hexs(" ".join(m["name"]) if m["name"] is not None else "Unknown variable"),
                              hexs(" ".join(m["units"]) if m["units"] is not None else "Unknown units"),
                              xr(m["x0"]), xr(m["x1"]))
    return d


ORDER = ["T", "L", "IDS", "LOC", "obs", "fcst", "pit", "THR", "thr", "Q", "q", "M", "ens", "O", "V"]


def show(d):
    return " ".join("%s=%s" % (k, d[k]) for k in ORDER)


def parse_reply(s):
    d = {}
    for part in s.split(" "):
        k, _, v = part.partition("=")
        d[k] = v
    return d


# ------------------------------------------------------------------ the real reader
_TMP = None


def _tmpdir():
    global _TMP
    if _TMP is None:
        _TMP = tempfile.mkdtemp(prefix="c09_")
        atexit.register(shutil.rmtree, _TMP, True)
    return _TMP


def file_text(lines, sepseed):
    """join the words with blanks / tabs; every line is checked against str.split()"""
    rng = random.Random(sepseed)
    style = rng.choice(["blank", "blank", "align", "tab", "mixed"])
    eol = "\r\n" if rng.random() < 0.05 else "\n"
    out = []
    for kind, ws in lines:
        if style == "blank":
            s = " ".join(ws)
        elif style == "tab":
            s = "\t".join(ws)
        elif style == "align":
            s = "".join(w.ljust(rng.choice([6, 9, 10])) + " " for w in ws)
        else:
            s = "".join(w + rng.choice([" ", "  ", "\t", " \t ", "   "]) for w in ws)
        if kind == "c":
            s = "#" + (rng.choice(["", " ", "  ", "\t"]) if ws else "") + s
        elif rng.random() < 0.05 and ws:
            s = rng.choice([" ", "\t", "  "]) + s
        check = s[1:].split() if kind == "c" else s.split()
        if check != list(ws) or (kind == "r" and s[:1] == "#"):
            raise AssertionError("word splitting differs from str.split(): %r" % s)
        out.append(s + eol)
    text = "".join(out)
    if rng.random() < 0.1 and text.endswith("\n") and not text.endswith("\r\n"):
        text = text[:-1]
    return text


def read_real(lines, sepseed):
    """write the file, read it with verif.input.Text, canonicalise every attribute"""
    import numpy as np
    import verif.input
    path = os.path.join(_tmpdir(), "f%d.txt" % (sepseed % 7))
    with open(path, "w", newline="") as f:
        f.write(file_text(lines, sepseed))
    try:
        with contextlib.redirect_stdout(io.StringIO()), contextlib.redirect_stderr(io.StringIO()):
            inp = verif.input.Text(path)
    except SystemExit:
        return "ERR"
    header = next((ws for kind, ws in lines if kind == "r"), [])
    has_id = "location" in header or "id" in header
    locs = list(inp.locations)
    idx = list(range(len(locs)))
    if has_id:
        idx.sort(key=lambda i: nkey(locs[i].id))
        ids = [locs[i].id for i in idx]
    else:
        idx.sort(key=lambda i: (nkey(locs[i].lat), nkey(locs[i].lon), nkey(locs[i].elev)))
        ids = sorted(l.id for l in locs)
    # a missing time / lead time (NaN): sorted() of a set that holds a NaN has no specified order (and hash(nan) is the
    # object's address); ONLY then the reply is put in the canonical order, NaN last, with the arrays moved along
    times, leads = [float(t) for t in inp.times], [float(t) for t in inp.leadtimes]
    ti, li = list(range(len(times))), list(range(len(leads)))
    if any(math.isnan(t) for t in times):
        ti.sort(key=lambda i: nkey(times[i]))
    if any(math.isnan(t) for t in leads):
        li.sort(key=lambda i: nkey(leads[i]))
    d = {"T": xvec([times[i] for i in ti]), "L": xvec([leads[i] for i in li]), "IDS": xvec(ids),
         "LOC": ",".join("%s:%s:%s" % (xr(locs[i].lat), xr(locs[i].lon), xr(locs[i].elev)) for i in idx) or "-"}

    def a3(a):
        return "none" if a is None else xvec(np.asarray(a)[ti][:, li][:, :, idx].flatten())

    def a4(a, ks):
        return xvec(np.asarray(a)[ti][:, li][:, :, idx, :][:, :, :, ks].flatten())
    d["obs"], d["fcst"], d["pit"] = a3(inp.obs), a3(inp.fcst), a3(inp.pit)
    for KEY, key, vals, a in (("THR", "thr", inp.thresholds, inp.threshold_scores),
                              ("Q", "q", inp.quantiles, inp.quantile_scores),
                              ("M", "ens", inp.members, inp.ensemble)):
        vals = [float(v) for v in vals]
        ks = sorted(range(len(vals)), key=lambda i: vals[i])
        if KEY == "M" and ks != list(range(len(vals))):
            return "members-not-sorted"
        d[KEY] = xvec([vals[i] for i in ks])
        d[key] = a4(a, ks)
    d["O"] = ";".join("%s=%s" % (hexs(n), a3(inp.other_score(n))) for n in sorted(inp.other_fields, key=hexs)) or "-"
    v = inp.variable
    d["V"] = "%s:%s:%s:%s" % (hexs(v.name), hexs(v.units), xr(v.x0), xr(v.x1))
    # the public accessors must expose the same fields
    return show(d)


# ---- translator extension (harness/translate_more.py gen_texthdr)
TRUSTED_BASE = TRUSTED_BASE + [
    "harness/translate_more.py gen_texthdr: the header classifiers Text._get_quantile_fields / _get_threshold_fields / "
    "_get_ens_fields / _get_other_fields and Input.get_regular_names are regenerated on every run (Gen/TextHeader.lean) "
    "over the model's Word (att[0] == c as startsWith, verif.util.is_number(att[1:]) as the token class of float(att[1:]), "
    "is_number itself checked to be try float / except ValueError) - validated by stream text.genhdr on the real methods; "
    "GenEq.TextHeader.isQ_eq / isP_eq / isE_eq / isOther_eq / regular_eq: generated = the predicates of "
    "Model/TextInput.lean that C09_classify and C09_roundtrip are about"]
RULE += ("; text.genhdr: lists of header words (regular names, p/q/e with numeric, signed, exponent, nan / inf, non-numeric "
         "and empty suffixes, pit, elev, upper case, non-ASCII digits) through the four real classifier methods")
LEVEL_TEXT += (" The four header classifiers are machine-translated from /repo on every run and proved equal to the "
               "model's predicates.")


# ---- stream text.genhdr: the header classifiers machine-translated from input.py (Gen/TextHeader.lean) executed against
# the real Text._get_quantile_fields / _get_threshold_fields / _get_ens_fields / _get_other_fields
HDR_POOL = ["obs", "fcst", "id", "location", "lat", "lon", "elev", "altitude", "hour", "date", "unixtime", "leadtime", "offset",
            "pit", "p", "q", "e", "p5", "p-5", "p+5", "p.5", "p5.", "p5e0", "p1e400", "pnan", "pinf", "p-inf", "pit0", "p5x",
            "q0.25", "q.1", "q1", "q0", "qq", "q-", "q1_", "e0", "e10", "e1.5", "elev2", "e-1", "ens", "x0", "bias", "Q0.5",
            "P5", "E1", "threshold", "quantile", "px", "obs2", "fcst_raw", "0", "5", "p0x10", "q١", "e１"]


def dec_word(tok):
    n = tok.split("~")[0]
    return binascii.unhexlify(n[1:]).decode() if n.startswith("=") else n


def _hdr_ops(tier, rng):
    r = random.Random(repr(rng.getstate()[1][:4]) + "genhdr")     # derived without advancing rng: the other streams keep their samples
    yield "text.genhdr", "genhdr " + ";".join(enc_word(w) for w in HDR_POOL)
    for _ in range(60 if tier == "quick" else 1500):
        ws = []
        for _k in range(r.randint(1, 8)):
            if r.random() < 0.5:
                ws.append(r.choice(HDR_POOL))
            else:
                ws.append(r.choice("pqe") + r.choice(["", "-", "+", "."]) + r.choice(["", "5", "0.5", "1e3", "x", "it", "lev", "nan", "inf"]) + r.choice(["", "", "_", "e"]))
        yield "text.genhdr", "genhdr " + ";".join(enc_word(w) for w in ws)


def _hdr_impl(op):
    import verif.input
    words = [dec_word(t) for t in op.split(" ")[1].split(";")]
    t = verif.input.Text.__new__(verif.input.Text)       # the classifiers need no file
    given = list(words)
    sets = [("q", t._get_quantile_fields(words)), ("p", t._get_threshold_fields(words)), ("e", t._get_ens_fields(words)),
            ("o", t._get_other_fields(words))]
    if words != given:
        return "MUTATED-INPUT"
    return ",".join("".join(k for k, got in sets if w in got) or "-" for w in words)


def _hdr_judge(op, impl_out):
    """the format's description: q<number> is a quantile column, p<number> a threshold (CDF) column, e<number> an ensemble
    member — pit and elev are not —, the coordinate / obs / fcst names are regular columns, anything else is an other-field"""
    regular = ["obs", "fcst", "id", "location", "lat", "lon", "elev", "altitude", "hour", "date", "unixtime", "leadtime", "offset"]

    def num(s):
        try:
            float(s)
            return True
        except ValueError:
            return False
    want = []
    for w in (dec_word(t) for t in op.split(" ")[1].split(";")):
        if w in regular:
            want.append("-")
        elif len(w) > 1 and w[0] in "qpe" and num(w[1:]) and w not in ("pit", "elev"):
            want.append(w[0])
        else:
            want.append("o")
    if impl_out != ",".join(want):
        return ({"kind": "header-class"}, "header words classified %s, the format description says %s (%s)"
                % (impl_out, ",".join(want), op[:200]))
    return None


def impl(op):
    a = op.split(" ")
    if a[0] == "genhdr":
        return _hdr_impl(op)
    if a[0] == "textsplit":
        s = "" if a[2] == "-" else binascii.unhexlify(a[2]).decode()
        # the reader's own expressions (input.py:332-346); an empty string cannot come out of file iteration
        if s[:1] == "#":
            return "c:" + ";".join(hexs(w) for w in s[1:].split())
        return "r:" + ";".join(hexs(w) for w in s.split())
    return read_real(dec_file(a[2]), int(a[1].split(":")[-1]))


# ------------------------------------------------------------------ ops
def malformed(rng):
    base = [("r", ["date", "leadtime", "obs", "fcst"]), ("r", ["20120101", "0", "1", "2"]),
            ("r", ["20120102", "6", "3", "-999"])]
    k = rng.randint(0, 7)
    ls = [(x, list(y)) for x, y in base]
    if k == 0:
        ls[0] = ("r", ["date", "leadtime", "lat", "e0"])
    elif k == 1:
        ls[2] = ("r", ["20120102", "6", "3"])
    elif k == 2:
        ls[1][1][0] = rng.choice(["20120230", "20121301", "20120100", "0", "NA", "-999"])
    elif k == 3:
        ls.insert(0, ("c", ["x0:", "abc"]))
    elif k == 4:
        ls.insert(rng.randint(0, 3), ("c", []))
    elif k == 5:
        ls.insert(1, ("r", []))
    elif k == 6:
        ls.insert(0, ("c", ["x1:"]))
    else:
        ls[0] = ("r", ["date", "pit", "elev", "hour"])
    return ls


def gen_ops(tier, rng):
    n = 1000 if tier == "quick" else 20000
    # exhaustive (both tiers): unknown lat / lon / elevation of a location, every token, every position
    for k in range(N_DET):
        yield "text.locmiss", "textfile d:%d %s" % (k, enc_file(build_det(k)["lines"]))
    for _ in range(n):
        g = rng.randrange(1, 2 ** 40)
        T = build(g)
        yield "text.parse", "textfile %d %s" % (g, enc_file(T["lines"]))
        if g % 8 == 0:       # how the reader cuts lines into words (str.split), on the real lines
            for k, line in enumerate(file_text(T["lines"], g).splitlines(True)):
                yield "text.split", "textsplit %d:%d %s" % (g, k, hexs(line))
    # a location without id (missing-value token in the location / id column) next to locations with ids
    k = 0
    while k < (150 if tier == "quick" else 3000):
        g = rng.randrange(1, 2 ** 40)
        T = build(g, anon=True)
        if T["id_enc"] != "none" and T["rows"]:
            k += 1
            yield "text.anonid", "textfile a:%d %s" % (g, enc_file(T["lines"]))
    for k in range(len(NANID)):     # the same with the id spelled nan / NaN (repaired finding text-nan-id-values-lost)
        yield "text.nanid", "textfile n:%d %s" % (k, enc_file(build_nanid(k)["lines"]))
    for k, line in enumerate(["", "#", "# ", "\n", " # obs", "a\x0bb\x0cc\x1cd\x1fe \r\n", "#\t\tvariable:  T  ",
                              "obs\tfcst", "  1   2\t\n"]):
        yield "text.split", "textsplit 0:%d %s" % (k, hexs(line) or "-")
    for _ in range(40 if tier == "quick" else 400):
        yield "text.reject", "textfile m:%d %s" % (rng.randrange(1, 2 ** 30), enc_file(malformed(rng)))
    for x in _hdr_ops(tier, rng):
        yield x


def cmp(op, impl_out, model_out):
    if impl_out.startswith("EXC:"):
        return model_out == "EXC"
    return impl_out == model_out


def _diff(exp, got):
    for k in ORDER:
        if exp.get(k) != got.get(k):
            return k
    return None


KIND = {"T": "times", "L": "leadtimes", "IDS": "location-ids", "LOC": "location-metadata", "obs": "value",
        "fcst": "value", "pit": "value", "THR": "thresholds", "thr": "value", "Q": "quantiles", "q": "value",
        "M": "members", "ens": "value", "O": "value", "V": "variable-metadata"}


_LAST = {}


def judge(op, impl_out, spec_out):
    a = op.split(" ")
    if a[0] == "genhdr":
        return _hdr_judge(op, impl_out)
    if a[0] == "textsplit":
        g, k = (int(x) for x in a[1].split(":"))
        if g == 0:
            return None
        if _LAST.get("g") != g:
            _LAST.update(g=g, lines=build(g)["lines"])
        kind, ws = _LAST["lines"][k]
        want = kind + ":" + ";".join(hexs(w) for w in ws)
        if impl_out != want:
            return ({"kind": "split"}, "line %r is cut into %s, written as %s" % (a[2], impl_out, want))
        return None
    if a[1].startswith("m:"):
        return None                      # malformed files: only model = code is asserted
    T = build_tag(a[1])
    g = int(a[1].split(":")[-1])
    if enc_file(T["lines"]) != a[2]:
        return ({"kind": "oracle-crash"}, "op line is not the rendering of the table of seed %s" % a[1])
    sig = {"time": T["time_enc"], "lead": T["lead_enc"], "id": T["id_enc"], "elev": T["elev_enc"]}
    unknown = sorted(set(k for s in T["stations"] for k in s.get("miss", ())))
    if unknown:                      # some location does not know these coordinates (missing-value tokens)
        sig["metamiss"] = ",".join(unknown)
    if T.get("idtoken"):
        sig["idtoken"] = T["idtoken"]
    if impl_out.startswith("E") or "=" not in impl_out:
        return (dict(sig, kind="rejected"), "well-formed file ended in %s" % impl_out)
    exp = expected(T)
    got = parse_reply(impl_out)
    if any(s.get("noid") for s in T["stations"]):
        sig["anonid"] = True
    k = _diff(exp, got)
    if k is not None:
        return (dict(sig, kind=KIND[k], attr=k),
                "attribute %s: reader gives %s, the generating table says %s (header %s)" %
                (k, got.get(k, "")[:200], exp[k][:200], " ".join(T["order"])))
    # metamorphic: same table, rows / columns / spellings / comment placement / separators redrawn
    T2 = build_tag(a[1], relayout=g % 1000003 + 1)
    out2 = read_real(T2["lines"], g + 1)
    if out2 != impl_out:
        got2 = parse_reply(out2) if "=" in out2 else {}
        k = _diff(got, got2) or "?"
        return (dict(sig, kind="layout-dependence", attr=k),
                "two layouts of the same table are read differently (%s): %s vs %s | second file: %s" %
                (k, got.get(k, "")[:150], got2.get(k, out2)[:150], enc_file(T2["lines"])[:400]))
    return None


def nontrivial(op, out):
    if op.startswith("genhdr"):
        return any(c in out for c in "qpe")
    if op.startswith("textsplit"):
        return ";" in out
    if "=" not in out:
        return False
    d = parse_reply(out)
    nrows = op.count("|")
    return nrows >= 2 and any(re.search(r"(^|,)-?\d", d.get(k, "")) for k in ("obs", "fcst", "pit", "thr", "q", "ens", "O"))


def float_or_nan(w):
    """True when Text._clean(w) is NaN"""
    try:
        f = float(w)
    except ValueError:
        return True
    return f == -999 or math.isnan(f) or f > BIG


def extra_evidence(rows):
    from collections import Counter
    c = Counter()
    for r in rows:
        a = r["op"].split(" ")
        if a[0] == "textsplit":
            c["split-lines"] += 1
            continue
        if a[0] == "genhdr":
            c["header-word-lists"] += 1
            continue
        if a[1].startswith("m:"):
            c["malformed:" + r["impl"][:14]] += 1
            continue
        hdr = next(l for l in a[2].split("|") if not l.startswith("#"))
        names = [dec_name(t) for t in hdr.split(";")]
        for n in ("unixtime", "date", "hour", "leadtime", "offset", "location", "id", "lat", "lon", "altitude",
                  "elev", "obs", "fcst", "pit"):
            if n in names:
                c["col:" + n] += 1
        c["files"] += 1
        if a[1].startswith("d:"):
            c["exhaustive-locmiss-files"] += 1
        mcols = [i for i, n in enumerate(names) if n in META_KIND]
        datarows = [l.split(";") for l in a[2].split("|") if l and not l.startswith("#")][1:]
        if any(float_or_nan(dec_name(r[i])) for r in datarows for i in mcols if i < len(r)):
            c["with-unknown-location-metadata"] += 1
        if any(n[0] == "p" and n != "pit" for n in names):
            c["col:p*"] += 1
        if any(n[0] == "q" for n in names):
            c["col:q*"] += 1
        if any(n[0] == "e" and n != "elev" for n in names):
            c["col:e*"] += 1
        if a[2].count("#"):
            c["with-comments"] += 1
    return {"input_distribution": dict(sorted(c.items()))}
