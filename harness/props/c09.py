"""C09 — text input files are read faithfully.

One op = one generated text file:   textfile <genseed> <tokenised file>
  * the tokenised file (lines `|`, words `;`, word = name[~val[~sfx]]) is what the Lean model reads;
    val / sfx are the harness's canonicalisation of CPython float(word) / float(word[1:]);
  * impl() rebuilds the file text from the words of the op (separators: blanks / tabs drawn from the
    seed), writes it to a temp dir, reads it with the REAL verif.input.Text and canonicalises every
    attribute;
  * judge() regenerates the GENERATING TABLE from <genseed> (deterministic) and compares the reply
    cell by cell with it (independent of the Lean model), then re-renders the same table with
    shuffled rows / columns / separators / missing tokens, reads that with the real code and
    demands the same dataset (metamorphic oracle).
"""
import atexit
import binascii
import contextlib
import io
import math
import os
import random
import re
import shutil
import tempfile

from common import xr, xvec

ID = "C09"
TARGETS = ["Proofs.C09"]
GEN_PREFIXES = []
THEOREMS = {
    "Proofs.C09": ["VerifModel.C09." + t for t in [
        "C09_roundtrip", "C09_layout_irrelevant", "C09_rows_perm", "C09_classify", "C04_textclean"]],
}
TRUSTED_BASE = [
    "Lean 4.33 kernel; axioms propext, Classical.choice, Quot.sound only",
    "Spec/Table.lean: my reading of the documented text format (a table Case -> Row rendered with any column "
    "order/subset, date[+hour] or unixtime, leadtime or offset, location or id, altitude or elev, comment lines)",
    "CPython float() is modelled at the token-class level: the harness canonicaliser (regex for the generated "
    "grammar: decimal with optional sign/exponent, nan, inf; everything else bad) supplies float(word) and "
    "float(word[1:]) as exact rationals; it is cross-checked against float() on every generated word",
    "Python str.split() (the harness splits/joins words; cross-checked against str.split() on every line), "
    "dict/set/tuple semantics modelled as association lists with structural equality of keys "
    "(set iteration order canonicalised by sorting on both sides), sorted(), datetime/calendar.timegm "
    "modelled by CPython's _ymd2ord formula",
    "hand-written model Model/TextInput.lean of Text.__init__, tied by the correspondence stream text.parse "
    "on every attribute of the object",
    "IEEE rounding: date*86400 + hour*3600 is exact in binary64 for the generated values",
]
ASSUMPTIONS = [
    "well-formed file: one header line with at least one of obs/fcst/p*/q*, distinct column names, every data "
    "row has one value per column, coordinate and metadata cells are numbers other than -999, no two rows with "
    "the same (time, leadtime, location), one (lat,lon,elev) per id, id-less files identify a location by the "
    "(lat,lon,elev) columns present, distinct numeric values among the p/q/e headers",
    "a station whose elevation/lat/lon is exactly -999 is read as 0 (missing code), excluded from well-formedness",
    "a `pit` column is additionally exposed as an other-field named pit (mirrored, stated in C09_roundtrip)",
]
RULE = ("text.parse: random well-formed files, 1-4 times x 1-4 lead times x 1-4 locations, sparse (each case kept "
        "with p in {1,.8,.5}), any column order and subset, time as unixtime / date / date+hour (hours 0..47, the "
        "same instant spelled differently on different rows) / absent, leadtime / offset / absent, location / id / "
        "neither (lat,lon,elev keyed), altitude / elev / absent, obs fcst pit p<t> q<q> e<m> and other columns with "
        "odd spellings (p-5 p+5 p.5 p5. p5e0 q0.25 e10 q p e pit x0), missing tokens -999 -999.0 NA na . nan NaN, "
        "values on a 1/8 grid plus decimals and inf, tabs / multiple blanks / CRLF, comment and # variable/units/x0/x1 "
        "lines anywhere; text.reject: a few malformed files (no data column, short row, invalid date, bad x0); "
        "an op is non-trivial if the file has >= 2 data rows and at least one field with a non-missing value")
EXHAUSTIVE = {"quick": False, "thorough": False}
EXHAUSTIVE_NOTE = "seeded random; the space of files is unbounded"
LEVEL_TEXT = ("Lean theorems over a token-level model of Text.__init__: parsing the rendering of any well-formed "
              "table under any layout returns exactly the table (values at their own coordinates, NaN elsewhere, "
              "ascending duplicate-free times and lead times, location metadata per id, numeric thresholds / "
              "quantiles / members, variable metadata); layouts and row orders are irrelevant; header words are "
              "classified into exactly one class; _clean maps exactly bad / -999 / nan tokens to NaN. The model is "
              "tied to /repo by differential correspondence on every attribute of the reader's result.")
TECHNIQUE = "Lean 4 proof over a hand-written model; seeded differential correspondence + table and metamorphic oracles"

# ------------------------------------------------------------------ float() at the token-class level
_DEC = re.compile(r"[+-]?(\d+\.?\d*|\.\d+)([eE][+-]?\d+)?\Z")
_SPECIAL = re.compile(r"([+-]?)(nan|inf|infinity)\Z", re.I)
_INTLIT = re.compile(r"-?(0|[1-9][0-9]*)\Z")
_SAFE = re.compile(r"[A-Za-z0-9_.:+\-/%$^(),]+\Z")


def tokclass(s):
    """class/value of CPython float(s) on the generated grammar: 'b' | 'n' | 'i' | 'j' | exact rational"""
    m = _SPECIAL.match(s)
    if m:
        out = "n" if m.group(2).lower() == "nan" else ("j" if m.group(1) == "-" else "i")
    elif _DEC.match(s):
        out = xr(float(s))
        if out in ("inf", "-inf"):
            out = "i" if out == "inf" else "j"
    else:
        out = "b"
    # cross-check with CPython (the trusted base is this agreement on the generated grammar)
    try:
        f = float(s)
        ok = (out != "b") and ((out == "n") == math.isnan(f))
    except ValueError:
        ok = out == "b"
    if not ok:
        raise AssertionError("canonicaliser disagrees with float() on %r" % s)
    return out


def enc_word(w):
    name = w if (_SAFE.match(w) and not w.startswith("=")) else "=" + binascii.hexlify(w.encode()).decode()
    if _INTLIT.match(w):
        return name
    out = name + "~" + tokclass(w)
    if w[0] in "pqe":
        sfx = tokclass(w[1:])
        if sfx != "b":
            out += "~" + sfx
    return out


def dec_name(t):
    n = t.split("~")[0]
    return binascii.unhexlify(n[1:]).decode() if n.startswith("=") else n


def enc_file(lines):
    """lines: list of (kind, [words]) with kind 'c' (comment, words after '#') or 'r'"""
    out = []
    for kind, ws in lines:
        toks = [enc_word(w) for w in ws]
        out.append(";".join((["#"] if kind == "c" else []) + toks))
    return "|".join(out)


def dec_file(enc):
    lines = []
    for l in enc.split("|"):
        if l == "":
            lines.append(("r", []))
            continue
        ts = l.split(";")
        if ts[0] == "#":
            lines.append(("c", [dec_name(t) for t in ts[1:]]))
        else:
            lines.append(("r", [dec_name(t) for t in ts]))
    return lines


# ------------------------------------------------------------------ calendar, independent of verif / datetime
def days_from_civil(y, m, d):
    """Howard Hinnant's algorithm (proleptic Gregorian), days since 1970-01-01"""
    y -= m <= 2
    era = (y if y >= 0 else y - 399) // 400
    yoe = y - era * 400
    doy = (153 * (m + (-3 if m > 2 else 9)) + 2) // 5 + d - 1
    doe = yoe * 365 + yoe // 4 - yoe // 100 + doy
    return era * 146097 + doe - 719468


def civil_from_days(z):
    z += 719468
    era = (z if z >= 0 else z - 146096) // 146097
    doe = z - era * 146097
    yoe = (doe - doe // 1460 + doe // 36524 - doe // 146096) // 365
    y = yoe + era * 400
    doy = doe - (365 * yoe + yoe // 4 - yoe // 100)
    mp = (5 * doy + 2) // 153
    d = doy - (153 * mp + 2) // 5 + 1
    m = mp + (3 if mp < 10 else -9)
    return y + (m <= 2), m, d


# ------------------------------------------------------------------ generator: table + layout -> file
MISSING = ["-999", "-999.0", "NA", ".", "nan", "NaN", "na", "-999.00", "-9.99e2"]
OTHER_NAMES = ["foo", "q", "p", "e", "x0", "pitx", "elevation", "eabc", "qq", "p5x", "T2m", "obs2", "fcst_raw",
               "ensmean", "lead", "time", "pp", "e1a"]
VAR_NAMES = [["Weird", "variable"], ["T"], ["Precip", "24h"], ["RH"], ["Wind", "speed", "10m"], []]
UNITS = [["Some", "units"], ["mm"], ["m/s"], ["$^oC$"], ["%"], ["kg", "m^-2"]]
OTHER_COMMENTS = [["this", "is", "a", "comment"], ["comment"], ["variable", "T"], ["x2:", "3"], ["Units:", "K"],
                  ["date", "obs", "fcst"], ["-999"]]


def spell_number(rng, v, plain=False):
    """a spelling s with float(s) == v (v a finite float)"""
    if v == int(v) and abs(v) < 1e15:
        i = int(v)
        forms = ["%d" % i] * 6 + ["%d.0" % i, "%d." % i, "%de0" % i, "%d.00" % i]
        if i >= 0:
            forms += ["+%d" % i, "0%d" % i]
    else:
        forms = [repr(v)] * 4 + ["%.10g" % v, "%.6e" % v]
        if 0 < abs(v) < 1 and repr(abs(v)).startswith("0."):
            forms.append(("-" if v < 0 else "") + repr(abs(v))[1:])
    if plain:
        forms = forms[:1]
    for _ in range(8):
        s = rng.choice(forms)
        if float(s) == v:
            return s
    return repr(v)


def draw_value(rng):
    r = rng.random()
    if r < 0.70:
        return rng.randint(-400, 400) / 8.0
    if r < 0.85:
        return float(rng.randint(-20, 40))
    if r < 0.93:
        return rng.choice([0.1, 0.2, 12.34, -3.7, 1e5, 2.5e-3, 999.0, -99.0, 998.9, 0.3333])
    if r < 0.95:
        return rng.choice([float("inf"), float("-inf")])
    return rng.choice([0.0, 1.0, -1.0])


def build(genseed, relayout=None):
    """-> dict(table=..., lines=[(kind, words)], expect=...)   deterministic in genseed.
    relayout: a second seed; when given the TABLE is the one of genseed but rows / columns / comment
    placement / missing-token spellings / number spellings are drawn afresh (metamorphic variant)."""
    rng = random.Random(genseed * 2654435761 % (2 ** 61) + 17)
    T = {}
    # ---- dimensions and encodings
    nt, nl, ns = rng.randint(1, 4), rng.randint(1, 4), rng.randint(1, 4)
    time_enc = rng.choice(["unix", "date", "datehour", "datehour", "none"])
    lead_enc = rng.choice(["leadtime", "leadtime", "offset", "offset", "none"])
    id_enc = rng.choice(["location", "id", "location", "id", "none"])
    elev_enc = rng.choice(["altitude", "elev", "none"])
    has_lat, has_lon = rng.random() < 0.75, rng.random() < 0.75
    # ---- times
    if time_enc == "none":
        times = [0.0]
    elif time_enc == "unix":
        base = rng.choice([0, 1325376000, 1514764800, -86400 * 400, 4102444800])
        step = rng.choice([3600, 86400, 1800, 1, 21600])
        times = sorted(rng.sample([float(base + k * step) for k in range(-6, 12)], nt))
        if rng.random() < 0.1:
            times[0] += 0.5
    else:
        day0 = rng.choice([days_from_civil(2012, 1, 1), days_from_civil(2018, 1, 1), days_from_civil(2016, 2, 27),
                           days_from_civil(1999, 12, 30), days_from_civil(1969, 12, 30), days_from_civil(2100, 2, 27),
                           days_from_civil(2000, 2, 28), days_from_civil(1970, 1, 1), rng.randint(-3000, 60000)])
        if time_enc == "date":
            times = sorted(float(86400 * (day0 + k)) for k in rng.sample(range(0, 8), nt))
        else:
            hours = rng.sample([0, 6, 12, 18, 24, 30, 36, 1, 23, 25, 47, 0.5], nt)
            times = sorted(set(float(86400 * day0 + int(h * 3600)) for h in hours))
    # ---- lead times
    if lead_enc == "none":
        leads = [0.0]
    else:
        leads = sorted(rng.sample([0.0, 1.0, 2.0, 3.0, 6.0, 12.0, 18.0, 22.0, 24.0, 48.0, 0.5, 1.5, 240.0, -6.0], nl))
    # ---- stations
    stations = []
    if id_enc == "none" and not (has_lat or has_lon or elev_enc != "none"):
        ns = 1
    ids = rng.sample(list(range(0, 12)) + [41, 100, 18700, 99999, -3, 1000000], ns)
    grid_lat = [50.0, 42.0, 60.5, -33.875, 0.0, 89.0, 49.2, 10.0]
    grid_lon = [10.0, 23.0, -123.125, 0.0, 179.5, -0.1, 5.5, 10.0]
    grid_elev = [12.0, 341.0, 0.0, -5.0, 2000.5, 100.0, 8.0, 12.5]
    seen = set()
    for i in ids:
        for _ in range(200):
            if stations and id_enc != "none" and rng.random() < 0.3:
                m = rng.choice(stations)     # same lat/lon/elev as another station (different id)
                lat, lon, elev = m["lat"], m["lon"], m["elev"]
            else:
                lat, lon, elev = rng.choice(grid_lat), rng.choice(grid_lon), rng.choice(grid_elev)
            vis = (lat if has_lat else 0.0, lon if has_lon else 0.0, elev if elev_enc != "none" else 0.0)
            if id_enc != "none" or vis not in seen:
                seen.add(vis)
                break
        else:
            continue
        stations.append({"id": float(i), "lat": lat, "lon": lon, "elev": elev})
    ns = len(stations)
    # ---- fields
    fields = []     # (kind, param, header word)
    if rng.random() < 0.85:
        fields.append(("obs", None, "obs"))
    if rng.random() < 0.85:
        fields.append(("fcst", None, "fcst"))
    if rng.random() < 0.35:
        fields.append(("pit", None, "pit"))

    def numbered(letter, pool, kmax):
        out, used = [], set()
        for v in rng.sample(pool, rng.choice([0, 0, 1, 2, kmax])):
            if v in used:
                continue
            used.add(v)
            if v == int(v):
                i = int(v)
                forms = ["%d" % i] * 4 + ["%d.0" % i, "%d." % i, "%de0" % i] + (["+%d" % i, "0%d" % i] if i >= 0 else [])
            else:
                forms = [repr(v)] * 3 + ["%.3f" % v]
                if 0 < v < 1:
                    forms.append(repr(v)[1:])
            out.append((v, letter + rng.choice(forms)))
        return out
    for v, w in numbered("p", [-5.0, 0.0, 0.5, 1.0, 5.0, 10.0, 2.5, 273.15, 100.0], 3):
        fields.append(("thr", v, w))
    for v, w in numbered("q", [0.1, 0.25, 0.5, 0.75, 0.9, 0.01, 0.99, 0.0, 1.0], 3):
        fields.append(("qtl", v, w))
    nmem = rng.choice([0, 0, 0, 1, 2, 3, 5])
    if nmem:
        if rng.random() < 0.7:
            for k in range(nmem):
                fields.append(("ens", float(k), "e%d" % k))
        else:
            for v, w in numbered("e", [0.0, 1.0, 2.0, 10.0, 3.0, 7.0, -1.0, 0.5], nmem):
                fields.append(("ens", v, w))
    for name in rng.sample(OTHER_NAMES, rng.choice([0, 0, 1, 1, 2, 3])):
        fields.append(("other", name, name))
    if not any(w in ("obs", "fcst") or w[0] in "pq" for _, _, w in fields):
        fields.append(rng.choice([("obs", None, "obs"), ("fcst", None, "fcst"), ("thr", 1.5, "p1.5"), ("qtl", 0.3, "q0.3")]))
    # ---- rows (sparse)
    keep = rng.choice([1.0, 1.0, 0.8, 0.5])
    pmiss = rng.choice([0.0, 0.1, 0.3])
    rows = []
    for t in times:
        for l in leads:
            for s in stations:
                if rng.random() < keep:
                    vals = [None if rng.random() < pmiss else draw_value(rng) for _ in fields]
                    rows.append({"t": t, "l": l, "s": s, "vals": vals})
    if rng.random() < 0.01:
        rows = []
    meta = {"name": rng.choice(VAR_NAMES) if rng.random() < 0.5 else None,
            "units": rng.choice(UNITS) if rng.random() < 0.5 else None,
            "x0": rng.choice([0.0, -5.0, 0.5, 10.0]) if rng.random() < 0.3 else None,
            "x1": rng.choice([100.0, 10.0, 1.0, 0.25]) if rng.random() < 0.3 else None}
    T = dict(times=times, leads=leads, stations=stations, fields=fields, rows=rows, meta=meta,
             time_enc=time_enc, lead_enc=lead_enc, id_enc=id_enc, elev_enc=elev_enc, has_lat=has_lat, has_lon=has_lon)

    # ================= layout (drawn from lrng so that a re-layout keeps the table)
    lrng = rng if relayout is None else random.Random(relayout * 7919 + genseed)
    cols = []
    if time_enc == "unix":
        cols.append("unixtime")
    elif time_enc == "date":
        cols.append("date")
    elif time_enc == "datehour":
        cols += ["date", "hour"]
    if lead_enc != "none":
        cols.append(lead_enc)
    if id_enc != "none":
        cols.append(id_enc)
    if has_lat:
        cols.append("lat")
    if has_lon:
        cols.append("lon")
    if elev_enc != "none":
        cols.append(elev_enc)
    ncoord = len(cols)
    cols += [w for _, _, w in fields]
    order = list(range(len(cols)))
    mode = lrng.random()
    if mode < 0.6:
        lrng.shuffle(order)
    elif mode < 0.7:
        order.reverse()
    rws = list(rows)
    mode = lrng.random()
    if mode < 0.6:
        lrng.shuffle(rws)
    elif mode < 0.7:
        rws.reverse()
    plain = lrng.random() < 0.3

    def cell(r, c):
        if c < ncoord:
            name = cols[c]
            if name == "unixtime":
                return spell_number(lrng, r["t"], plain)
            if name in ("date", "hour"):
                day, sec = divmod(int(r["t"]), 86400)
                h = sec / 3600.0
                if time_enc == "datehour" and r["t"] != int(r["t"]):
                    raise AssertionError
                if time_enc == "datehour" and "altday" in r:
                    day, h = r["altday"]
                y, m, d = civil_from_days(day)
                if name == "date":
                    return "%04d%02d%02d" % (y, m, d)
                return spell_number(lrng, h, plain)
            if name in ("leadtime", "offset"):
                return spell_number(lrng, r["l"], plain)
            if name in ("location", "id"):
                return spell_number(lrng, r["s"]["id"], plain)
            if name in ("altitude", "elev"):
                return spell_number(lrng, r["s"]["elev"], plain)
            return spell_number(lrng, r["s"][name], plain)
        v = r["vals"][c - ncoord]
        if v is None:
            return lrng.choice(MISSING)
        if math.isinf(v):
            return lrng.choice(["inf", "Inf", "+inf", "infinity"]) if v > 0 else lrng.choice(["-inf", "-Infinity"])
        return spell_number(lrng, v, plain)

    # the same instant spelled as (previous day, hour+24) on some rows
    if time_enc == "datehour":
        for r in rws:
            r.pop("altday", None)
            day, sec = divmod(int(r["t"]), 86400)
            h = sec / 3600.0
            if lrng.random() < 0.3 and h + 24 < 48 and civil_from_days(day - 1)[0] >= 1:
                r["altday"] = (day - 1, h + 24)
    lines = [("r", [cols[c] for c in order])]
    for r in rws:
        lines.append(("r", [cell(r, c) for c in order]))
    for r in rws:
        r.pop("altday", None)
    # comments: metadata lines and others, anywhere
    cm = []
    if meta["name"] is not None:
        cm.append(["variable:"] + meta["name"])
    if meta["units"] is not None:
        cm.append(["units:"] + meta["units"])
    for k in ("x0", "x1"):
        if meta[k] is not None:
            cm.append([k + ":", spell_number(lrng, meta[k], plain)] + (["extra"] if lrng.random() < 0.1 else []))
    for _ in range(lrng.choice([0, 0, 1, 2])):
        cm.append(lrng.choice(OTHER_COMMENTS))
    lrng.shuffle(cm)
    where = lrng.random()
    for c in cm:
        pos = 0 if where < 0.6 else lrng.randint(0, len(lines))
        lines.insert(pos, ("c", c))
    T["lines"] = lines
    T["order"] = [cols[c] for c in order]
    return T


# ------------------------------------------------------------------ expected dataset of a table (the oracle)
def hexs(s):
    return binascii.hexlify(s.encode()).decode()


def expected(T):
    rows = T["rows"]
    times = sorted(set(r["t"] for r in rows))
    leads = sorted(set(r["l"] for r in rows))
    used = []
    for s in T["stations"]:
        if any(r["s"] is s for r in rows):
            used.append(s)

    def vis(s):
        return (s["lat"] if T["has_lat"] else 0.0, s["lon"] if T["has_lon"] else 0.0,
                s["elev"] if T["elev_enc"] != "none" else 0.0)
    if T["id_enc"] != "none":
        used.sort(key=lambda s: s["id"])
        ids = [s["id"] for s in used]
    else:
        used.sort(key=vis)
        ids = [float(k) for k in range(len(used))]
    cells = {}
    for r in rows:
        cells[(r["t"], r["l"], id(r["s"]))] = r["vals"]
    nan = float("nan")

    def arr(k):
        out = []
        for t in times:
            for l in leads:
                for s in used:
                    v = cells.get((t, l, id(s)))
                    out.append(nan if v is None or v[k] is None else v[k])
        return out

    def arr4(ks):
        out = []
        for t in times:
            for l in leads:
                for s in used:
                    v = cells.get((t, l, id(s)))
                    for k in ks:
                        out.append(nan if v is None or v[k] is None else v[k])
        return out
    F = T["fields"]
    d = {"T": xvec(times), "L": xvec(leads), "IDS": xvec(ids),
         "LOC": ",".join("%s:%s:%s" % tuple(xr(x) for x in vis(s)) for s in used) or "-"}
    for name in ("obs", "fcst", "pit"):
        k = [i for i, f in enumerate(F) if f[0] == name]
        d[name] = xvec(arr(k[0])) if (k and rows) else "none"
    for kind, KEY, key in (("thr", "THR", "thr"), ("qtl", "Q", "q"), ("ens", "M", "ens")):
        ks = sorted([i for i, f in enumerate(F) if f[0] == kind], key=lambda i: F[i][1]) if rows else []
        d[KEY] = xvec([F[i][1] for i in ks])
        d[key] = xvec(arr4(ks))
    # other fields in header order; a pit column is also exposed as the other-field "pit"
    oth = []
    if rows:
        for w in T["order"]:
            for i, f in enumerate(F):
                if f[2] == w and f[0] in ("other", "pit"):
                    oth.append("%s=%s" % (hexs(w), xvec(arr(i))))
    d["O"] = ";".join(sorted(oth, key=lambda x: x.split("=")[0])) or "-"
    m = T["meta"]
    d["V"] = "%s:%s:%s:%s" % (hexs(" ".join(m["name"]) if m["name"] is not None else "Unknown variable"),
                              hexs(" ".join(m["units"]) if m["units"] is not None else "Unknown units"),
                              xr(m["x0"]), xr(m["x1"]))
    return d


ORDER = ["T", "L", "IDS", "LOC", "obs", "fcst", "pit", "THR", "thr", "Q", "q", "M", "ens", "O", "V"]


def show(d):
    return " ".join("%s=%s" % (k, d[k]) for k in ORDER)


def parse_reply(s):
    d = {}
    for part in s.split(" "):
        k, _, v = part.partition("=")
        d[k] = v
    return d


# ------------------------------------------------------------------ the real reader
_TMP = None


def _tmpdir():
    global _TMP
    if _TMP is None:
        _TMP = tempfile.mkdtemp(prefix="c09_")
        atexit.register(shutil.rmtree, _TMP, True)
    return _TMP


def file_text(lines, sepseed):
    """join the words with blanks / tabs; every line is checked against str.split()"""
    rng = random.Random(sepseed)
    style = rng.choice(["blank", "blank", "align", "tab", "mixed"])
    eol = "\r\n" if rng.random() < 0.05 else "\n"
    out = []
    for kind, ws in lines:
        if style == "blank":
            s = " ".join(ws)
        elif style == "tab":
            s = "\t".join(ws)
        elif style == "align":
            s = "".join(w.ljust(rng.choice([6, 9, 10])) + " " for w in ws)
        else:
            s = "".join(w + rng.choice([" ", "  ", "\t", " \t ", "   "]) for w in ws)
        if kind == "c":
            s = "#" + (rng.choice(["", " ", "  ", "\t"]) if ws else "") + s
        elif rng.random() < 0.05 and ws:
            s = rng.choice([" ", "\t", "  "]) + s
        check = s[1:].split() if kind == "c" else s.split()
        if check != list(ws) or (kind == "r" and s[:1] == "#"):
            raise AssertionError("word splitting differs from str.split(): %r" % s)
        out.append(s + eol)
    text = "".join(out)
    if rng.random() < 0.1 and text.endswith("\n") and not text.endswith("\r\n"):
        text = text[:-1]
    return text


def read_real(lines, sepseed):
    """write the file, read it with verif.input.Text, canonicalise every attribute"""
    import numpy as np
    import verif.input
    path = os.path.join(_tmpdir(), "f%d.txt" % (sepseed % 7))
    with open(path, "w", newline="") as f:
        f.write(file_text(lines, sepseed))
    try:
        with contextlib.redirect_stdout(io.StringIO()), contextlib.redirect_stderr(io.StringIO()):
            inp = verif.input.Text(path)
    except SystemExit:
        return "ERR"
    header = next((ws for kind, ws in lines if kind == "r"), [])
    has_id = "location" in header or "id" in header
    locs = list(inp.locations)
    idx = list(range(len(locs)))
    if has_id:
        idx.sort(key=lambda i: locs[i].id)
        ids = [locs[i].id for i in idx]
    else:
        idx.sort(key=lambda i: (locs[i].lat, locs[i].lon, locs[i].elev))
        ids = sorted(l.id for l in locs)
    d = {"T": xvec(inp.times), "L": xvec(inp.leadtimes), "IDS": xvec(ids),
         "LOC": ",".join("%s:%s:%s" % (xr(locs[i].lat), xr(locs[i].lon), xr(locs[i].elev)) for i in idx) or "-"}

    def a3(a):
        return "none" if a is None else xvec(np.asarray(a)[:, :, idx].flatten())

    def a4(a, ks):
        return xvec(np.asarray(a)[:, :, idx, :][:, :, :, ks].flatten())
    d["obs"], d["fcst"], d["pit"] = a3(inp.obs), a3(inp.fcst), a3(inp.pit)
    for KEY, key, vals, a in (("THR", "thr", inp.thresholds, inp.threshold_scores),
                              ("Q", "q", inp.quantiles, inp.quantile_scores),
                              ("M", "ens", inp.members, inp.ensemble)):
        vals = [float(v) for v in vals]
        ks = sorted(range(len(vals)), key=lambda i: vals[i])
        if KEY == "M" and ks != list(range(len(vals))):
            return "members-not-sorted"
        d[KEY] = xvec([vals[i] for i in ks])
        d[key] = a4(a, ks)
    d["O"] = ";".join("%s=%s" % (hexs(n), a3(inp.other_score(n))) for n in sorted(inp.other_fields, key=hexs)) or "-"
    v = inp.variable
    d["V"] = "%s:%s:%s:%s" % (hexs(v.name), hexs(v.units), xr(v.x0), xr(v.x1))
    # the public accessors must expose the same fields
    return show(d)


def impl(op):
    a = op.split(" ")
    if a[0] == "textsplit":
        s = "" if a[2] == "-" else binascii.unhexlify(a[2]).decode()
        # the reader's own expressions (input.py:332-346); an empty string cannot come out of file iteration
        if s[:1] == "#":
            return "c:" + ";".join(hexs(w) for w in s[1:].split())
        return "r:" + ";".join(hexs(w) for w in s.split())
    return read_real(dec_file(a[2]), int(a[1].split(":")[-1]))


# ------------------------------------------------------------------ ops
def malformed(rng):
    base = [("r", ["date", "leadtime", "obs", "fcst"]), ("r", ["20120101", "0", "1", "2"]),
            ("r", ["20120102", "6", "3", "-999"])]
    k = rng.randint(0, 7)
    ls = [(x, list(y)) for x, y in base]
    if k == 0:
        ls[0] = ("r", ["date", "leadtime", "lat", "e0"])
    elif k == 1:
        ls[2] = ("r", ["20120102", "6", "3"])
    elif k == 2:
        ls[1][1][0] = rng.choice(["20120230", "20121301", "20120100", "0", "NA", "-999"])
    elif k == 3:
        ls.insert(0, ("c", ["x0:", "abc"]))
    elif k == 4:
        ls.insert(rng.randint(0, 3), ("c", []))
    elif k == 5:
        ls.insert(1, ("r", []))
    elif k == 6:
        ls.insert(0, ("c", ["x1:"]))
    else:
        ls[0] = ("r", ["date", "pit", "elev", "hour"])
    return ls


def gen_ops(tier, rng):
    n = 1000 if tier == "quick" else 20000
    for _ in range(n):
        g = rng.randrange(1, 2 ** 40)
        T = build(g)
        yield "text.parse", "textfile %d %s" % (g, enc_file(T["lines"]))
        if g % 8 == 0:       # how the reader cuts lines into words (str.split), on the real lines
            for k, line in enumerate(file_text(T["lines"], g).splitlines(True)):
                yield "text.split", "textsplit %d:%d %s" % (g, k, hexs(line))
    for k, line in enumerate(["", "#", "# ", "\n", " # obs", "a\x0bb\x0cc\x1cd\x1fe \r\n", "#\t\tvariable:  T  ",
                              "obs\tfcst", "  1   2\t\n"]):
        yield "text.split", "textsplit 0:%d %s" % (k, hexs(line) or "-")
    for _ in range(40 if tier == "quick" else 400):
        yield "text.reject", "textfile m:%d %s" % (rng.randrange(1, 2 ** 30), enc_file(malformed(rng)))


def cmp(op, impl_out, model_out):
    if impl_out.startswith("EXC:"):
        return model_out == "EXC"
    return impl_out == model_out


def _diff(exp, got):
    for k in ORDER:
        if exp.get(k) != got.get(k):
            return k
    return None


KIND = {"T": "times", "L": "leadtimes", "IDS": "location-ids", "LOC": "location-metadata", "obs": "value",
        "fcst": "value", "pit": "value", "THR": "thresholds", "thr": "value", "Q": "quantiles", "q": "value",
        "M": "members", "ens": "value", "O": "value", "V": "variable-metadata"}


_LAST = {}


def judge(op, impl_out, spec_out):
    a = op.split(" ")
    if a[0] == "textsplit":
        g, k = (int(x) for x in a[1].split(":"))
        if g == 0:
            return None
        if _LAST.get("g") != g:
            _LAST.update(g=g, lines=build(g)["lines"])
        kind, ws = _LAST["lines"][k]
        want = kind + ":" + ";".join(hexs(w) for w in ws)
        if impl_out != want:
            return ({"kind": "split"}, "line %r is cut into %s, written as %s" % (a[2], impl_out, want))
        return None
    if a[1].startswith("m:"):
        return None                      # malformed files: only model = code is asserted
    g = int(a[1])
    T = build(g)
    if enc_file(T["lines"]) != a[2]:
        return ({"kind": "oracle-crash"}, "op line is not the rendering of the table of seed %d" % g)
    layout = {"time": T["time_enc"], "lead": T["lead_enc"], "id": T["id_enc"], "elev": T["elev_enc"]}
    if impl_out.startswith("E") or "=" not in impl_out:
        return (dict(layout, kind="rejected"), "well-formed file ended in %s" % impl_out)
    exp = expected(T)
    got = parse_reply(impl_out)
    k = _diff(exp, got)
    if k is not None:
        return (dict(layout, kind=KIND[k], attr=k),
                "attribute %s: reader gives %s, the generating table says %s (header %s)" %
                (k, got.get(k, "")[:200], exp[k][:200], " ".join(T["order"])))
    # metamorphic: same table, rows / columns / spellings / comment placement / separators redrawn
    T2 = build(g, relayout=g % 1000003 + 1)
    out2 = read_real(T2["lines"], g + 1)
    if out2 != impl_out:
        got2 = parse_reply(out2) if "=" in out2 else {}
        k = _diff(got, got2) or "?"
        return (dict(layout, kind="layout-dependence", attr=k),
                "two layouts of the same table are read differently (%s): %s vs %s | second file: %s" %
                (k, got.get(k, "")[:150], got2.get(k, out2)[:150], enc_file(T2["lines"])[:400]))
    return None


def nontrivial(op, out):
    if op.startswith("textsplit"):
        return ";" in out
    if "=" not in out:
        return False
    d = parse_reply(out)
    nrows = op.count("|")
    return nrows >= 2 and any(re.search(r"(^|,)-?\d", d.get(k, "")) for k in ("obs", "fcst", "pit", "thr", "q", "ens", "O"))


def extra_evidence(rows):
    from collections import Counter
    c = Counter()
    for r in rows:
        a = r["op"].split(" ")
        if a[0] == "textsplit":
            c["split-lines"] += 1
            continue
        if a[1].startswith("m:"):
            c["malformed:" + r["impl"][:14]] += 1
            continue
        hdr = next(l for l in a[2].split("|") if not l.startswith("#"))
        names = [dec_name(t) for t in hdr.split(";")]
        for n in ("unixtime", "date", "hour", "leadtime", "offset", "location", "id", "lat", "lon", "altitude",
                  "elev", "obs", "fcst", "pit"):
            if n in names:
                c["col:" + n] += 1
        c["files"] += 1
        if any(n[0] == "p" and n != "pit" for n in names):
            c["col:p*"] += 1
        if any(n[0] == "q" for n in names):
            c["col:q*"] += 1
        if any(n[0] == "e" and n != "elev" for n in names):
            c["col:e*"] += 1
        if a[2].count("#"):
            c["with-comments"] += 1
    return {"input_distribution": dict(sorted(c.items()))}
