"""C18 — query results are independent of query history and repeatable."""
import itertools
import datagen as dg
import props.c01 as c01
from common import tokens_close

ID = "C18"
TARGETS = ["Proofs.C18"]
GEN_PREFIXES = []
THEOREMS = {"Proofs.C18": ["VerifModel.C18." + t for t in [
    "maskObsRange_idem", "pureArr_alias", "inv_init", "getRef_spec", "getArr_spec", "colsS_spec", "climS_spec",
    "step_spec", "C18_history_independent", "C18_from_fresh", "C18_repeat", "C18_errors_pure"]]}
TRUSTED_BASE = c01.TRUSTED_BASE + [
    "Model/DataState.lean: heap model of the two caches (references = indices into a store, observation arrays shared "
    "by reference between inputs, -obsrange applied in place); that get_scores never returns a reference into the "
    "cache (flatten / fancy indexing / arithmetic / .copy() allocate) is checked by the datahist stream, which re-reads "
    "every earlier answer after each request",
    "determinism of NumPy on the same inputs; Pit.randomize (np.random, only with x0/x1 metadata) is outside the model",
]
ASSUMPTIONS = ["histories up to the first request that ends in an error exit (the command-line tool terminates there)",
               "no PIT randomisation (variable without x0/x1)"]
RULE = ("data.hist.exh: exhaustive request sequences up to length 2 (quick) / 3 (thorough) over a 14-request menu (single / "
        "multiple fields, axes all/no/leadtime/location/time, two inputs, with -obsrange and climatology variants) on "
        "partially missing datasets; data.hist.rand: random sequences up to length 30 with repeats; every earlier answer is "
        "re-read after every step, every request is repeated on a fresh Data, inputs are compared with their initial copies; "
        "data.hist.consumers: the same with twelve real score classes (deterministic, contingency, field and PIT scores) "
        "evaluated on the requested slice between the requests — the arrays the cache hands out must be treated as "
        "read-only by their consumers")
EXHAUSTIVE = {"quick": True, "thorough": True}
EXHAUSTIVE_NOTE = "all sequences of length <=2 (quick) / <=3 (thorough) over the 14-request menu per dataset"
LEVEL_TEXT = ("Lean theorem C18_history_independent: for every request history (any length, any order, any repetition) run "
              "through the heap model of both caches, each answer equals the pure model's answer for that request on a fresh "
              "dataset — by a state invariant (every cached reference points at the propagated array, possibly obsrange-masked; "
              "references are shared only between equal arrays; cached answers are pure answers) and induction over the "
              "history; failing requests fail on a fresh dataset too. Tied to the real caches by exhaustive short histories.")
TECHNIQUE = "Lean 4 proof: heap-model invariant + induction over request histories; exhaustive differential correspondence"


def menu(ds):
    n = len(ds.inputs) - (1 if ds.cfg.get("clim") else 0)
    j = 1 if n > 1 else 0
    return [(["obs", "fcst"], 0, "all", None), (["obs"], 0, "no", None), (["fcst"], 0, "no", None),
            (["obs", "fcst"], 0, "no", None), (["obs"], 0, "all", None), (["fcst"], j, "all", None),
            (["obs", "fcst"], j, "leadtime", 0), (["obs"], j, "location", 0), (["fcst", "obs"], j, "all", None),
            (["fcst"], 0, "time", 0), (["obs", "fcst"], j, "no", None), (["obs"], 0, "leadtime", 0),
            (["fcst", "obs"], 0, "location", 0), (["obs"], j, "all", None)]


def gen_ops(tier, rng):
    L = 2 if tier == "quick" else 3
    nds = 6 if tier == "quick" else 20
    made = 0
    while made < nds:
        ds = dg.gen_dataset(rng, n_inputs=rng.choice([2, 2, 3]), missing=rng.choice([0.1, 0.3]))
        if dg.oracle_dims(ds) is None:
            continue
        if rng.random() < 0.4:
            ds.cfg["obsrange"] = (0.0, 2.0)
        made += 1
        m = menu(ds)
        for n in range(1, L + 1):
            for seq in itertools.product(m, repeat=n):
                yield "data.hist.exh", dg.enc_op(ds, list(seq), head="datahist")
    for _ in range(60 if tier == "quick" else 1500):
        ds = dg.gen_dataset(rng, missing=rng.choice([0.1, 0.3]))
        dims = dg.oracle_dims(ds)
        if dims is None:
            continue
        if rng.random() < 0.3:
            ds.cfg["obsrange"] = (0.0, 2.0)
        pool = dg.all_requests(ds, dims, rng, 12)
        seq = [rng.choice(pool) for _ in range(rng.randint(2, 30))]
        yield "data.hist.rand", dg.enc_op(ds, seq, head="datahist")


    # the score classes as consumers of the cached arrays, between the requests
    for _ in range(120 if tier == "quick" else 3000):
        ds = dg.gen_dataset(rng, missing=rng.choice([0.0, 0.1, 0.3]))
        dims = dg.oracle_dims(ds)
        if dims is None:
            continue
        pool = [r for r in dg.all_requests(ds, dims, rng, 12) if r[2] != "all"]
        if not pool:
            continue
        seq = [rng.choice(pool) for _ in range(rng.randint(2, 5))]
        seq += seq[:2]                   # ask again for what was asked first, after the scores have run
        yield "data.hist.consumers", dg.enc_op(ds, seq, head="datahistc %d" % rng.randrange(10 ** 6))


def lean_op(op):
    if op.startswith("datahistc "):
        a = op.split(" ")
        return " ".join(["datahist"] + a[2:])
    return op


def impl(op):
    return dg.impl_hist(op)


def cmp(op, impl_out, model_out):
    return tokens_close(impl_out, model_out, 1e-9, 1e-12)


def judge(op, impl_out, spec_out):
    if impl_out.startswith("EXC:"):
        return ({"kind": "exception"}, "history raised %s" % impl_out)
    for flag, kind in (("MUTATED@", "retroactive-change"), ("HISTORY@", "history-dependence"), ("INPUTMUT", "input-modified")):
        if flag in impl_out:
            part = [p for p in impl_out.split(" | ") if p.startswith(flag)][0]
            return ({"kind": kind}, "%s: %s" % (kind, part[:300]))
    return None


def nontrivial(op, out):
    return c01.nontrivial(op, "H | " + out)
