"""C18 — query results are independent of query history and repeatable."""
import itertools
import datagen as dg
import props.c01 as c01
from common import tokens_close

ID = "C18"
TARGETS = ["Proofs.C18", "Proofs.C18T"]
GEN_PREFIXES = []
THEOREMS = {"Proofs.C18": ["VerifModel.C18." + t for t in [
    "maskObsRange_idem", "pureArr_alias", "inv_init", "getRef_spec", "getArr_spec", "colsS_spec", "climS_spec",
    "step_spec", "C18_history_independent", "C18_from_fresh", "C18_repeat", "C18_errors_pure"]],
    "Proofs.C18T": ["VerifModel.C18." + t for t in [
        "init_nScored_le", "C18_history_independent_loader", "C18_history_independent_plain", "initT_ok",
        "C18_history_independent_T", "C18_from_fresh_T", "tInput_coords"]]}
TRUSTED_BASE = c01.TRUSTED_BASE + [
    "Model/DataState.lean: heap model of the two caches (references = indices into a store, observation arrays shared "
    "by reference between inputs, -obsrange applied in place); that get_scores never returns a reference into the "
    "cache (flatten / fancy indexing / arithmetic / .copy() allocate) is checked by the datahist stream, which re-reads "
    "every earlier answer after each request",
    "Model/PreaggHist.lean: the loader with -T on as a pure input transformation (fields pre-aggregated on the input's own "
    "grid into new arrays, stored CDF / quantile columns dropped, requested ones derived from the pre-aggregated members); "
    "that Data.preaggregate and the aggregators are pure functions of their arguments (no write into the input's array, no "
    "state) is NOT a theorem — it is what data.histT.* checks on the real code (inputs' array objects guarded by "
    "common.Unchanged, fresh-Data replay, re-reading of earlier answers); float32 storage of the pre-aggregated arrays is "
    "not modelled (rel. tolerance 2e-6 on datahistT replies)",
    "determinism of NumPy on the same inputs; Pit.randomize (np.random, only with x0/x1 metadata) is outside the model",
]
ASSUMPTIONS = ["histories up to the first request that ends in an error exit (the command-line tool terminates there; a "
               "request that stops half way leaves the fields it got through in the cache without the cross-input "
               "missing-value step)",
               "no PIT randomisation (variable without x0/x1)",
               "-T histories: no aggregator raises (the model pre-aggregates every field up front, the code on first request; "
               "they differ only if an aggregator raises on a field that is never requested); -obs / -fcst FIELD not combined "
               "with -T in the histories",
               "-obs FIELD: the stored field it names is not also requested directly in the same history, and -fcst does "
               "not name the same field (the code's cache is keyed by the stored field; witness "
               "hist_obs_field_witness.py, MERGE_NOTES)"]
RULE = ("data.hist.exh: exhaustive request sequences up to length 2 (quick) / 3 (thorough) over a 17-request menu (single / "
        "multiple fields incl. the PIT, a stored CDF column and a stored quantile column — slices of the inputs' 4-D "
        "arrays —, axes all/no/leadtime/location/time, two inputs, with -obsrange and climatology variants) on "
        "partially missing datasets; data.hist.rand: random sequences up to length 30 with repeats over every field kind "
        "(a quarter with -obs / -fcst FIELD); every earlier answer is "
        "re-read after every step, every request is repeated on a fresh Data, the inputs' arrays (obs, fcst, pit, the three 4-D arrays, other scores) "
        "are compared with their initial copies; "
        "data.hist.consumers: the same with twelve real score classes (deterministic, contingency, field and PIT scores) "
        "evaluated on the requested slice between the requests — the arrays the cache hands out must be treated as "
        "read-only by their consumers; "
        "data.histT.exh: the same exhaustive sequences (length <=2 / <=3) over an 8-request menu with -T pre-aggregation on "
        "(dim_agg_length / _method / _axis: 8 aggregators, lead-time and time windows) on datasets where every input stores "
        "obs, PIT, a CDF column, a quantile column AND ensemble members: obs+fcst, a p@1 and a q@1/2 that the code now derives "
        "from the pre-aggregated members (ignoring the stored column), the PIT, a member; data.histT.rand: random sequences "
        "up to length 20 with -T over every field kind (incl. the error exit of an input without members); the inputs' array "
        "objects are guarded (common.Unchanged) in all history streams; cli.repeatT: a command WITH -T (five -T/-Tagg/-Tx "
        "variants) run twice in a row, then another command, then again — byte-identical csv")
EXHAUSTIVE = {"quick": True, "thorough": True}
EXHAUSTIVE_NOTE = ("all sequences of length <=2 (quick) / <=3 (thorough) over the 17-request menu per dataset, and over the "
                   "8-request menu with -T on")
LEVEL_TEXT = ("Lean theorem C18_history_independent: for every request history (any length, any order, any repetition) run "
              "through the heap model of both caches, each answer equals the pure model's answer for that request on a fresh "
              "dataset — by a state invariant (every cached reference points at the propagated array, possibly obsrange-masked; "
              "references are shared only between equal arrays; cached answers are pure answers) and induction over the "
              "history; failing requests fail on a fresh dataset too. Tied to the real caches by exhaustive short histories. "
              "The theorem holds for every dataset, hence for every pure loader (C18_history_independent_loader); instance "
              "C18_history_independent_T: the loader that pre-aggregates (-T on; CDF / quantile columns derived from the "
              "pre-aggregated members), tied to the real code by the datahistT streams (the Lean driver answers them).")
TECHNIQUE = "Lean 4 proof: heap-model invariant + induction over request histories; exhaustive differential correspondence"


def menu(ds):
    n = len(ds.inputs) - (1 if ds.cfg.get("clim") else 0)
    j = 1 if n > 1 else 0
    return [(["obs", "fcst"], 0, "all", None), (["obs"], 0, "no", None), (["fcst"], 0, "no", None),
            (["obs", "fcst"], 0, "no", None), (["obs"], 0, "all", None), (["fcst"], j, "all", None),
            (["obs", "fcst"], j, "leadtime", 0), (["obs"], j, "location", 0), (["fcst", "obs"], j, "all", None),
            (["fcst"], 0, "time", 0), (["obs", "fcst"], j, "no", None), (["obs"], 0, "leadtime", 0),
            (["fcst", "obs"], 0, "location", 0), (["obs"], j, "all", None),
            # the PIT, a stored CDF column and a stored quantile column: slices `[:, :, :, k]` of the inputs' 4-D arrays,
            # cut to the common indices and masked in place in the cache
            (["pit"], 0, "no", None), (["obs", "p@1"], j, "all", None), (["q@1/2", "fcst"], 0, "leadtime", 0)]


def gen_ops(tier, rng):
    L = 2 if tier == "quick" else 3
    nds = 6 if tier == "quick" else 12
    made = 0
    while made < nds:
        ds = dg.gen_dataset(rng, n_inputs=rng.choice([2, 2, 3]), missing=rng.choice([0.1, 0.3]), force=("obs", "pit", "p", "q"))
        if dg.oracle_dims(ds) is None or any(dg.outside_domain(ds, n) for n in ("p@1", "q@1/2")):
            continue
        if rng.random() < 0.4:
            ds.cfg["obsrange"] = (0.0, 2.0)
        made += 1
        m = menu(ds)
        for n in range(1, L + 1):
            for seq in itertools.product(m, repeat=n):
                yield "data.hist.exh", dg.enc_op(ds, list(seq), head="datahist")
    for _ in range(60 if tier == "quick" else 1500):
        ds = dg.gen_dataset(rng, missing=rng.choice([0.1, 0.3]))
        dims = dg.oracle_dims(ds)
        if dims is None:
            continue
        if rng.random() < 0.3:
            ds.cfg["obsrange"] = (0.0, 2.0)
        if rng.random() < 0.25:
            ds = dg.add_field_options(ds, rng)      # -obs FIELD / -fcst FIELD
        pool = dg.all_requests(ds, dims, rng, 12)
        seq = [rng.choice(pool) for _ in range(rng.randint(2, 30))]
        yield "data.hist.rand", dg.enc_op(ds, seq, head="datahist")


    # the score classes as consumers of the cached arrays, between the requests
    for _ in range(120 if tier == "quick" else 3000):
        ds = dg.gen_dataset(rng, missing=rng.choice([0.0, 0.1, 0.3]))
        dims = dg.oracle_dims(ds)
        if dims is None:
            continue
        pool = [r for r in dg.all_requests(ds, dims, rng, 12) if r[2] != "all"]
        if not pool:
            continue
        seq = [rng.choice(pool) for _ in range(rng.randint(2, 5))]
        seq += seq[:2]                   # ask again for what was asked first, after the scores have run
        yield "data.hist.consumers", dg.enc_op(ds, seq, head="datahistc %d" % rng.randrange(10 ** 6))


def lean_op(op):
    if op.startswith("datahistc "):
        a = op.split(" ")
        return " ".join(["datahist"] + a[2:])
    return op


def impl(op):
    return dg.impl_hist(op)


def cmp(op, impl_out, model_out):
    return tokens_close(impl_out, model_out, 1e-9, 1e-12)


def judge(op, impl_out, spec_out):
    if impl_out.startswith("EXC:"):
        return ({"kind": "exception"}, "history raised %s" % impl_out)
    for flag, kind in (("MUTATED@", "retroactive-change"), ("HISTORY@", "history-dependence"), ("INPUTMUT", "input-modified")):
        if flag in impl_out:
            part = [p for p in impl_out.split(" | ") if p.startswith(flag)][0]
            return ({"kind": kind}, "%s: %s" % (kind, part[:300]))
    return None


def nontrivial(op, out):
    return c01.nontrivial(op, "H | " + out)


# ------------------------------------------------------------------ the same command again (cli.repeat)
# "… and repeating the same command on the same files yields identical output": command A, then a related command B
# (A with another aggregator / bin type / threshold / -T / axis / legend …), then A again, all in ONE process through the
# real verif.driver.run; the csv text of the first and the third run must be byte-identical (every 4th op also runs A
# twice in a row first).  State that survives
# a command — a module-level cache of metric objects (seeded change C18g), an unseeded random generator (repaired:
# dc3c38f), a class attribute used as a default — shows up here.  The model's answer is the constant "same"
# (C18_history_independent is the theorem about the Data object; the command line on top of it holds no state in the
# model because there is none to hold).
_REP_A = [("det", ["-m", "mae"]), ("det", ["-m", "obs"]), ("det", ["-m", "fcst"]), ("det", ["-m", "bias"]),
          ("det", ["-m", "rmse", "-x", "location"]), ("det", ["-m", "corr"]), ("det", ["-m", "ets", "-r", "1"]),
          ("det", ["-m", "within", "-r", "0,2"]), ("prob", ["-m", "pit"]), ("prob", ["-m", "pithistdev"]),
          ("prob", ["-m", "bs", "-r", "1"]), ("prob", ["-m", "quantilescore", "-q", "0.5"]), ("det", ["-m", "mae", "-x", "time"]),
          ("ens", ["-m", "bs", "-r", "1"]), ("det", ["-m", "obsfcst"])]
_REP_B = [["-agg", "max"], ["-agg", "0.9"], ["-agg", "count"], ["-b", "above="], ["-T", "2"], ["-x", "month"],
          ["-leg", "P,Q,R"], ["-obsrange", "0,3"], ["-acc"], ["-x", "leadtime", "-agg", "median"], ["-lx", "1"],
          ["-Tagg", "max", "-T", "3"], ["-C", "CLIM"], ["-c", "CLIM"]]


def _rep_ops(tier, rng):
    k = 0
    for i, (kind, a) in enumerate(_REP_A):
        bs = _REP_B if tier != "quick" else rng.sample(_REP_B, 4)
        for b in bs:
            n = (k % 3) + 1
            yield "cli.repeat", "clirep %s%dreg %s %s %d" % (kind, n, ",".join(a).replace(",-", ";-"), ",".join(b).replace(",-", ";-"), 1 if k % 4 == 0 else 0)
            k += 1


def _rep_argv(ds, spec):
    from props import c19run as R
    files, _ = R.files_of(ds)
    args = []
    for part in spec.split(";"):
        toks = part.split(",", 1)
        args.append(toks[0])
        if len(toks) > 1:
            v = toks[1]
            if v == "CLIM":
                v = files[-1]              # the last input file of the run doubles as the climatology
            args.append(v)
    return files, args


def _rep_run(argv):
    import contextlib
    import io
    import warnings
    import matplotlib
    matplotlib.use("Agg")
    import verif.driver
    buf = io.StringIO()
    with warnings.catch_warnings():
        warnings.simplefilter("ignore")
        try:
            with contextlib.redirect_stdout(buf), contextlib.redirect_stderr(io.StringIO()):
                verif.driver.run(list(argv))
            st = "ok"
        except SystemExit as e:
            st = "exit%s" % (0 if e.code in (0, None) else 1)
        except Exception as e:          # a crash is C19's subject; here it only has to be the same crash
            st = "exc:" + type(e).__name__
    return st + "\n" + buf.getvalue()


def _rep_impl(a):
    ds, fresh = a[1], a[4] == "1"
    files, A = _rep_argv(ds, a[2])
    _, B = _rep_argv(ds, a[3])
    cmdA = ["verif"] + files + A + ["-type", "csv"]
    cmdB = ["verif"] + files + A + B + ["-type", "csv"]
    first = _rep_run(cmdA)
    if fresh:
        again = _rep_run(cmdA)          # the same command twice in a row
        if again != first:
            return "diff-immediately[%s]" % again[:60].replace(" ", "_").replace("\n", "/")
    _rep_run(cmdB)
    third = _rep_run(cmdA)
    if first != third:
        fl, tl = first.split("\n"), third.split("\n")
        j = next((i for i in range(min(len(fl), len(tl))) if fl[i] != tl[i]), min(len(fl), len(tl)))
        return "diff@line%d[%s|%s]" % (j, (fl[j] if j < len(fl) else "<end>")[:60].replace(" ", "_"),
                                       (tl[j] if j < len(tl) else "<end>")[:60].replace(" ", "_"))
    return "same"


# ------------------------------------------------------------------ histories with -T pre-aggregation on
# Data(dim_agg_length / dim_agg_method / dim_agg_axis): every array the loader reads goes through Data.preaggregate
# (a new array instead of the input's own), CDF / quantile columns are derived from the pre-aggregated ensemble even
# when the input stores the column (data.py 474-475, 512-514, 536-543, 573).  Same protocol as datahist (head
# `datahistT`, cfg key T=h:agg:axis); the model is the heap model run on the dataset whose loader pre-aggregates
# (Model/PreaggHist.lean, theorem C18_history_independent_T).
_T_AGGS = ["mean", "sum", "min", "max", "median", "range", "count", "iqr"]


def _t_cfg(ds, rng):
    axis = rng.choice(["leadtime", "time"])
    h = rng.choice([7.0, 12.0, 24.0, 30.0]) if axis == "leadtime" else rng.choice([1.0, 2.0, 12.0, 24.0, 36.0])
    ds.cfg["T"] = (h, rng.choice(_T_AGGS), axis)
    return ds


def menu_T(ds):
    n = len(ds.inputs) - (1 if ds.cfg.get("clim") else 0)
    j = 1 if n > 1 else 0
    return [(["obs", "fcst"], 0, "all", None), (["obs", "fcst"], j, "leadtime", 0),
            (["obs", "p@1"], j, "all", None),            # CDF column from the pre-aggregated members (stored column ignored)
            (["q@1/2", "fcst"], 0, "leadtime", 0),       # quantile of the pre-aggregated members
            (["pit"], 0, "no", None), (["fcst"], j, "all", None), (["p@1"], 0, "no", None),
            (["e@0", "obs"], 0, "time", 0)]


def _t_ops(tier, rng):
    L = 2 if tier == "quick" else 3
    nds = 4 if tier == "quick" else 8
    made = 0
    while made < nds:
        ds = dg.gen_dataset(rng, n_inputs=rng.choice([2, 2, 3]), missing=rng.choice([0.1, 0.3]),
                            force=("obs", "pit", "p", "q", "e"))
        if dg.oracle_dims(ds) is None:
            continue
        if rng.random() < 0.4:
            ds.cfg["obsrange"] = (0.0, 2.0)
        _t_cfg(ds, rng)
        made += 1
        m = menu_T(ds)
        for n in range(1, L + 1):
            for seq in itertools.product(m, repeat=n):
                yield "data.histT.exh", dg.enc_op(ds, list(seq), head="datahistT")
    for _ in range(40 if tier == "quick" else 1000):
        ds = dg.gen_dataset(rng, missing=rng.choice([0.1, 0.3]))
        dims = dg.oracle_dims(ds)
        if dims is None:
            continue
        if rng.random() < 0.3:
            ds.cfg["obsrange"] = (0.0, 2.0)
        _t_cfg(ds, rng)
        pool = dg.all_requests(ds, dims, rng, 12)
        seq = [rng.choice(pool) for _ in range(rng.randint(2, 20))]
        yield "data.histT.rand", dg.enc_op(ds, seq, head="datahistT")
    # the same -T command twice (and again after another command), through the real command line
    for k, (kind, a) in enumerate(_REP_A):
        t = rng.choice([["-T", "2"], ["-T", "3", "-Tagg", "max"], ["-T", "2", "-Tagg", "median"], ["-T", "12", "-Tagg", "sum"],
                        ["-T", "2", "-Tx", "time", "-Tagg", "min"]])
        b = rng.choice(_REP_B)
        yield "cli.repeatT", "clirep %s%dreg %s %s 1" % (kind, (k % 3) + 1, ",".join(a + t).replace(",-", ";-"),
                                                       ",".join(b).replace(",-", ";-"))


_gen_ops_c18, _impl_c18, _judge_c18 = gen_ops, impl, judge
_lean_op_c18 = globals().get("lean_op", lambda o: o)
_cmp_c18 = globals().get("cmp", lambda op, x, y: x == y)
_nontrivial_c18 = globals().get("nontrivial", lambda op, out: True)


def gen_ops(tier, rng):
    for s in _gen_ops_c18(tier, rng):
        yield s
    for s in _rep_ops(tier, rng):
        yield s
    for s in _t_ops(tier, rng):
        yield s


def impl(op):
    return _rep_impl(op.split(" ")) if op.startswith("clirep ") else _impl_c18(op)


def lean_op(op):
    return "datani - - -" if op.startswith("clirep ") else _lean_op_c18(op)


def cmp(op, impl_out, model_out):
    if op.startswith("datahistT "):
        return tokens_close(impl_out, model_out, 2e-6, 2e-6)       # -T: the new arrays are stored as float32
    return impl_out == model_out if op.startswith("clirep ") else _cmp_c18(op, impl_out, model_out)


def judge(op, impl_out, spec_out):
    if op.startswith("clirep "):
        if impl_out != "same":
            a = op.split(" ")
            return ({"kind": "repeat"}, "verif <%s files> %s -type csv prints something else after the command with %s was run in the "
                    "same process: %s" % (a[1], a[2].replace(";", " ").replace(",", " "), a[3].replace(";", " ").replace(",", " "), impl_out))
        return None
    return _judge_c18(op, impl_out, spec_out)


def nontrivial(op, out):
    return True if op.startswith("clirep ") else _nontrivial_c18(op, out)
