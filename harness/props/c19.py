"""C19 — documented metric / axis / output-type combinations never crash."""
import collections
import os
import random
import re

from props import c19run as R

ID = "C19"
TARGETS = ["Proofs.C19"]
GEN_PREFIXES = ["dispatch."]
THEOREMS = {
    "Proofs.C19": ["VerifModel.C19." + t for t in [
        "C19_dispatch_total", "C19_never_unhandled", "C19_known_names", "C19_stub_is_error",
        "C19_threshold_axis_has_thresholds_partial", "C19_require_type_recognised_partial",
        "C19_documented_arguments_accepted", "C19_dispatch_total_T", "C19_T_documented_accepted",
        "C19_T_rejected", "C19_clim_irrelevant", "C19_within_refused"]],
}
TRUSTED_BASE = [
    "Lean 4.33 kernel; axioms propext, Classical.choice, Quot.sound only",
    "Spec/Dispatch.lean: the documented names (70 metrics, 28 diagrams, 19 -x dimensions, 8 -type values, 8 bin "
    "types, 14 aggregators) as printed by `verif --help`",
    "harness/translate.py gen_dispatch: class attributes, overridden methods, base-class stubs, the driver's name -> "
    "class chain and -type dispatch read with `ast` from the working tree (validated each run: the model's class, "
    "method, axis, threshold source and bin type are compared with what the real driver set up, for every command)",
    "Model/Dispatch.lean: hand-written mirror of driver.py:411-572/680-697 (axis resets, threshold and quantile "
    "defaults, -type dispatch), tied by the same correspondence",
    "everything after the dispatch (scores, NumPy, SciPy, matplotlib) is NOT modelled: whether a `run` ends normally, "
    "in an error message or in an exception is observed on the real tool only (stream cli.*); the property is "
    "decided there by exit status / exception type",
]
ASSUMPTIONS = [
    "well-formed text inputs (generated: deterministic, probabilistic with p/q/pit columns, probabilistic without "
    "quantile columns, 5-member ensemble; regular, single time, single location, one all-missing lead time; 1-3 files)",
    "-hist/-sort and plot-appearance options are outside the quantifier of C19 (C13/C17)",
    "number of -q values in {0,1,2,3} in the Lean theorem (the driver only compares it with min/max_num_thresholds <= 2)",
]
RULE = ("cli.cross: (70 metrics + 28 diagrams) x (19 -x dimensions + default) x 8 -type values, each command line run "
        "in-process by the real verif.driver.run on generated datasets (thorough: the full product, twice, on rotating "
        "datasets; quick: every name with every -x dimension twice — as it stands and with -r / -q values —, the -type dealt round-robin, plus a stratified sample; thorough: second round of the full product with -r / -q); cli.variants: "
        "-r (1 / several / too few values), -q (stored, not stored, 1-3 values), all 8 -b types, all aggregators and a "
        "numeric -agg, climatology without the requested field; an op is non-trivial if the tool produced its output")
EXHAUSTIVE = {"quick": False, "thorough": True}
EXHAUSTIVE_NOTE = ("thorough: every (name, -x, -type) combination of the documented tables is executed on the real "
                   "tool (2 datasets each); the Lean theorem covers the same table x {-r} x {0..3 quantiles} x bin "
                   "types x aggregators by kernel evaluation")
LEVEL_TEXT = ("Lean theorems over the class tables regenerated from /repo on every run: for every documented name x "
              "-x dimension x -type x bin type x aggregator x {with/without -r} x {0..3 -q values} the driver's "
              "dispatch either stops with an explicit error or runs a method the selected class really overrides, on "
              "an axis the class and metric support, with thresholds/quantiles present when required; every documented "
              "name resolves to a class; every base-class default is a verif.util.error call. What happens inside the "
              "run is observed on the real tool: partial by nature.")
TECHNIQUE = ("Lean 4 proof (kernel evaluation over the finite documented table, tables regenerated from source by an "
             "ast translator) + exhaustive in-process execution of the real command line as correspondence and oracle")

METRICS = ["a", "alphaindex", "b", "baserate", "bias", "biasfreq", "bs", "bsrel", "bsres", "bsunc", "bss", "bssrel",
           "bssres", "c", "cmae", "corr", "d", "derror", "diff", "dmb", "dscore", "edi", "eds", "ef", "ets", "fa",
           "far", "fcst", "fcstrate", "fcststddev", "hit", "hss", "ign0", "kendallcorr", "kge", "kss", "leps", "lor",
           "mae", "marginalratio", "mbias", "miss", "n", "nnsec", "nsec", "obs", "obsstddev", "or", "pc", "pit",
           "pithistdev", "pithistshape", "pithistslope", "quantile", "quantilecoverage", "quantilescore", "rankcorr",
           "ratio", "rmse", "rmsf", "sedi", "seds", "spherical", "spread", "spreadskillratio", "stderror", "threat",
           "threshold", "within", "yulesq"]
DIAGRAMS = ["against", "autocorr", "autocov", "bsdecomp", "change", "cond", "droc", "droc0", "discrimination",
            "economicvalue", "error", "freq", "fss", "igncontrib", "invreliability", "marginal", "meteo", "murphy",
            "obsfcst", "performance", "pithist", "qq", "reliability", "roc", "scatter", "spreadskill", "taylor",
            "timeseries"]
NAMES = METRICS + DIAGRAMS
AXES = ["time", "leadtime", "year", "month", "week", "day", "timeofday", "dayofyear", "monthofyear", "location",
        "elev", "lat", "lon", "threshold", "leadtimeday", "no", "obs", "fcst", "dayofmonth"]
TYPES = R.TYPES
BINS = ["below", "below=", "=within", "within", "within=", "=within=", "above", "above="]
AGGS = ["abschange", "absmean", "change", "count", "iqr", "max", "mean", "meanabs", "median", "min", "range", "std",
        "sum", "variance"]
PROB = {"bs", "bsrel", "bsres", "bsunc", "bss", "bssrel", "bssres", "ign0", "spherical", "marginalratio", "pit",
        "pithistdev", "pithistshape", "pithistslope", "quantile", "quantilecoverage", "quantilescore", "spread",
        "spreadskillratio", "threshold", "bsdecomp", "discrimination", "economicvalue", "igncontrib",
        "invreliability", "marginal", "meteo", "murphy", "pithist", "reliability", "roc", "spreadskill"}
QUANT = {"quantile", "quantilecoverage", "quantilescore", "spread", "spreadskillratio", "invreliability", "meteo",
         "spreadskill"}

_CACHE = {}


# ------------------------------------------------------------------ generation
NEW_SHAPES = ["onelead", "allmiss", "fcmiss", "disjoint", "nooverlap", "x0", "nc"]
TAGGS = AGGS + ["0.5"]


def _ds(rng, name, k=None):
    """a dataset token suitable (mostly) for the metric; k cycles the number of input files; 30 % get one of the
    shapes onelead / allmiss / fcmiss / disjoint / nooverlap / x0 / nc, 20 % a mixed kind (det + prob files, ensembles
    of different sizes, different stored thresholds / quantile levels)"""
    if name in PROB:
        kind = rng.choice(["prob"] * 6 + ["ens"] * 3 + ["probnoq", "det"])
    else:
        kind = rng.choice(["det"] * 5 + ["prob", "ens"])
    n = (k % 3) + 1 if k is not None else rng.choice([1, 2, 2, 3])
    shape = rng.choice(["reg"] * 5 + ["onetime", "oneloc", "miss", "miss"])
    r2 = random.Random(rng.random())
    if r2.random() < 0.3:
        shape = r2.choice(NEW_SHAPES)
    if r2.random() < 0.2:
        kind = r2.choice(["mixdp", "mixens", "mixpq"])
        n = max(n, 2)
    return "%s%d%s" % (kind, n, shape)


def _op(ds, name, axis="-", typ="plot", b="-", r="-", q="-", agg="-", clim="-", T="-"):
    op = "cli %s %s %s %s %s %s %s %s" % (ds, name, axis, typ, b, r, q, agg)
    if clim != "-":
        op += " c=" + clim
    if T != "-":
        op += " T=" + T
    return op


class _Decks(object):
    """shuffled decks dealt round-robin: every -type, bin type and aggregator meets every name several times"""

    def __init__(self, rng):
        self.rng = rng
        self.d = {}

    def deal(self, key, items):
        if not self.d.get(key):
            self.d[key] = list(items)
            self.rng.shuffle(self.d[key])
        return self.d[key].pop()


def _extras(rng, decks, name):
    """-b / -agg dealt round-robin; -c <climatology> on 5 % and -T 2 (with -Tagg / -Tx) on 5 % of the ops"""
    kw = {}
    if rng.random() < 0.5:
        kw["b"] = decks.deal("b", BINS)
    if rng.random() < 0.5:
        kw["agg"] = decks.deal("agg", AGGS + ["0.5"])
    if rng.random() < 0.05:
        kw["clim"] = rng.choice(["det", "det", "prob", "ens"])
    if rng.random() < 0.05:
        kw["T"] = "%s:%s:%s" % (rng.choice(["2", "2", "12", "40"]), decks.deal("tagg", TAGGS + ["-"]),
                                rng.choice(["leadtime", "time", "-", "-"]))
    return kw


def _variants(rng, names, full):
    out = []
    for name in names:
        pick = (lambda xs, k: xs) if full else (lambda xs, k: rng.sample(xs, min(k, len(xs))))
        # -r: one value, several, fewer than two bin edges / a value above the data
        for r in pick(["1", "0,2,5", "9"], 1):
            for ax in pick(["-", "threshold", "leadtime", "no", "obs"], 1):
                for t in pick(["plot", "csv"], 1):
                    out.append(_op(_ds(rng, name), name, ax, t, r=r))
        # -q: stored level, two levels, three, a level no file stores
        for q in pick(["0.5", "0.1,0.9", "0.1,0.5,0.9", "0.3"], 1):
            for ax in pick(["-", "threshold"], 1):
                for t in pick(["plot", "text"], 1):
                    out.append(_op(_ds(rng, name), name, ax, t, q=q))
        # -b: every bin type, with thresholds / quantiles / nothing
        for b in pick(BINS, 1):
            ds = _ds(rng, name)
            if name in QUANT:
                out.append(_op(ds, name, "-", rng.choice(["plot", "csv"]), b=b, q="0.1,0.9"))
            else:
                out.append(_op(ds, name, "-", rng.choice(["plot", "csv"]), b=b, r="0,2,5"))
            if full:
                out.append(_op(ds, name, "-", "csv", b=b))
        # -agg
        for a in pick(AGGS + ["0.5"], 1):
            out.append(_op(_ds(rng, name), name, rng.choice(["-", "location", "no"]), "csv", agg=a))
        # -r together with -type rank/impact/map…
        for t in pick(["rank", "impact", "mapimpact", "map", "maprank", "text"], 1):
            out.append(_op(_ds(rng, name), name, rng.choice(["-", "threshold", "location"]), t, r="0,2,5"))
        # -T: accepted and refused values (0, negative, not an integer), -Tagg unknown, -Tx not time / leadtime
        for T in pick(["2:-:-", "3:sum:time", "1:0.5:leadtime", "0:-:-", "-1:mean:-", "x:-:-", "2.5:-:-", "2:foo:-",
                       "2:-:location", "2:-:foo", "40:change:time"], 1):
            out.append(_op(_ds(rng, name), name, rng.choice(["-", "leadtime", "time"]), rng.choice(["plot", "csv"]), T=T))
        # -c with every kind of climatology file, also together with -T
        for ck in pick(["det", "prob", "ens", "probnoq"], 1):
            out.append(_op(_ds(rng, name), name, rng.choice(["-", "location", "threshold"]), rng.choice(["plot", "csv", "map"]),
                           r=rng.choice(["-", "0,2,5"]), clim=ck, T=rng.choice(["-", "-", "2:-:-"])))
        # climatology that lacks the probabilistic fields
        if name in PROB and (full or rng.random() < 0.2):
            out.append(_op("prob%dreg/cdet" % rng.choice([1, 2]), name, "-", "csv"))
            out.append(_op("prob2reg/cprob", name, "-", "plot"))
    return out


def _cross_full(rng, rounds):
    out = []
    k = rng.randrange(3)
    r2 = random.Random(rng.random())
    d2 = _Decks(r2)
    for _ in range(rounds):
        for name in NAMES:
            for ax in ["-"] + AXES:
                for t in TYPES:
                    kw = _extras(r2, d2, name)
                    if _ % 2 == 0:
                        out.append(_op(_ds(rng, name, k), name, ax, t, **kw))
                    elif _requirement(name) == "quantile" or name in QUANT:
                        out.append(_op(_ds(rng, name, k), name, ax, t, q=rng.choice(["0.5", "0.1,0.9"]), **kw))
                    else:
                        out.append(_op(_ds(rng, name, k), name, ax, t, r=rng.choice(["1", "5", "0,2,5"]), **kw))
                    k += 1
        k += 1
    return out


def _cross_sample(rng, per_name=5):
    """stratified: every name per_name times, axes and types dealt round-robin from shuffled decks"""
    out = []
    axes = ["-"] + AXES
    da, dt = [], []
    for name in NAMES:
        for _ in range(per_name):
            if not da:
                da = axes[:]
                rng.shuffle(da)
            if not dt:
                dt = TYPES[:]
                rng.shuffle(dt)
            out.append(_op(_ds(rng, name), name, da.pop(), dt.pop()))
    return out


_REQ = {}


def _requirement(name):
    """what the class behind a documented name requires on the command line (read from the real classes):
    'threshold' (-r), 'quantile' (-q) or None — without it the tool stops with its error message before it gets
    anywhere near the -x dimension, so the cross product gives such names what they need"""
    if name not in _REQ:
        import verif.metric
        import verif.output
        req = None
        try:
            m = verif.metric.get(name)
        except (SystemExit, Exception):
            m = None
        if m is None:
            try:
                m = verif.output.get(name)
            except (SystemExit, Exception):
                m = None
        rt = getattr(m, "require_threshold_type", None)
        if rt is not None:
            req = "quantile" if "quantile" in str(rt) else "threshold"
        _REQ[name] = req
    return _REQ[name]


def _cross_pairs(rng):
    """every name with every -x dimension once (that pair selects the code path of a score or diagram), the -type,
    the bin type and the aggregator dealt round-robin from shuffled decks so that every value meets every name
    several times; -c on 5 %, -T on 5 % of the ops"""
    out = []
    decks = _Decks(rng)
    r2 = random.Random(rng.random())        # the additions draw from their own stream
    d2 = _Decks(r2)
    for name in NAMES:
        for ax in ["-"] + AXES:
            # once as it stands, once with the thresholds / quantile levels many classes ask for (declared through
            # require_threshold_type or only tested inside the plotting method: reliability, fss, droc, …)
            out.append(_op(_ds(rng, name), name, ax, decks.deal("t", TYPES), **_extras(r2, d2, name)))
            if _requirement(name) == "quantile" or name in QUANT:
                out.append(_op(_ds(rng, name), name, ax, decks.deal("t", TYPES), q=rng.choice(["0.5", "0.1,0.9"]),
                               **_extras(r2, d2, name)))
            elif name in DIAGRAMS:
                # diagrams differ in how many thresholds they accept (exactly one, at least two): give both, with the
                # output types a diagram has (the others end in the driver's error message whatever the -x is)
                decks.deal("t", TYPES)
                out.append(_op(_ds(rng, name), name, ax, rng.choice(["plot", "text", "csv"]), r=rng.choice(["1", "5"]),
                               **_extras(r2, d2, name)))
                out.append(_op(_ds(rng, name), name, ax, rng.choice(["plot", "text", "csv"]), r="0,2,5",
                               **_extras(r2, d2, name)))
                out.append(_op(_ds(rng, name), name, ax, rng.choice(["plot", "text", "csv"]), q="0.1,0.9",
                               **_extras(r2, d2, name)))
            else:
                out.append(_op(_ds(rng, name), name, ax, decks.deal("t", TYPES), r=rng.choice(["1", "5", "0,2,5"]),
                               **_extras(r2, d2, name)))
    return out


def _plan(tier, rng):
    if tier == "thorough":
        cross = _cross_full(rng, 2)
        var = _variants(rng, NAMES, True)
    else:
        cross = _cross_pairs(rng) + _cross_sample(rng, 2)
        var = _variants(rng, NAMES, False)
    return cross, var


def gen_ops(tier, rng):
    cross, var = _plan(tier, rng)
    _CACHE.update(R.run_many(cross + var))
    for op in cross:
        yield "cli.cross", op
    for op in var:
        yield "cli.variants", op


def theorem_counterexamples(limit=8):
    """combinations for which the predicate of C19_dispatch_total is false on the regenerated tables
    (evaluated by the compiled Lean driver): the command lines that break the theorem"""
    import common
    lines, ops = [], []
    for n in NAMES:
        for ax in ["-"] + AXES:
            for t in TYPES:
                for r in ("0", "1"):
                    for q in ("0", "1", "2", "3"):
                        lines.append("dispatchcheck %s %s %s %s %s" % (n, ax, t, r, q))
                        ops.append((n, ax, t, r, q))
    try:
        out = common.run_driver(lines) or []
    except Exception:
        return []
    bad = []
    for (n, ax, t, r, q), reply in zip(ops, out):
        if reply.startswith("bad"):
            qv = {"0": "-", "1": "0.5", "2": "0.1,0.9", "3": "0.1,0.5,0.9"}[q]
            ds = "%s2reg" % ("prob" if n in PROB else "det")
            bad.append((_op(ds, n, ax, t, r=("0,2,5" if r == "1" else "-"), q=qv), reply))
    # spread over names / types rather than the first few of one name
    seen, picked = set(), []
    for op, reply in bad:
        key = (op.split()[2], op.split()[4])
        if key not in seen:
            seen.add(key)
            picked.append((op, reply))
    return picked[:limit], len(bad)


def search_ops(rng):
    """failing-input search after a broken obligation / mismatch: first the command lines on which the
    Lean predicate of C19_dispatch_total is false, then a fresh stratified sample with variants"""
    first = []
    try:
        picked, nbad = theorem_counterexamples()
        if nbad:
            print("C19_dispatch_total is false on %d combinations of the documented table, e.g." % nbad)
            for op, reply in picked:
                print("  %s   -> %s" % (R.display(op), reply))
                first.append(op)
    except Exception as e:      # the driver may be absent when the model itself no longer compiles
        print("(no theorem counterexamples: %s)" % e)
    r2 = random.Random(rng.random())
    cross = _cross_sample(r2, 8)
    var = _variants(r2, NAMES, False)
    # the combinations that a base-class stub or a dropped capability flag would affect first
    extra = [_op("det2reg", n, "-", t) for n in DIAGRAMS for t in TYPES if t != "plot"]
    extra += [_op("prob2reg", n, "threshold", "csv") for n in METRICS]
    ops = first + extra + cross + var
    _CACHE.update(R.run_many(ops))
    for op in ops:
        yield "cli.search", op


# ------------------------------------------------------------------ implementation side
def impl(op):
    if op not in _CACHE:
        _CACHE[op] = R.run_op(op)
    out = _CACHE[op]
    if out.startswith("HARNESS-ERROR"):
        raise RuntimeError(out)
    return out


def lean_op(op):
    c = R.parse_op(op)
    nq = 0 if c["q"] == "-" else len(c["q"].split(","))
    line = "dispatch %s %s %s %s %d %d %s" % (c["name"], c["axis"], c["type"], c["bin"],
                                             0 if c["r"] == "-" else 1, nq, c["agg"])
    if c["T"] != "-" or c["clim"] != "-":
        h, tagg, tx = c["T"].split(":") if c["T"] != "-" else ("-", "-", "-")
        line += " %s %s %s %s" % (h, tagg, tx, "1" if c["clim"] != "-" or "/c" in c["ds"] else "0")
    return line


def _parse_impl(s):
    a = s.split()
    d = {"status": a[0]}
    for t in a[1:]:
        if "=" in t:
            k, v = t.split("=", 1)
            d[k] = v
    return d


ENTRY_CORE = {"plot": "_plot_core", "text": "_get_x_y", "csv": "_get_x_y", "map": "_map_core",
              "plot_rank": "_plot_rank_core", "plot_impact": "_plot_impact_core",
              "plot_mapimpact": "_plot_mapimpact_core"}


def _no_dataset(op):
    """does the dataset of the op have no case in common (Data.__init__ must stop with its message)?"""
    c = R.parse_op(op)
    kind, n, shape, clim = R.parse_ds(c["ds"])
    return shape == "nooverlap" and (n >= 2 or clim is not None or c["clim"] != "-")


def cmp(op, impl_out, model_out):
    """the model decides error-vs-run, class, method, axis, threshold source and bin type from the command line;
    what happens inside a run (ok / data-dependent error message / exception) is the implementation's business"""
    i = _parse_impl(impl_out)
    st = i["status"]
    m = model_out.split()
    if _no_dataset(op):
        # the files have nothing in common: Data.__init__ must stop with its message — unless the argument loop, which
        # runs before the files are opened, already refused the command line (-x / -T / -Tagg / -Tx values)
        if m[0] == "ERR" and m[1] in ("unknownAxis", "badT", "nonPositiveT", "unknownAgg"):
            return st == "exit1:driver" or (st == "exit1:run" and "cls" not in i)
        return st == "exit1:data" and "cls" not in i
    if st == "exit1:data":
        return False           # every other dataset has common cases
    if st.startswith("exc:"):
        # the judge reports it; the set-up the driver reached must still be the predicted one
        if "cls" in i and m[0] in ("run",) and len(m) >= 5:
            return (i["cls"], i["axis"]) == (m[1], m[3])
        return True
    if m[0] == "UNHANDLED":
        return False
    tx = (R.parse_op(op).get("T") or "-").split(":")
    tx = tx[2] if len(tx) > 2 else "-"
    if tx not in ("-", "time", "leadtime") and tx in AXES and not (m[0] == "ERR" and not m[1].startswith(("stub:", "inrun:"))):
        # `-Tx <known axis other than time / leadtime>` passes the argument loop (Model/Dispatch.lean, tCheck) and is
        # refused by Data.preaggregate with its error message as soon as the FIRST array is loaded — which can be
        # earlier than the stop the dispatch model predicts (e.g. the default thresholds of `-m freq` are computed
        # before "This output does not provide text output"); the run must end in an error message either way
        if st.startswith("exit1:") and not st.startswith("exit1-nomessage") and "cls" not in i:
            return True
    if m[0] == "ERR" and m[1].startswith("inrun:"):
        # an error guard at the start of the selected method: the output object was set up as predicted and the run
        # ended in an error message
        if len(m) < 7 or "cls" not in i:
            return "cls" not in i and st in ("exit1:driver", "exit1:run") and m[5] in ("data", "qdata", "detdefault")
        cls, method, axis, src, b = m[2], m[3], m[4], m[5], m[6][4:]
        return st == "exit1:run" and (i["cls"], i["axis"], i["thr"], i.get("bin")) == (cls, axis, src, b) and \
            method in (i["entry"], ENTRY_CORE.get(i["entry"]))
    if m[0] == "ERR" and m[1].startswith("stub:"):
        if len(m) < 6:
            return False
        core, cls, axis, src, b = m[1][5:], m[2], m[3], m[4], m[5][4:]
        if st == "exit1:stub:" + core:
            return (i.get("cls"), i.get("axis"), i.get("thr"), i.get("bin")) == (cls, axis, src, b)
        # stopped earlier for a reason that depends on the files (no thresholds / quantile count)
        return "cls" not in i and st == "exit1:driver" and src in ("data", "qdata")
    if m[0] == "ERR":
        return st.startswith("exit1:") and not st.startswith("exit1:stub") and "cls" not in i
    if m[0] == "run" and len(m) >= 6:
        cls, method, axis, src, b = m[1], m[2], m[3], m[4], m[5][4:]
        if "cls" not in i:
            # the driver stopped before the output object was used: only for file-dependent reasons
            return (st == "exit1:driver" and src in ("data", "qdata")) or \
                   (st == "exit1:run" and src in ("detdefault", "data", "qdata"))
        if (i["cls"], i["axis"], i["thr"], i.get("bin")) != (cls, axis, src, b):
            return False
        if method not in (i["entry"], ENTRY_CORE.get(i["entry"])):
            return False
        return st == "ok" or st == "exit1:run"
    return False


def site_of(status):
    """exc:<Type>@<file>:<function>:<line>^<pkg> -> (Type, file:function, pkg)"""
    mm = re.match(r"exc:([^@]+)@(.*):(\d+)\^(.*)$", status)
    if not mm:
        return status, "?", "?"
    return mm.group(1), mm.group(2), mm.group(4)


def judge(op, impl_out, spec_out):
    """C19 on the implementation: the command produced its output or stopped with an error message and a
    non-zero exit status; anything else is a crash"""
    st = impl_out.split()[0]
    if st == "ok" or (st.startswith("exit1:") and not st.startswith("exit1-nomessage")):
        return None
    try:
        cmdline = R.display(op)
    except Exception:
        cmdline = op
    if st.startswith("exc:"):
        typ, site, pkg = site_of(st)
        i = _parse_impl(impl_out)
        # the crash SITE: exception type + innermost verif function (+ which package raised, and the output
        # class / entry point the driver had selected); line numbers are reported but not part of the identity
        sig = {"kind": "crash", "exc": typ, "site": site, "raised": pkg,
               "cls": i.get("cls", "-"), "entry": i.get("entry", "-"), "owner": i.get("own", "-")}
        try:            # the dataset class: known findings may be tied to it (mixed kinds, NetCDF, …)
            c = R.parse_op(op)
            sig["bin"] = "within-type" if "within" in c["bin"] else "default" if c["bin"] == "-" else "one-sided"
            sig["nthr"] = "0" if c["r"] == "-" else str(len(c["r"].split(",")))
            dk, dn, dshape, dclim = R.parse_ds(c["ds"])
            sig.update({"dskind": dk, "dsshape": dshape, "files": str(dn),
                        "clim": "yes" if (dclim or c["clim"] != "-") else "no", "T": "yes" if c["T"] != "-" else "no"})
        except Exception:
            pass
        return (sig, "unhandled %s at %s: %s" % (typ, st.split("@", 1)[1], cmdline))
    if st.startswith("EXC:"):     # raised outside verif.driver.run (harness)
        return ({"kind": "harness", "exc": st[4:]}, "harness failure %s on %s" % (st, op))
    return ({"kind": "exit", "status": st.split(":")[0]},
            "stopped without an error message / with exit status 0 (%s): %s" % (st, cmdline))


def nontrivial(op, out):
    return out.startswith("ok")


def shrink(op):
    c = R.parse_op(op)
    kind, n, shape, clim = R.parse_ds(c["ds"])

    def mk(d):
        return _op(d["ds"], d["name"], d["axis"], d["type"], d["bin"], d["r"], d["q"], d["agg"], d["clim"], d["T"])
    for k in ("T", "clim", "agg", "bin", "q", "r", "axis"):
        if c[k] != "-":
            d = dict(c)
            d[k] = "-"
            yield mk(d)
    if shape != "reg":
        yield mk(dict(c, ds="%s%d%s" % (kind, n, "reg") + ("/c" + clim if clim else "")))
    if kind.startswith("mix"):
        for bk in ("det", "prob", "ens"):
            yield mk(dict(c, ds="%s%d%s" % (bk, n, shape) + ("/c" + clim if clim else "")))
    if n > 1:
        yield mk(dict(c, ds="%s%d%s" % (kind, n - 1, shape) + ("/c" + clim if clim else "")))


def extra_evidence(rows):
    status = collections.Counter()
    sites = collections.Counter()
    names, axes, types, datasets = set(), set(), set(), collections.Counter()
    for r in rows:
        st = r["impl"].split()[0]
        if st.startswith("exc:"):
            typ, site, pkg = site_of(st)
            sites["%s@%s^%s" % (typ, site, pkg)] += 1
            status["exc"] += 1
        else:
            status[st] += 1
        try:
            c = R.parse_op(r["op"])
            names.add(c["name"])
            axes.add(c["axis"])
            types.add(c["type"])
            datasets[c["ds"]] += 1
        except ValueError:
            pass
    dump = os.environ.get("C19_DUMP")
    if dump:                     # debugging aid: every op with its reply
        with open(dump, "w") as f:
            for r in rows:
                f.write("%s\t%s\t%s\n" % (r["op"], r["impl"], r["model"]))
    return {"outcomes": dict(status), "crash_sites": dict(sites), "names_covered": len(names),
            "axes_covered": len(axes), "types_covered": len(types), "datasets": dict(datasets)}
