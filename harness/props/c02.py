"""C02 — values are matched by coordinates, not by position or file order."""
import datagen as dg
import props.c01 as c01
from common import tokens_close

ID = "C02"
TARGETS = ["Proofs.C02", "Proofs.DataRefine"]
GEN_PREFIXES = []
THEOREMS = {"Proofs.C02": ["VerifModel.C02." + t for t in [
    "C02_index_correct", "C02_cut_is_lookup", "C02_indicesOf", "C02_index_is_lookup", "C02_perm_lookup"]],
    "Proofs.DataRefine": ["VerifModel.DataRefine." + t for t in [
        "getScores_refines", "specScores_invariant", "C02_order_irrelevant", "reindex_equiv",
        "C02_reordered_inputs", "C02_permuted_inputs"]]}
TRUSTED_BASE = c01.TRUSTED_BASE + [
    "text path: verif.input.Text on files written by harness/datagen.write_text (random column and row order)"]
ASSUMPTIONS = ["NoDup: no coordinate value is repeated inside one input (with repeats the first occurrence is used, "
               "which is order dependent by nature; getScores_refines itself holds with repeats, the order-irrelevance "
               "corollaries C02_reordered_inputs / reindex_equiv need NoDupCoords)",
               "MetaAgree: location metadata agree between files (they are taken from the first file)",
               "getScores_refines / C02_order_irrelevant: Data.init succeeds, arrays have the declared shapes (wfInput); "
               "C02_permuted_inputs: the first input stays first and stores the observations"]
RULE = ("data.req on datasets whose inputs list dimension entries in random, mutually different orders (a quarter of them "
        "with -d/-tod/-l/… subsets); "
        "data.perm: each dataset is re-submitted with every input's time/lead/location entries shuffled and the inputs "
        "rotated (implementation-only metamorphic relation); data.text: the same dataset through real text files with "
        "shuffled rows and columns; non-trivial = a request returns a finite value")
EXHAUSTIVE = {"quick": False, "thorough": False}
LEVEL_TEXT = ("Lean theorems: the index used for a common coordinate value is the first position holding that value in the "
              "input's own coordinate list; cutting is a lookup at those indices; index access equals lookup by value in "
              "the (coordinate, data) association list, and that lookup is invariant under any permutation of the list "
              "when no coordinate repeats. End to end (Proofs/DataRefine.lean): getScores_refines proves that every "
              "request to the index-based model returns the coordinate-based specification Spec/DataCoord.lean (values "
              "looked up by coordinate value); the specification depends on an input only through its coordinate function "
              "(specScores_invariant), hence C02_order_irrelevant: datasets with equivalent inputs get the same verified "
              "dimensions and the same answer to every request; concretely, listing any input's times / lead times / "
              "locations in another order with the data moved along (C02_reordered_inputs, NoDup) and giving the scored "
              "inputs other than the first in another order (C02_permuted_inputs) changes nothing. Tied to the real code "
              "by correspondence incl. a permutation layer and a text-file path; the Lean specification is evaluated "
              "next to the Python oracle on every data op.")
TECHNIQUE = c01.TECHNIQUE


def gen_ops(tier, rng):
    n = 150 if tier == "quick" else 3000
    for k in range(n):
        ds = dg.gen_dataset(rng)
        if k % 4 == 3:
            # with user subsets (-d, -tod, -l, …): matching by coordinate must survive the second index pass
            ds = dg.add_subset_options(ds, rng)
        dims = dg.oracle_dims(ds)
        if dims is None or not all(dims):
            continue
        reqs = dg.all_requests(ds, dims, rng, 25)
        yield "data.req", dg.enc_op(ds, reqs)
        if not dg.has_repeats(ds):
            yield "data.perm", dg.enc_op(ds, reqs[:12], head="dataperm %d" % rng.randrange(10 ** 6))
            if k % 3 == 0 and not ds.cfg.get("clim") and all("pit" not in I["fields"] or True for I in ds.inputs):
                ds2 = dg.DS([dict(I, fields={n: a for n, a in I["fields"].items() if n in ("obs", "fcst")}) for I in ds.inputs], {})
                reqs2 = [r for r in reqs if "pit" not in r[0]][:10]
                if all("fcst" in I["fields"] for I in ds2.inputs):
                    yield "data.text", dg.enc_op(ds2, reqs2, head="datatxt %d" % rng.randrange(10 ** 6))


def spec_op(op):
    if op.startswith("datatxt "):
        return c01.spec_op(" ".join(["data"] + op.split(" ")[2:]))
    return c01.spec_op(op)


def impl(op):
    if op.startswith("dataperm "):
        return dg.impl_perm(op)
    if op.startswith("datatxt "):
        return dg.impl_text(op)
    return dg.impl_data(op)


def cmp(op, impl_out, model_out):
    return tokens_close(impl_out, model_out, 1e-9, 1e-12)


def judge(op, impl_out, spec_out):
    if op.startswith("dataperm "):
        if impl_out != "same":
            return ({"kind": "order-dependence"}, "reordering dimension entries / input files changed a result: %s" % impl_out[:400])
        return None
    if op.startswith("datatxt "):
        a = op.split(" ")
        return c01.judge(" ".join(["data"] + a[2:]), impl_out, spec_out)
    return c01.judge(op, impl_out, spec_out)


nontrivial = c01.nontrivial
