"""C02 — values are matched by coordinates, not by position or file order."""
import datagen as dg
import props.c01 as c01
from common import tokens_close

ID = "C02"
TARGETS = ["Proofs.C02", "Proofs.DataRefine", "Proofs.DataFields"]
GEN_PREFIXES = []
THEOREMS = {"Proofs.C02": ["VerifModel.C02." + t for t in [
    "C02_index_correct", "C02_cut_is_lookup", "C02_indicesOf", "C02_index_is_lookup", "C02_perm_lookup"]],
    "Proofs.DataRefine": ["VerifModel.DataRefine." + t for t in [
        "getScores_refines", "specScores_invariant", "C02_order_irrelevant", "reindex_equiv",
        "C02_reordered_inputs", "C02_permuted_inputs"]],
    "Proofs.DataFields": ["VerifModel.DataFields." + t for t in [
        "getScoresF_refines", "commonSet_perm", "specDims_perm", "specScores_perm", "C02_any_permutation"]]}
TRUSTED_BASE = c01.TRUSTED_BASE + [
    "text path: verif.input.Text on files written by harness/datagen.write_text (random column and row order)"]
ASSUMPTIONS = ["NoDup: no coordinate value is repeated inside one input (with repeats the first occurrence is used, "
               "which is order dependent by nature; getScores_refines itself holds with repeats, the order-irrelevance "
               "corollaries C02_reordered_inputs / reindex_equiv need NoDupCoords)",
               "MetaAgree: location metadata agree between files (they are taken from the first file)",
               "getScores_refines / C02_order_irrelevant: Data.init succeeds, arrays have the declared shapes (wfInput); "
               "C02_permuted_inputs: the first input stays first and stores the observations; C02_any_permutation (any "
               "order of the scored inputs): every input and the climatology store their observations (otherwise which "
               "input lends its observations depends on the order) and the first inputs of the two orders list the same "
               "location records (MetaAgree for the first file)",
               "field kinds and -obs / -fcst FIELD: as C01"]
RULE = ("data.req on datasets whose inputs list dimension entries in random, mutually different orders (a quarter of them "
        "with -d/-tod/-l/… subsets, a fifth with -obs FIELD / -fcst FIELD) and store the PIT, CDF columns (thresholds in "
        "different orders / different sets per input), quantile columns, ensemble members (different sizes) and an "
        "other-score field (datagen.gen_dataset, see C01); "
        "data.perm: each dataset is re-submitted with every input's time/lead/location entries shuffled, the order of "
        "its stored fields (= the columns of its 4-D arrays) shuffled and the inputs "
        "given in a random order (any permutation, not only rotations; implementation-only metamorphic relation; no reordering when the files give a station different "
        "metadata and a lat/lon/elevation range is used); data.text: the same dataset through real text files with "
        "shuffled rows and columns and every field kind as a column (obs fcst pit p<t> q<q> e<k> other); "
        "cli.perm: the csv table of `verif f0 f1 [f2 f3] -m mae|rmse|ets -x AXIS -type csv` through verif.driver.run "
        "in-process against the same command with the files in another random order: axis cells identical, file columns "
        "(header and values) permuted along; "
        "non-trivial = a request returns a finite value")
EXHAUSTIVE = {"quick": False, "thorough": False}
LEVEL_TEXT = ("Lean theorems: the index used for a common coordinate value is the first position holding that value in the "
              "input's own coordinate list; cutting is a lookup at those indices; index access equals lookup by value in "
              "the (coordinate, data) association list, and that lookup is invariant under any permutation of the list "
              "when no coordinate repeats. End to end (Proofs/DataRefine.lean): getScores_refines proves that every "
              "request to the index-based model returns the coordinate-based specification Spec/DataCoord.lean (values "
              "looked up by coordinate value); the specification depends on an input only through its coordinate function "
              "(specScores_invariant), hence C02_order_irrelevant: datasets with equivalent inputs get the same verified "
              "dimensions and the same answer to every request; concretely, listing any input's times / lead times / "
              "locations in another order with the data moved along (C02_reordered_inputs, NoDup) and giving the scored "
              "inputs other than the first in another order (C02_permuted_inputs) — or, when every input stores its observations "
              "and the first files agree on the location records, in ANY other order (C02_any_permutation, "
              "Proofs/DataFields.lean) — changes nothing. Stored CDF / quantile columns, ensemble members, PIT and other "
              "scores are named fields of the model, so the theorems cover them (getScoresF_refines for -obs / -fcst "
              "FIELD); that the code finds them through the inputs' 4-D arrays by coordinate is the correspondence "
              "streams' part. Tied to the real code "
              "by correspondence incl. a permutation layer and a text-file path; the Lean specification is evaluated "
              "next to the Python oracle on every data op.")
TECHNIQUE = c01.TECHNIQUE


def gen_ops(tier, rng):
    n = 150 if tier == "quick" else 3000
    for k in range(n):
        ds = dg.gen_dataset(rng)
        if k % 4 == 3:
            # with user subsets (-d, -tod, -l, …): matching by coordinate must survive the second index pass
            ds = dg.add_subset_options(ds, rng)
        if k % 5 == 1:
            ds = dg.add_field_options(ds, rng)      # -obs FIELD / -fcst FIELD
        dims = dg.oracle_dims(ds)
        if dims is None or not all(dims):
            continue
        reqs = dg.all_requests(ds, dims, rng, 25)
        yield "data.req", dg.enc_op(ds, reqs)
        if k % 6 == 2:
            # a repeated location id inside one input (first entry is used): matched by value all the same; never
            # re-submitted with shuffled entries (NoDup)
            dsr = dg.with_repeated_location(ds, rng)
            if dg.oracle_dims(dsr) == dims:
                yield "data.replocs", dg.enc_op(dsr, reqs)
        if not dg.has_repeats(ds):
            yield "data.perm", dg.enc_op(ds, reqs[:12], head="dataperm %d" % rng.randrange(10 ** 6))
            if k % 3 == 0 and not ds.cfg.get("clim"):
                # every field kind through a real text file: obs fcst pit p<t> q<q> e<k> and other-score columns
                ds2 = dg.DS(ds.inputs, {})
                reqs2 = [r for r in dg.all_requests(ds2, dims, rng, 25)][:10]
                if all("fcst" in I["fields"] for I in ds2.inputs):
                    yield "data.text", dg.enc_op(ds2, reqs2, head="datatxt %d" % rng.randrange(10 ** 6))


def spec_op(op):
    if op.startswith("datatxt "):
        return c01.spec_op(" ".join(["data"] + op.split(" ")[2:]))
    return c01.spec_op(op)


def impl(op):
    if op.startswith("dataperm "):
        return dg.impl_perm(op)
    if op.startswith("datatxt "):
        return dg.impl_text(op)
    return dg.impl_data(op)


def cmp(op, impl_out, model_out):
    return tokens_close(impl_out, model_out, 1e-9, 1e-12)


def judge(op, impl_out, spec_out):
    if op.startswith("dataperm "):
        if impl_out != "same":
            return ({"kind": "order-dependence"}, "reordering dimension entries / input files changed a result: %s" % impl_out[:400])
        return None
    if op.startswith("datatxt "):
        a = op.split(" ")
        return c01.judge(" ".join(["data"] + a[2:]), impl_out, spec_out)
    return c01.judge(op, impl_out, spec_out)


nontrivial = c01.nontrivial


# ------------------------------------------------------------------ cli.perm: file order on the real command line
# "reordering the files on the command line only permutes the output columns accordingly": the csv table of
#   verif f0.txt f1.txt f2.txt -m mae|rmse|ets [-r 1] -x <axis> -type csv
# through verif.driver.run in-process, against the same command with the files in another (seeded, random) order:
# same header cell and same rows for the axis column, the file columns (header AND values) permuted along.
CLI_METRICS = [("mae", []), ("rmse", []), ("ets", ["-r", "1"])]
CLI_AXES = ["leadtime", "time", "location", "lat", "elev", "no", "leadtimeday"]


def _cli_ops(tier, rng):
    n = 12 if tier == "quick" else 150
    k = 0
    tries = 0
    while k < n and tries < 40 * n:
        tries += 1
        ds = dg.gen_dataset(rng, n_inputs=rng.choice([2, 3, 3, 4]), with_clim=False, kinds=[], force=("obs",),
                            missing=rng.choice([0.0, 0.0, 0.1]))
        if dg.has_repeats(ds) or not dg.meta_agree(ds):
            continue            # (NoDup / MetaAgree: see ASSUMPTIONS; location metadata are those of the first file)
        dims = dg.oracle_dims(ds)
        if dims is None or not all(dims):
            continue
        m = CLI_METRICS[k % 3][0]
        ax = rng.choice(CLI_AXES)
        yield "cli.perm", dg.enc_op(ds, [(("obs",), 0, "no", None)],
                                    head="cliperm %d %s %s" % (rng.randrange(10 ** 6), m, ax))
        k += 1


def _run_csv(paths, metric, axis):
    import contextlib
    import io
    import warnings
    import numpy as np
    import verif.driver
    extra = dict(CLI_METRICS)[metric]
    buf = io.StringIO()
    try:
        with contextlib.redirect_stdout(buf), contextlib.redirect_stderr(io.StringIO()), np.errstate(all="ignore"), \
                warnings.catch_warnings():
            warnings.simplefilter("ignore")
            verif.driver.run(["verif"] + list(paths) + ["-m", metric, "-x", axis, "-type", "csv"] + extra)
    except SystemExit:
        return "ERR"
    except Exception as e:
        return "EXC:" + type(e).__name__
    lines = [l for l in buf.getvalue().split("\n") if l.strip() and "Warning" not in l]
    return [l.split(",") for l in lines]


def _impl_cliperm(op):
    import os
    import random
    import shutil
    import tempfile
    a = op.split(" ")
    seed, metric, axis = int(a[1]), a[2], a[3]
    ds, _ = dg.dec_op(" ".join(["data"] + a[4:]))
    rng = random.Random(seed)
    d = tempfile.mkdtemp(prefix="verifc02cli")
    try:
        paths = []
        for k, I in enumerate(ds.inputs):
            p = os.path.join(d, "f%d.txt" % k)
            dg.write_text(I, p, rng)
            paths.append(p)
        order = list(range(len(paths)))
        while order == list(range(len(paths))):
            rng.shuffle(order)
        t0 = _run_csv(paths, metric, axis)
        t1 = _run_csv([paths[i] for i in order], metric, axis)
        if isinstance(t0, str) or isinstance(t1, str):
            return "same" if t0 == t1 else "diff[status %s vs %s]" % (t0 if isinstance(t0, str) else "ok",
                                                                     t1 if isinstance(t1, str) else "ok")
        if len(t0) != len(t1) or len(t0) < 2:
            return "diff[%d rows vs %d rows]" % (len(t0), len(t1))
        n = len(paths)
        finite = 0
        for r, (x, y) in enumerate(zip(t0, t1)):
            if len(x) != len(y) or len(x) < n + 1:
                return "diff[row %d: %d vs %d cells, %d files]" % (r, len(x), len(y), n)
            lead = len(x) - n            # cells of the axis (one; -x location has several)
            if x[:lead] != y[:lead]:
                return "diff[row %d axis cells %s -> %s]" % (r, ",".join(x[:lead]), ",".join(y[:lead]))
            want = [x[lead + i] for i in order]
            if r == 0 and sorted(x[lead:]) != sorted("f%d.txt" % i for i in range(n)):
                return "diff[header %s]" % ",".join(x)
            if y[lead:] != want:
                return "diff[row %d order %s: %s -> %s, expected %s]" % (
                    r, "".join(map(str, order)), ",".join(x[lead:]), ",".join(y[lead:]), ",".join(want))
            if r > 0:
                finite += sum(1 for c in x[lead:] if c not in ("nan", "", "inf", "-inf"))
        return "same" if finite else "same(all-nan)"
    finally:
        shutil.rmtree(d, ignore_errors=True)


_gen_ops0, _impl0, _spec_op0, _judge0, _cmp0, _nontrivial0 = gen_ops, impl, spec_op, judge, cmp, nontrivial


def gen_ops(tier, rng):
    for s in _gen_ops0(tier, rng):
        yield s
    for s in _cli_ops(tier, rng):
        yield s


def impl(op):
    return _impl_cliperm(op) if op.startswith("cliperm ") else _impl0(op)


def spec_op(op):
    return None if op.startswith("cliperm ") else _spec_op0(op)


def cmp(op, impl_out, model_out):
    if op.startswith("cliperm "):
        return True          # (implementation-only metamorphic relation, decided by judge; the model has no file order)
    return _cmp0(op, impl_out, model_out)


def judge(op, impl_out, spec_out):
    if op.startswith("cliperm "):
        if not impl_out.startswith("same"):
            a = op.split(" ")
            return ({"kind": "file-order", "metric": a[2]},
                    "verif <files> -m %s -x %s -type csv: giving the files in another order did not just permute the "
                    "columns: %s" % (a[2], a[3], impl_out[:400]))
        return None
    return _judge0(op, impl_out, spec_out)


def nontrivial(op, out):
    if op.startswith("cliperm "):
        return out == "same"
    return _nontrivial0(op, out)
