"""C16, views of a standard metric: -type rank, impact, map, maprank, mapimpact.

op line:   view <name> <opts> <dims> <in0> [<in1> ...]        (diaglib's dataset encoding; head "viewcli": through
                                                               verif.driver.run on text files)
reply:     <axes>:<kind>:<label>:<x>:<y>[:<col>...];...   |  -  |  ERR
   rank       one bar container per input + None:  x = left edges, y = heights, cols = widths, bottoms
   impact     two scatters (input 0 is worse, input 1 is worse): x, y = bin centres, col = marker areas;
              four bar containers x+ x- y+ y-: x = position along the axis (left edge / bottom), y = bar length
   map        one scatter per input: x = lon, y = lat, cols = marker area, colour values, colour limits
   maprank    per drawn input three scatters w (has a score), b (lowest), r (highest): x = lon, y = lat, col = area
   mapimpact  two scatters: x = lon, y = lat, col = marker areas
"""
import math
import warnings
from fractions import Fraction
import numpy as np
from common import xr, xvec, from_xr, from_xvec, num_close
import diaglib as D
import diagoracle as O

PREFIX = "view"
VIEWS = ["rank", "impact", "map", "maprank", "mapimpact"]
TARGETS = ["Proofs.C16Views"]
THEOREMS = {"Proofs.C16Views": ["VerifModel.C16Views." + t for t in [
    "C16v_argsort_perm", "C16v_argsort_sorted", "C16v_def_rank_row", "C16v_rank_row_once", "C16v_rank_counts_sum",
    "C16v_rank_total", "C16v_rank_series_order",
    "C16v_impact_bin", "C16v_def_impact_cell", "C16v_impact_cells_order", "C16v_impact_groups",
    "C16v_map_one_marker", "C16v_def_map", "C16v_map_series_order", "C16v_mapimpact_one_marker"]]}
GRID = [0.0, 0.5, 1.0, 1.5, 2.0, 3.0]
METRICS = ["mae", "bias", "rmse", "corr"]
ORIENT = {"mae": -1, "bias": 0, "rmse": -1, "corr": 1}
EDGES = [[0.0, 1.0, 2.0, 3.0], [0.0, 0.5, 1.0, 1.5, 2.0], [-0.5, 0.5, 1.5, 2.5, 3.5], [0.0, 1.5, 3.0], [0.5, 1.5]]
NAN = float("nan")


def is_view(op):
    return op.startswith("view ") or op.startswith("viewcli ")


# ------------------------------------------------------------------ datasets
def gen_ds(rng, name, F=None):
    """2-4 times x 2-4 lead times x 2-5 locations (some with equal lat/lon); observations and forecasts on a
    half-integer grid; an input may copy another input's forecasts (ties), be the observation plus a constant (equal
    mae), be constant within a lead time / location (corr undefined for that input only), miss single cells or a whole
    lead time / location"""
    if F is None:
        F = {"rank": rng.choice([2, 2, 3, 3]), "impact": 2, "mapimpact": 2}.get(name, rng.choice([1, 2, 2, 3]))
    T, L, X = rng.randint(2, 4), rng.randint(2, 4), rng.randint(2, 5)
    base = 1325376000.0
    times = [base + 86400 * i for i in range(T)]
    leads = sorted(rng.sample([0.0, 6.0, 12.0, 24.0, 30.0, 48.0], L))
    locs = []
    for i in range(X):
        if i > 0 and rng.random() < 0.25:
            j = rng.randrange(i)
            locs.append((float(10 * i + 1), locs[j][1], locs[j][2], 100.0 * i))       # same lat/lon as an earlier one
        else:
            locs.append((float(10 * i + 1), 40.0 + 1.5 * rng.randrange(6), 10.0 + 2.0 * rng.randrange(6), 100.0 * i))
    sh = (T, L, X)
    pm = rng.choice([0.0, 0.0, 0.1, 0.2])

    def arr(vals):
        return np.array([rng.choice(vals) for _ in range(T * L * X)], float).reshape(sh)
    obs = arr(GRID)
    inputs = []
    for f in range(F):
        fc = arr(GRID)
        u = rng.random()
        if f > 0 and u < 0.2:
            fc = inputs[rng.randrange(f)]["fcst"].copy()                       # identical forecasts: ties everywhere
        elif f > 0 and u < 0.4:
            src = inputs[rng.randrange(f)]["fcst"]
            dim = rng.choice([1, 2])
            idx = [slice(None)] * 3
            idx[dim] = rng.randrange(sh[dim])
            fc[tuple(idx)] = src[tuple(idx)]                                   # tie in one lead time / location
        elif u < 0.55:
            fc = obs + rng.choice([0.5, -0.5, 1.0])                            # equal absolute errors
        if rng.random() < 0.35:
            dim = rng.choice([1, 2])
            idx = [slice(None)] * 3
            idx[dim] = rng.randrange(sh[dim])
            fc[tuple(idx)] = rng.choice(GRID)                                  # constant: corr is NaN for this input only
        if pm:
            fc[np.array([rng.random() < pm for _ in range(T * L * X)]).reshape(sh)] = np.nan
        if rng.random() < 0.15:
            dim = rng.choice([1, 2])
            idx = [slice(None)] * 3
            idx[dim] = rng.randrange(sh[dim])
            fc[tuple(idx)] = np.nan                                            # a whole lead time / location missing
        inputs.append({"obs": obs.copy(), "fcst": fc})
    if pm and rng.random() < 0.5:
        miss = np.array([rng.random() < pm for _ in range(T * L * X)]).reshape(sh)
        for I in inputs:
            I["obs"][miss] = np.nan
    return D.DDS(times, leads, locs, inputs)


def gen_opts(rng, name):
    o = {"m": rng.choice(METRICS + ["mae", "corr"])}
    if name == "rank":
        o["x"] = rng.choice(["leadtime", "location", "time", "leadtime"])
    if name == "impact":
        o["m"] = "mae"
        o["r"] = rng.choice(EDGES)
    return o


def rank_draw_witness(rng):
    """3 inputs, corr: in one lead time the third input is constant (no correlation) while the first two tie"""
    T, L = 3, rng.choice([3, 4])
    times = [1325376000.0 + 86400 * i for i in range(T)]
    leads = [6.0 * i for i in range(L)]
    locs = [(1.0, 40.0, 10.0, 0.0)]
    obs = np.array([[rng.choice(GRID) for _ in range(L)] for _ in range(T)], float).reshape(T, L, 1)
    obs[:, 0, 0] = [0.0, 1.0, 2.0]
    ins = []
    for f in range(3):
        fc = np.array([[rng.choice(GRID) for _ in range(L)] for _ in range(T)], float).reshape(T, L, 1)
        fc[:, 0, 0] = [0.0, 1.0, 2.0] if f < 2 else [1.0, 1.0, 1.0]
        ins.append({"obs": obs.copy(), "fcst": fc})
    return D.DDS(times, leads, locs, ins)


def gen_ops(tier, rng):
    reps = {"rank": 30, "impact": 20, "map": 16, "maprank": 16, "mapimpact": 14} if tier == "quick" else \
           {"rank": 400, "impact": 250, "map": 150, "maprank": 150, "mapimpact": 150}
    for name in VIEWS:
        for k in range(reps[name]):
            F = None
            if k % 15 == 14 and name in ("rank", "impact", "mapimpact"):
                F = rng.choice([1, 3]) if name != "rank" else 1            # the view refuses this number of inputs
            ds = gen_ds(rng, name, F)
            yield "diag.view", D.enc_op(name, gen_opts(rng, name), ds, head="view")
    for k in range(2 if tier == "quick" else 12):
        yield "diag.view", D.enc_op("rank", {"m": "corr", "x": "leadtime"}, rank_draw_witness(rng), head="view")
    for k in range(8 if tier == "quick" else 80):
        name = rng.choice(VIEWS)
        o = gen_opts(rng, name)
        yield "diag.viewcli", D.enc_op(name, o, gen_ds(rng, name), head="viewcli")


# ------------------------------------------------------------------ implementation side
def _lab(s):
    return ("_" if (not s or s.startswith("_")) else s).replace(" ", "_").replace(":", "").replace(";", "")


def _fc_name(fc):
    if fc is None or len(fc) == 0:
        return "?"
    r, g, b = (round(float(v), 3) for v in fc[0][:3])
    return {(1.0, 1.0, 1.0): "w", (0.0, 0.0, 1.0): "b", (1.0, 0.0, 0.0): "r"}.get((r, g, b), "?")


def show(name, recs):
    if not recs:
        return "-"
    parts = []
    nbar = 0
    allc = [v for r in recs if r.get("c") is not None for v in r["c"]]
    flat = not allc or min(allc) == max(allc)          # a colour scale of zero length is widened by matplotlib: not compared
    for r in recs:
        head = "%d:%s:" % (r["ax"], r["kind"])
        if name == "rank":
            parts.append(head + ":".join([_lab(r["label"]), xvec(r["x"]), xvec(r["y"]), xvec(r["w"]), xvec(r["b"])]))
        elif r["kind"] == "bar":          # impact's marginal bars: x+ x- (position = left edge, length = height), y+ y- (bottom, width)
            lab = ["x+", "x-", "y+", "y-"][nbar] if nbar < 4 else "bar%d" % nbar
            pos, ln = (r["x"], r["y"]) if nbar < 2 else (r["b"], r["w"])
            nbar += 1
            parts.append(head + ":".join([lab, xvec(pos), xvec(ln)]))
        elif name == "map":
            parts.append(head + ":".join(["_", xvec(r["x"]), xvec(r["y"]), xvec(r["s"]), xvec(r["c"] if r["c"] is not None else []),
                                          xvec([] if flat else r["clim"])]))
        elif name == "maprank":
            parts.append(head + ":".join([_fc_name(r.get("fc")), xvec(r["x"]), xvec(r["y"]), xvec(r["s"])]))
        else:
            parts.append(head + ":".join([_lab(r["label"]), xvec(r["x"]), xvec(r["y"]), xvec(r["s"])]))
    return ";".join(parts)


def parse(reply):
    """-> [(ax, kind, label, x, y, [cols])]"""
    if reply in ("-", ""):
        return []
    out = []
    for p in reply.split(";"):
        a = p.split(":")
        out.append((int(a[0]), a[1], a[2], from_xvec(a[3]), from_xvec(a[4]), [from_xvec(t) for t in a[5:]]))
    return out


def impl(op):
    head, name, o, ds = D.dec_op(op)
    try:
        recs, names = (D.render_cli if head == "viewcli" else D.render)(name, dict(o), ds)
    except SystemExit:
        return "ERR"
    return show(name, D.select(name, recs, names))


# ------------------------------------------------------------------ Lean side
def _venc(cols):
    return "|".join(xvec(np.asarray(c, float).flatten()) for c in cols)


def view_axis(name, o):
    return o.get("x", "leadtime") if name == "rank" else "location"


def lean_op(op):
    import verif.field as vf
    import verif.axis
    head, name, o, ds = D.dec_op(op)
    if name not in VIEWS or o.get("m") not in METRICS:
        return "view %s unmodelled" % name
    with warnings.catch_warnings():
        warnings.simplefilter("ignore")
        with np.errstate(all="ignore"):
            data = D.build_data(ds)
            per = []
            for f in range(data.num_inputs):
                if name == "impact":
                    if f > 1 or data.num_inputs != 2:
                        per.append("obs=-;fcst=-")
                        continue
                    s = data.get_scores([vf.Obs(), vf.Fcst()], f)
                    per.append("obs=%s;fcst=%s" % (_venc([s[0]]), _venc([s[1]])))
                else:
                    ax = verif.axis.get(view_axis(name, o))
                    sl = [data.get_scores([vf.Obs(), vf.Fcst()], f, ax, i) for i in range(data.get_axis_size(ax))]
                    per.append("obs=%s;fcst=%s" % (_venc([s[0] for s in sl]), _venc([s[1] for s in sl])))
            locs = data.locations
    parts = ["m=" + o["m"], "flip=%d" % (1 if ORIENT[o["m"]] == 1 else 0),
             "worse=" + ("higher" if ORIENT[o["m"]] == 0 else "worse")]
    if "r" in o:
        parts.append("r=" + xvec(o["r"]))
    if name in ("map", "maprank", "mapimpact"):
        parts.append("lat=" + xvec([l.lat for l in locs]))
        parts.append("lon=" + xvec([l.lon for l in locs]))
    return "view %s %s %s" % (name, ";".join(parts), " ".join(per))


# ------------------------------------------------------------------ comparison model <-> implementation
def _vec_close(u, v, rtol=1e-9, atol=1e-9):
    return len(u) == len(v) and all(num_close(a, b, rtol, atol) for a, b in zip(u, v))


def _visible(A):
    """scatters whose marker areas are given per marker: drop markers of area < 1e-6 (a difference of two scores that
    are equal up to rounding)"""
    out = []
    for s in A:
        if s[1] == "pts" and len(s[5]) == 1 and len(s[5][0]) == len(s[3]) and len(s[3]) > 0:
            keep = [i for i, a in enumerate(s[5][0]) if not abs(a) < 1e-6]
            s = (s[0], s[1], s[2], [s[3][i] for i in keep], [s[4][i] for i in keep], [[s[5][0][i] for i in keep]])
        out.append(s)
    return out


def _same(A, B, rtol=1e-9, atol=1e-9):
    A, B = _visible(A), _visible(B)
    if len(A) != len(B):
        return False
    for s, t in zip(A, B):
        if s[:3] != t[:3] or not _vec_close(s[3], t[3], rtol, atol) or not _vec_close(s[4], t[4], rtol, atol):
            return False
        if len(s[5]) != len(t[5]):
            return False
        for k, (u, v) in enumerate(zip(s[5], t[5])):
            if k == 2 and (_flat_scale(u) or _flat_scale(v)):
                continue        # map: a colour scale of (nearly) zero length is widened by matplotlib: not compared
            if not _vec_close(u, v, rtol, atol):
                return False
    return True


def _flat_scale(c):
    return len(c) != 2 or c[0] != c[0] or c[1] != c[1] or not (c[1] - c[0] > 1e-6)


def cmp(op, impl_out, model_out):
    if model_out is None or model_out == "UNMODELLED":
        return True
    if impl_out.startswith("EXC:") or impl_out.startswith("EXIT:"):
        return True             # crashed: outside the model, the oracle reports it
    if impl_out.startswith("E") or model_out.startswith("E"):
        return impl_out == model_out
    try:
        A, B = parse(impl_out), parse(model_out)
    except (ValueError, IndexError):
        return False
    if _same(A, B, 1e-9, 1e-7 if " m=corr" in op or "m=corr;" in op else 1e-9):
        return True
    return _oracle(op)[1]        # a comparison on the edge of float rounding decides: either answer is accepted


# ------------------------------------------------------------------ the oracle (exact where the scores are rational)
def _frac(v):
    return Fraction(v)


def _isnan(v):
    return isinstance(v, float) and v != v


def score(m, ob, fc):
    """the metric of one slice; mae and bias exactly (Fraction), rmse and corr in floats"""
    if not ob:
        return NAN
    if m == "mae":
        return sum(abs(_frac(x) - _frac(y)) for x, y in zip(ob, fc)) / len(ob)
    if m == "bias":
        return sum(_frac(y) - _frac(x) for x, y in zip(ob, fc)) / len(ob)
    return O.metric_value(m, ob, fc)


def score_matrix(ds, m, axis):
    """rows = entries of the axis, columns = inputs; every input is scored on the cases that are valid in all inputs"""
    V = O.valid(ds, ["obs", "fcst"])
    xs, masks = O.axis_slices(ds, axis)
    return [[score(m, O.take(ds, f, "obs", V & mk), O.take(ds, f, "fcst", V & mk)) for f in range(len(ds.inputs))]
            for mk in masks]


class Edge(Exception):
    pass


def _close(a, b):
    if isinstance(a, Fraction) and isinstance(b, Fraction):
        return a == b
    return abs(float(a) - float(b)) <= 1e-9 * max(1.0, abs(float(a)), abs(float(b)))


def _lt(a, b, exact_eq_ok=True):
    """a < b; raises Edge when the comparison is decided by rounding (floats that are nearly equal; with
    exact_eq_ok=False also exactly equal rationals, whose float images need not compare the same way)"""
    if isinstance(a, Fraction) and isinstance(b, Fraction):
        if a == b and not exact_eq_ok:
            raise Edge()
        return a < b
    if float(a) == float(b):
        if not exact_eq_ok:
            raise Edge()
        return False
    if _close(a, b):
        raise Edge()
    return float(a) < float(b)


def _float_ties(ds, r):
    """scores computed in floats (rmse, corr) that are equal or nearly equal: which one is larger is decided by rounding,
    unless the two inputs hold the same forecasts (then the code computes the same number twice)"""
    for i in range(len(r)):
        for j in range(i):
            if not isinstance(r[i], Fraction) and _close(r[i], r[j]) and \
                    not np.array_equal(ds.inputs[i]["fcst"], ds.inputs[j]["fcst"], equal_nan=True):
                raise Edge()


def _sign(d):
    if isinstance(d, Fraction) or d == 0:
        return (d > 0) - (d < 0)
    if abs(d) < 1e-9:
        raise Edge()
    return (d > 0) - (d < 0)


def _variance(vals):
    n = len(vals)
    if all(isinstance(v, Fraction) for v in vals):
        mu = sum(vals) / n
        return sum((v - mu) ** 2 for v in vals) / n
    mu = sum(float(v) for v in vals) / n
    return sum((float(v) - mu) ** 2 for v in vals) / n


def _nearer(d, var):
    """|d| < sqrt(var) / 50, decided on squares"""
    return _lt(2500 * d * d, var, exact_eq_ok=False)


def want_rank(ds, o, code_draws=False):
    """-type rank.  Of the x-axis entries at which every input has a score ("fully valid"): an entry at which the first two
    inputs differ by less than 1/50 of the standard deviation of all scores is a draw; at every other one the inputs are
    ranked by ascending score (ties: the earlier input first; the order is reversed for positively oriented scores).
    Bar (input i, position j) = number of entries at which input i holds position j / number of fully valid entries.
    code_draws: also count as draws the entries at which the first two inputs tie but a later input has no score."""
    F = len(ds.inputs)
    rows = score_matrix(ds, o["m"], o.get("x", "leadtime"))
    full = [r for r in rows if not any(_isnan(v) for v in r)]
    if F < 2 or not full:
        return "ERR"
    var = _variance([v for r in rows for v in r if not _isnan(v)])
    cnt = [[0] * F for _ in range(F)]
    draws = 0
    for r in rows:
        ok = not any(_isnan(v) for v in r)
        if not ok and not (code_draws and not _isnan(r[0]) and not _isnan(r[1])):
            continue
        if _nearer(r[0] - r[1], var):
            draws += 1
            continue
        if not ok:
            continue
        _float_ties(ds, r)
        order = sorted(range(F), key=lambda i: (r[i], i))
        if ORIENT[o["m"]] == 1:
            order = order[::-1]
        for j, i in enumerate(order):
            cnt[i][j] += 1
    nv = len(full)
    table = cnt + [[draws] * F]
    out, acc = [], [Fraction(0)] * F
    for i, row in enumerate(table):
        h = [Fraction(c, nv) for c in row]
        out.append((0, "bar", "in%d" % i if i < F else "None", [j + 0.08 - 0.4 for j in range(F)], [float(v) for v in h],
                    [[0.8] * F, [float(v) for v in acc]]))
        acc = [a + b for a, b in zip(acc, h)]
    return out


def impact_cases(ds):
    V = O.valid(ds, ["obs", "fcst"])
    ob = O.take(ds, 0, "obs", V)
    return [(_frac(a), _frac(b), _frac(c)) for a, b, c in zip(ob, O.take(ds, 0, "fcst", V), O.take(ds, 1, "fcst", V))]


def want_impact(ds, o):
    """-type impact.  Bins (e_i, e_i+1] of the -r edges for the forecast of input 0 (x) and of input 1 (y); the cell
    (i, j) holds the sum over the common valid cases in it of (x - obs)^2 - (y - obs)^2; a circle at the bin centres,
    red group (input 0 is worse) for a positive sum, blue group for a negative one, area 400 |sum| / largest |sum|; bars
    along the axes: the same sum over all cases of a bin of x (of y)"""
    e = [_frac(v) for v in o.get("r", [])]
    if len(ds.inputs) != 2 or len(e) < 2:
        return "ERR"
    cs = impact_cases(ds)
    nb = len(e) - 1
    cen = [(e[i] + e[i + 1]) / 2 for i in range(nb)]
    inb = lambda i, v: e[i] < v <= e[i + 1]
    d = lambda c: (c[1] - c[0]) ** 2 - (c[2] - c[0]) ** 2
    cells = [(cen[i], cen[j], sum(d(c) for c in cs if inb(i, c[1]) and inb(j, c[2]))) for i in range(nb) for j in range(nb)]
    out = []
    big = max(abs(c[2]) for c in cells)
    if big > 0:
        for lab, sel in (("in0_is_worse", [c for c in cells if c[2] > 0]), ("in1_is_worse", [c for c in cells if c[2] < 0])):
            out.append((0, "pts", lab, [float(c[0]) for c in sel], [float(c[1]) for c in sel],
                        [[float(400 * abs(c[2]) / big) for c in sel]]))
    mx = [sum(d(c) for c in cs if inb(i, c[1])) for i in range(nb)]
    my = [sum(d(c) for c in cs if inb(i, c[2])) for i in range(nb)]
    largest = max(abs(v) for v in mx + my)
    w = (e[1] - e[0]) / 2
    ln = lambda v: float(abs(v) * (cen[-1] - cen[0]) / largest / 10) if largest else NAN
    for lab, m, pos, sgn in (("x+", mx, lambda i: e[i], 1), ("x-", mx, lambda i: e[i], -1),
                             ("y+", my, lambda i: cen[i] - w / 2, 1), ("y-", my, lambda i: cen[i] - w / 2, -1)):
        sel = [i for i in range(nb) if m[i] * sgn > 0]
        out.append((0, "bar", lab, [float(pos(i)) for i in sel], [ln(m[i]) for i in sel], []))
    return out


def _fl(v):
    return float(v)


def want_map(ds, o):
    """-type map: per input one subplot with one marker per location that has a score, at (lon, lat), coloured by the
    score on a colour scale common to all subplots (smallest .. largest score)"""
    rows = score_matrix(ds, o["m"], "location")
    allv = [_fl(v) for r in rows for v in r if not _isnan(v)]
    clim = [min(allv), max(allv)] if allv and min(allv) < max(allv) else []
    out = []
    for f in range(len(ds.inputs)):
        sel = [i for i, r in enumerate(rows) if not _isnan(r[f])]
        out.append((2 * f, "pts", "_", [ds.locs[i][2] for i in sel], [ds.locs[i][1] for i in sel],
                    [[64.0], [_fl(rows[i][f]) for i in sel], clim]))
    return out


def want_maprank(ds, o):
    """-type maprank: per input (two inputs: only the first) the locations with a score (white), and of those where every
    input has a score the ones where this input is the lowest (blue) / the highest (red) and further than 1/50 of the standard
    deviation of all scores from the mean of the inputs"""
    F = len(ds.inputs)
    rows = score_matrix(ds, o["m"], "location")
    allv = [v for r in rows for v in r if not _isnan(v)]
    var = _variance(allv) if allv else NAN
    out = []
    for f in range(1 if F == 2 else F):
        grp = {"w": [], "b": [], "r": []}
        for i, r in enumerate(rows):
            if not _isnan(r[f]):
                grp["w"].append(i)
            if any(_isnan(v) for v in r):
                continue
            mu = sum(r) / F
            _float_ties(ds, r)
            if F > 2 and not (var > 1e-18):
                raise Edge()            # all scores equal: the mean of three equal floats need not be that float
            for c, sgn, ext in (("r", 1, max(r)), ("b", -1, min(r))):
                d = (r[f] - mu) * sgn
                if r[f] == ext and _sign(d) > 0 and not _nearer(d, var):
                    grp[c].append(i)
        for c in ("w", "b", "r"):
            out.append((f, "pts", c, [ds.locs[i][2] for i in grp[c]], [ds.locs[i][1] for i in grp[c]], [[64.0]]))
    return out


def want_mapimpact(ds, o):
    """-type mapimpact: per location with a score in both inputs the difference score(input 0) - score(input 1) (sign
    flipped for positively oriented scores); a marker at (lon, lat) in the red group (input 0 is worse / higher) when
    positive, in the blue group when negative, area 400 |difference| / largest |difference|"""
    if len(ds.inputs) != 2:
        return "ERR"
    rows = score_matrix(ds, o["m"], "location")
    c = [(i, (r[0] - r[1]) * (-1 if ORIENT[o["m"]] == 1 else 1)) for i, r in enumerate(rows)
         if not _isnan(r[0]) and not _isnan(r[1])]
    if not c:
        return "ERR"
    for i, _ in c:
        _float_ties(ds, rows[i])            # equal up to rounding: the sign of the difference (and, when it is the largest, a full-size marker) is noise
    big = max(abs(v) for _, v in c)
    word = "higher" if ORIENT[o["m"]] == 0 else "worse"
    out = []
    for lab, sel in (("in0_is_" + word, [p for p in c if p[1] > 0]), ("in1_is_" + word, [p for p in c if p[1] < 0])):
        out.append((0, "pts", lab, [ds.locs[i][2] for i, _ in sel], [ds.locs[i][1] for i, _ in sel],
                    [[_fl(400 * abs(v) / big) for _, v in sel]]))
    return out


WANT = {"rank": want_rank, "impact": want_impact, "map": want_map, "maprank": want_maprank, "mapimpact": want_mapimpact}
_cache = {}


def _oracle(op):
    """-> (expected series | "ERR" | None, decided by rounding?)"""
    if op not in _cache:
        if len(_cache) > 50:
            _cache.clear()
        head, name, o, ds = D.dec_op(op)
        try:
            with np.errstate(all="ignore"):
                _cache[op] = (WANT[name](ds, o), False)
        except Edge:
            _cache[op] = (None, True)
    return _cache[op]


def _fmt(v):
    return "[" + ",".join("%.6g" % x for x in v[:12]) + ("..." if len(v) > 12 else "") + "]"


def _fmt_series(s):
    return "'%s' x=%s y=%s%s" % (s[2], _fmt(s[3]), _fmt(s[4]), "".join(" %s" % _fmt(c) for c in s[5]))


def judge(op, impl_out, spec_out):
    head, name, o, ds = D.dec_op(op)
    sig = {"diagram": name}
    a2 = op.split(" ")[2]
    if impl_out.startswith("EXC:") or impl_out.startswith("EXIT:"):
        return (dict(sig, kind="exception"), "-type %s %s ended in %s" % (name, a2, impl_out))
    want, edge = _oracle(op)
    if edge:
        return None
    if want == "ERR" or impl_out == "ERR":
        if want == impl_out:
            return None
        return (dict(sig, kind="exception" if impl_out == "ERR" else "no-error"),
                "-type %s %s with %d input(s): %s, expected %s" % (name, a2, len(ds.inputs), impl_out[:80],
                                                                  want if want == "ERR" else "a figure"))
    got = parse(impl_out)
    atol = 1e-7 if o.get("m") in ("corr", "rmse") else 1e-9
    if _same(got, want, 1e-9, atol):
        return None
    gl, wl = [g[:3] for g in got], [w[:3] for w in want]
    if gl != wl:
        kind = "series-order" if sorted(gl) == sorted(wl) else "series"
        return (dict(sig, kind=kind), "-type %s %s: drawn series %s, expected %s (one per input in command-line order)" %
                (name, a2, [g[2] for g in gl], [w[2] for w in wl]))
    kind = "definition"
    if name == "rank":
        try:
            alt = want_rank(ds, o, code_draws=True)
        except Edge:
            alt = None
        if alt is not None and _same(got, alt, 1e-9, atol):
            kind = "draw-on-invalid-row"
            tot = [sum(g[4][j] for g in got) for j in range(len(got[0][4]))]
            return (dict(sig, kind=kind), "-type rank %s: an x-axis entry at which an input has no score is counted as a draw "
                    "(series None = %s) although the fractions are taken over the fully valid entries only: the stacked bars reach %s "
                    "instead of 1" % (a2, _fmt(got[-1][4]), _fmt(tot)))
    for g, w in zip(got, want):
        if not _same([g], [w], 1e-9, atol):
            return (dict(sig, kind=kind), "-type %s %s: series %s, definition gives %s" % (name, a2, _fmt_series(g), _fmt_series(w)))
    return None


def nontrivial(op, out):
    if out.startswith("E") or out == "-":
        return False
    return any(t not in ("nan", "-", "") for p in out.split(";") for t in ",".join(p.split(":")[3:5]).split(","))
