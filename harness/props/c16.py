"""C16 — diagrams draw the quantities their definitions prescribe."""
import math
import random
import numpy as np
from common import xr, xvec, from_xr, from_xvec, num_close
import diaglib as D
import diagoracle as O
from props import c16v
from props import c16w

ID = "C16"
TARGETS = ["Proofs.C16", "Proofs.C16More", "Proofs.C16Std", "Proofs.C16Fss"] + c16v.TARGETS
GEN_PREFIXES = []
MODELLED = ["obsfcst", "qq", "scatter", "cond", "freq", "hist", "sort", "marginal", "reliability", "invreliability",
            "discrimination", "roc", "performance", "taylor", "error", "pithist", "spreadskill", "bsdecomp", "standard",
            "droc0", "droc", "against", "change", "igncontrib", "economicvalue", "murphy", "timeseries", "meteo"]
ORACLE_ONLY = []
VIEWS_MODELLED = ["rank", "impact", "map", "maprank", "mapimpact"]      # -type views of a standard metric: props/c16v.py
UNMODELLED = []
DISTANCE_MODELLED = ["fss", "autocorr", "autocov"]      # Model/DiagramFss.lean + exact-arithmetic oracle + read-back: props/c16w.py
ORACLE_ONLY_VIEWS = []
AXES = ["leadtime", "location", "time", "leadtimeday", "elev"]
TIME_AXES = ["month", "week", "year", "day", "timeofday", "dayofyear", "dayofmonth", "monthofyear"]
THEOREMS = {"Proofs.C16": ["VerifModel.C16." + t for t in [
    "C16_partition_ho", "C16_partition_oc", "C16_partition_hist", "C16_partition_ocf", "C16_bins_partition_last",
    "C16_bins_last_outside", "C16_bins_partition_reliability", "C16_bins_partition_invreliability",
    "C16_bins_partition_igncontrib", "C16_bins_partition_scatter", "C16_bins_partition_utilbin",
    "C16_bins_partition_discrimination", "C16_bins_partition_bsdecomp", "C16_bins_partition_first",
    "C16_bins_partition_spreadskill", "C16_bins_partition_pithist", "C16_bins_partition_hist",
    "C16_counts_total_last", "C16_counts_total_reliability", "C16_counts_total_first", "C16_counts_total_pithist",
    "C16_series_order", "C16_series_order_groups",
    "C16_series_labels", "C16_def_qq", "C16_def_sort", "C16_def_obsfcst", "C16_obsfcst_layout", "C16_def_marginal",
    "C16_def_reliability", "C16_relCases", "C16_invrelCases", "C16_def_invreliability", "C16_def_invreliability_levels",
    "C16_invreliability_levels_order", "C16_def_spreadskill",
    "C16_def_discrimination", "C16_def_roc_point", "C16_def_roc", "C16_roc_endpoints", "C16_def_pithist",
    "C16_pithist_bar_position", "C16_def_hist", "C16_def_freq", "C16_def_cond", "C16_def_performance",
    "C16_def_error", "C16_def_standard", "C16_def_bsdecomp", "C16_bsCases",
    "C16_def_taylor",
    "C16_fill_vertices", "C16_fill_no_nan", "C16_fill_length", "C16_fill_complete", "C16_fill_one_sided", "C16_def_fill",
    "C16_obsfcst_bands"]],
    "Proofs.C16More": ["VerifModel.C16." + t for t in [
        "C16_def_droc_point", "C16_def_droc", "C16_def_droc0", "C16_droc_default_thresholds", "C16_droc_endpoints",
        "C16_def_against_layers", "C16_def_against", "C16_against_pairs",
        "C16_def_change", "C16_changeCases", "C16_def_change_figure", "C16_bins_partition_change", "C16_counts_total_change",
        "C16_def_murphy_point", "C16_def_murphy",
        "C16_def_economicvalue", "C16_economicvalue_degenerate", "C16_economicvalue_ratios",
        "C16_def_igncontrib_partial", "C16_igncontrib_zero_prob", "C16_igncontrib_edges", "C16_counts_total_igncontrib",
        "C16_timeseries_valid_time", "C16_def_timeseries_runs", "C16_def_timeseries_obs", "C16_timeseries_layout",
        "C16_def_meteo_line", "C16_def_meteo_x", "C16_meteo_bands", "C16_meteo_quantile_order", "C16_meteo_layout"]]}
THEOREMS["Proofs.C16Std"] = ["VerifModel.C16." + t for t in [
    "C16_def_standard_threshold", "C16_standard_threshold_x", "C16_def_standard_axis", "C16_def_standard_single",
    "C16_standard_acc", "C16_standard_bars", "C16_standard_lines", "C16_std_cell_agg", "C16_std_cell_cont",
    "C16_std_cell_prob", "C16_obsfcst_default", "C16_def_obsfcst_agg"]]
THEOREMS.update(c16v.THEOREMS)
THEOREMS.update(c16w.THEOREMS)
TRUSTED_BASE = [
    "Lean 4.33 kernel; axioms propext, Classical.choice, Quot.sound only",
    "Spec/Diagram.lean, Spec/DiagramMore.lean: my reading of each diagram's defining statistic (Wilks; Taylor 2001; Roebber 2009; "
    "Murphy 1973; Richardson 2000 (value score from hit rate, false alarm rate, base rate); Roulston & Smith 2002 (ignorance); "
    "Ehm et al. 2016 / Dimitriadis et al. 2023 (elementary scores, Murphy diagram); verif help texts), and of 'binned range' = "
    "[first edge, last edge]",
    "Model/Diagram.lean, Model/DiagramMore.lean are hand-written from output.py / metric.py / util.bin and tied to the code only by "
    "the correspondence streams diag.artists / diag.cli / diag.sequence (differential testing, as good as the inputs they see)",
    "the harness: tagging of Axes.plot/bar/scatter/fill calls by their verif caller, the per-diagram rule that separates data "
    "series from decoration (diaglib.select), read-back of Line2D/Rectangle/PathCollection/Polygon data from the live figure at "
    "Output._save_plot; that matplotlib turns these artists into the picture is trusted; a Polygon's closing vertex "
    "(matplotlib repeats the first one) is removed by comparing the stored vertex count with the length of the call's argument",
    "the valid cases handed to the model are those Data.get_scores returns (C01-C04's subject); the oracle recomputes "
    "them from the raw arrays as 'every field finite in every input'",
    "IEEE rounding (tolerance 1e-9 relative; 1e-6 for float32 ensemble probabilities and for sin(arccos r), "
    "sqrt(rmse^2-me^2) near 0); cos(arccos r) = r and sin(arccos r) = sqrt(1-r^2); np.sort, np.histogram, np.percentile, "
    "np.median, np.corrcoef as modelled (Base/Vec, Model/Aggregator, Model/DetMetrics)",
    "sqrt as the parameter Tr; C16_def_taylor assumes |r| <= 1 (Cauchy-Schwarz for the real sqrt; NumPy clips)",
    "np.linspace (DRoc's 31 forecast thresholds, IgnContrib's edges, Murphy's thresholds, the cost-loss ratios) modelled in exact "
    "rational arithmetic (the values that meet the data grid - t, t+-2, 0, 1/8, 1/4, 1/2, 3/4, 1 - are exact in binary64 too); "
    "np.log2 = ln / ln 2 with ln from Tr (lawful: ln 1 = 0, increasing); Murphy's float32 accumulator and np.std/2*k/5 in "
    "Against within the tolerance 1e-6 / exact comparisons on the half-integer grid; np.unique(return_index) = first occurrence",
    "TimeSeries / Meteo: the (time, lead time, location) array of get_scores is handed to the model cell by cell in the order the "
    "code reduces it (location innermost for TimeSeries; runs innermost, then locations, for Meteo); datenum = unixtime / 86400",
    "standard line plots: Spec/DiagramStd.lean is my reading of the help texts of -x / -r / -acc / -agg (which score is drawn where); "
    "Model/DiagramStd.lean is hand-written from Standard._get_x_y / _plot_core and ObsFcst._get_x_y and tied to the code by "
    "diag.artists / diag.cli / diag.sequence; the score of one cell reuses the models of C05 (Gen.Det + Model/Aggregator), C06 "
    "(Model/Contingency) and C08 (Model/Prob kernels), the -acc model of C12 (Model/OutputTable.acc); the columns handed to the model "
    "are those Data.get_scores returns for each (interval, slice); bar read-back = left edge, height, width of the patches",
    "autocorr / autocov / fss: " + c16w.TRUSTED_TEXT,
    "views (-type rank/impact/map/maprank/mapimpact): Spec/DiagramViews.lean is my reading of the comments, labels and docstrings of "
    "verif.output.Standard (there is no help text beyond the list of -type values); Model/DiagramViews.lean is hand-written from "
    "_plot_rank_core / _plot_impact_core / _map_core / _plot_mapimpact_core and tied to the code by the stream diag.view; read-back of "
    "bar patches (left edge, height, width, bottom) and of scatter collections (offsets, sizes, colour array, colour limits, face "
    "colour) from the live figure; np.argsort on rows of 2-3 scores is stable on this NumPy (2.5, x86 SIMD sort: NOT for >= 4 inputs); "
    "comparisons that rounding decides (scores of different inputs that are equal in exact arithmetic but computed in floats, a "
    "difference exactly on the draw tolerance, all scores equal) are detected by the exact oracle and then not judged",
]
ASSUMPTIONS = [
    "inputs share their time / lead time / location coordinates (matching is C01-C03's subject); probabilities on a dyadic "
    "grid so that 1 - p and comparisons with bin edges are exact in binary64; at least one valid case",
    "bin edges strictly increasing; thresholds/quantile levels as given with -r / -q; diagrams that reject the 'within' "
    "family are run with below/below=/above/above= only",
    "cond: the bin representative on the conditioning axis is the median of the conditioning values "
    "(XConditional's default func; its docstring says mean)",
    "modelled + proved: " + ", ".join(MODELLED) + "; scatter's conditional-quantile curves only with -r (data-derived default "
    "edges are float linspace/percentile: not modelled, not checked); performance's potential curves (-simple off) not checked",
    "oracle only (no Lean model): " + (", ".join(ORACLE_ONLY) or "none"),
    "droc / droc0: -b below, below=, above, above= (a within type needs two thresholds: IndexError in the code), default forecast "
    "thresholds (not the Precip list, no -xlog/-ylog); against: 2 or 3 inputs, same cases in every input; igncontrib: fewer than "
    "11000 cases (N = 11 bins) in the tie, the theorems for every N, C16_def_igncontrib_partial for samples without a case that "
    "gave probability 0 to the outcome, C16_igncontrib_zero_prob for the +inf of a bin that holds such a case; economicvalue: cost-loss ratios in [0, 1]; "
    "timeseries: the same ensemble size in every input; meteo: one input, quantile levels distinct",
    "views of a standard metric, modelled + proved in part (props/c16v.py): " + ", ".join(VIEWS_MODELLED) + " for -m mae|bias|rmse|corr; "
    "rank with 2-3 inputs and -x leadtime|location|time (a draw is declared by the FIRST TWO inputs only, ties go to the earlier input, "
    "to the later one for positively oriented scores; with >= 4 inputs np.argsort breaks exact ties platform-dependently: not covered); "
    "impact with equidistant -r edges only (the code's cells are centre +- half the width of the FIRST bin: with other edges they are "
    "not the bins; reported, not in the stream), whatever -m is the contribution is the difference of the SQUARED errors (the "
    "docstring says MAE), -simple does not remove the marginal bars (the flag is tested as a bound method); the layout-dependent "
    "coordinates of impact's marginal bars (bottom of the x-axis bars = lower y-limit, left end of the y-axis bars) are not compared; "
    "maps without a background map (cartopy is not installed), marker colours as data values and colour limits (not compared when all "
    "scores are equal: matplotlib widens the scale), maprank's min/max marking and mapimpact's sizes by correspondence + oracle only (no theorem)",
    "standard line plots (Model/DiagramStd.lean, Proofs/C16Std.lean): -m mae|bias|rmse (with every aggregator of -agg: median, min, "
    "max, std, variance, iqr, range, count, sum, meanabs, absmean, change, abschange, a quantile level) and corr; the contingency "
    "scores " + ", ".join(O.CONT_METRICS) + " with -r (1-4 thresholds, also descending) and every -b type; the Brier family " +
    ", ".join(O.PROB_METRICS) + " on the stored thresholds 1 and 2 (below/above types, within types on [1, 2]); x-axis: the metric's "
    "default (threshold for the contingency and Brier scores), -x threshold, the data axes " + ", ".join(AXES) + ", the calendar axes " +
    ", ".join(TIME_AXES) + " (initialisation times then spread over several days / weeks / months / years), -x no (bar graph); -acc. "
    "On a data axis with SEVERAL thresholds the drawn value is the mean over the thresholds of the per-threshold scores (the code's "
    "'Average all thresholds'; no help text says so; modelled, proved and recomputed as such). A slice without a valid case: NaN for "
    "every metric-based score, also with -agg count (ObsFcst's own lines give count = 0 there). Not covered: -x obs / -x fcst, the "
    "default -r of the driver (20 linspace thresholds), quantile-type metrics (-q), dscore/edi/sedi/eds/seds/lor in the oracle (the "
    "model has them), ign0/spherical, -leg sort, smoothing line; the bar graph's bars are centred 0.4 left of their tick labels "
    "(matplotlib's default align='center' on x = linspace(1 - w/2, ...): cosmetic, the text label sits on the bar)",
    "obsfcst, qq, scatter: -agg (all aggregators above) on every line incl. the observation line and quantile lines; obsfcst -acc and "
    "-x no (bars: observation, forecasts in input order, quantile lines); -x for taylor / performance / bsdecomp / qq / scatter / "
    "obsfcst / standard also from the calendar axes; -hist / -sort also of the pit field of probabilistic inputs",
    "distance diagrams (Lean model Model/DiagramFss.lean + oracle props/c16w.py): " + ", ".join(DISTANCE_MODELLED) + " - " + c16w.ASSUMPTIONS_TEXT,
    "NOT covered at all: -x obs|fcst of standard plots; of the users of "
    "util.fill only the bands of obsfcst -q and meteo are read back from a diagram (the reliability confidence / no-skill areas "
    "and the timeseries bands are decoration here; util.fill itself is checked directly); a band vertex is 'missing' iff NaN "
    "(an infinite value is a vertex); equal lengths of x, lower, upper",
    "discrimination bar x-positions are layout (checked: bar centre inside its bin, default edges only); with one input the "
    "'observed' bar of the first bin starts 0.01 left of 0 and with non-uniform -q edges bars leave their bins (cosmetic: "
    "mpl.bar align='center')",
]
RULE = ("diag.artists: for each of 28 diagrams (all of them modelled) random datasets (deterministic / probabilistic with p<t>, q<level>, pit / "
        "ensemble e<k>; 1-3 inputs; 2-5 times x 2-3 lead times x 1-4 locations; values on a half-integer grid, probabilities "
        "on k/8 incl. 0 and 1, NaNs per cell and per lead time) x the diagram's options (-r, -q, -b, -x, -simple); the real "
        "Output.plot is run in-process, the artists read back and compared with (a) the Lean model on the vectors "
        "Data.get_scores returns and (b) an independent recomputation from the raw arrays; against with 2 or 3 inputs (3: six "
        "panels); diag.cli: the same through verif.driver.run on text files (also droc, change, against, igncontrib, economicvalue, "
        "murphy, timeseries); diag.bin: util.bin on random edges/values; an op is non-trivial if the figure "
        "holds at least one finite data point. diag.fill: the real verif.util.fill on a fresh Agg figure, the Polygon read back "
        "from the axes and compared exactly with Model.fillPolygon and with the rule written out in judge_fill: every "
        "missingness pattern of (lower, upper) for n <= 3 (quick: 85) / n <= 4 (thorough: 341), every pattern with a NaN in x for "
        "n <= 2 (52), 150 / 1500 random envelopes of length 4-14 with independent NaNs in lower, upper and x, unsorted x, "
        "+-inf, lower == upper. invreliability is drawn with one level or with 2-3 levels of -q in any order (60% of its "
        "random ops, also in diag.sequence and diag.cli), and on 24 / 144 further datasets — every ordered choice of two or "
        "three of the levels 0.25, 0.5, 0.75 x 1-2 (thorough: 3) inputs — whose quantile columns occupy different bins (25% values "
        "low, 75% values high, a rare stray value; 5 edge sets, one with a bin no level reaches), so that a bin well populated at "
        "one level is empty or holds a single case at another: each curve must be the statistic of its own level (no point "
        "below two cases, x = 0 in an empty bin; kind point-of-other-level otherwise). The band polygons of obsfcst -q (2 or 3 levels, also in descending order) and meteo are read "
        "back in diag.artists / diag.cli too, on 16 / 130 extra datasets per diagram (and a third of diag.cli) whose quantile "
        "columns lose whole lead times (times, locations) independently, so that the two quantile lines are missing at different x. "
        "diag.sequence: 2-3 diagrams drawn one after the other from ONE verif.data.Data object through the real verif.output "
        "classes (every ordered pair, also a diagram twice, of qq/scatter/freq, cond/error/taylor, hist/sort without -x — "
        "each group fetches one get_scores cache key: ((Obs, Fcst), input, none, None), (.., none, 0), ((field,), input, none, None) "
        "— 64 in quick, 384 in thorough; 30 / 300 random sequences over the det menu (+ performance, obsfcst, standard, "
        "against, change, droc, droc0, timeseries) and the prob menu (+ igncontrib, economicvalue, murphy, timeseries) with the usual options, prob diagrams on a common threshold); each diagram's artists are compared with "
        "the Lean model answering it as if it were alone, with the documented series, and with the same diagram drawn from a "
        "freshly built Data object (any difference: kind history-dependence). "
        "diag.view (props/c16v.py): for -type rank (30 / 400 datasets), impact (20 / 250), map, maprank (16 / 150 each), mapimpact "
        "(14 / 150) with -m mae|bias|rmse|corr: 1-3 inputs on 2-4 times x 2-4 lead times x 2-5 locations (a quarter of the locations "
        "repeat the lat/lon of an earlier one), an input copying another's forecasts everywhere or in one lead time / location (ties), "
        "observation + constant (equal absolute errors), constant within a lead time / location (corr undefined for that input "
        "only: a row with a missing score for some inputs), missing cells and whole lead times / locations; every 15th dataset has a "
        "number of inputs the view refuses (error expected); 2 / 12 regression datasets for the repaired draw-on-invalid-row defect "
        "(three inputs, corr, the first two tie where the third has no score); the real Output.plot_rank / plot_impact / map / "
        "plot_mapimpact run in-process, bar patches and scatter collections are read back and compared with the Lean model on the "
        "vectors Data.get_scores returns and with an exact-arithmetic (fractions.Fraction for mae/bias) recomputation from the raw arrays; "
        "diag.viewcli (8 / 80): the same through verif.driver.run -type <view> on text files. "
        "standard (in diag.artists on deterministic AND probabilistic datasets, diag.cli, diag.sequence): metric family drawn from "
        "det (mae/bias/rmse/corr, half of them with -agg) / contingency (19 scores, -r with 1-4 thresholds, 70% a -b type incl. the "
        "within family) / Brier family (8 scores on the stored thresholds); x = the default axis, -x threshold, a data axis, a "
        "calendar axis (month, week, year, day, timeofday, dayofyear, dayofmonth, monthofyear) or no; 30% -acc, most of these with a "
        "slice (not the last) emptied so that a missing score precedes defined ones. obsfcst: 35% -agg, 25% -acc, -x also no / "
        "calendar axes; qq / scatter / taylor / performance / bsdecomp: 40% -x incl. calendar axes, qq / scatter half of them with "
        "-agg; hist / sort also on probabilistic datasets with the pit field. " + c16w.RULE_TEXT)
EXHAUSTIVE = {"quick": False, "thorough": False}
EXHAUSTIVE_NOTE = ("random datasets; the partition / count / order / band-polygon theorems are unbounded; diag.fill is "
                   "exhaustive over the missingness patterns of two envelopes of up to 3 (quick) / 4 (thorough) points")
LEVEL_TEXT = ("Lean theorems: for the bin convention each diagram actually uses, every value of the binned range "
              "[first edge, last edge] lies in exactly one bin (full statements: PitHist, Reliability, InvReliability, "
              "Discrimination, IgnContrib, Scatter, util.bin — half-open bins, the last one closed; SpreadSkill — bins "
              "(lo, hi], the first one closed; BsDecomp; Hist/Freq/Cond) and the bin counts sum to the cases in range; PitHist "
              "bars span their bins; one series (group) per input in input "
              "order; the modelled series of 28 diagrams equal their defining statistics (reliability, invreliability "
              "— with several levels of -q the figure is, level by level in -q order, one curve per input, the curve at position "
              "t*F+k being the statistic of the cases of level t and input k alone —, "
              "discrimination, roc incl. end points, qq, sort, obsfcst, marginal, hist, freq, cond, pithist heights, "
              "spreadskill, bsdecomp, performance, taylor, error incl. the sign of the bias, standard mae/bias/rmse); the shaded "
              "band of util.fill (all inputs): its vertices are exactly the valid (x, lower) points in order followed by the valid "
              "(x, upper) points in reverse order, each envelope filtered on its own NaNs; no vertex has a NaN coordinate; 2n "
              "vertices when nothing is missing; a point missing in one envelope only keeps its other vertex; it is the Spec's "
              "band on Option-valued samples; obsfcst's bands are such polygons between the i-th and the i-th last quantile line. The "
              "model is a pure function of the dataset: a diagram drawn after others from the same Data object is compared with the "
              "model's (and the oracle's) answer for that diagram alone and with a fresh render. The "
              "model is tied to /repo by reading back the artists of the live figure. Proofs/C16More: droc / droc0 - every point is "
              "(false alarm rate, hit rate) of the 2x2 table of the events 'forecast in the -b event of the forecast threshold' / "
              "'observation in the -b event of -r', for all forecast thresholds, between (1,1) and (0,0); the default thresholds are 31 "
              "equally spaced values on [t-10, t+10]; against - per ordered pair of inputs all forecast pairs, the pairs with an "
              "observation and ten colour layers, layer k holding exactly the cases where one input's absolute error is smaller by more "
              "than k/10 of the observations' standard deviation; change - the binned cases are exactly the (obs[d]-obs[d-1], "
              "|obs[d]-fcst[d]|) of the cells valid in two consecutive runs, bins (e_{i-1}, e_i] with the first one closed partition "
              "[first, last], counts add up, each point is (mean change, MAE); igncontrib - per probability bin (mean p, -(bins/N) "
              "sum log2 p(outcome), count), counts add up, edges equally spaced with 11 <= N <= 25 (partial: no outcome given probability "
              "0; with such a case the bin is drawn at +inf, proved separately); economicvalue - where Richardson's value (E_clim - E_f)/(E_clim - E_perf) with E_f = F a (1-s) + H s a + (1-H) s is "
              "defined the diagram draws it, elsewhere 0 (all cost-loss ratios in [0,1]); murphy - the mean elementary score at each of "
              "21 thresholds; timeseries - forecast / member / quantile lines: one per run in run order at the valid times (init + lead) "
              "with the mean over the locations that have a value, the observation line: strictly increasing valid times, each with the "
              "value of the first (run, lead time) cell that has this valid time; meteo - every line is the mean over locations of the "
              "mean over runs at the valid times of the first run, quantile lines in ascending level whatever the order of -q, bands are "
              "util.fill polygons between the i-th lowest and i-th highest line. "
              "Views of a standard metric (Proofs/C16Views.lean): -type rank — np.argsort of a row is a "
              "permutation of the inputs (every input holds exactly one rank position in every ranked row) ordered by ascending score, "
              "equal scores in command-line order (Model = Spec for a fully valid row: draw iff the first two inputs are closer than the "
              "tolerance, else the ranking, reversed for positively oriented scores); per input the counts over all positions sum to the "
              "number of ranked rows, ranked + draws = fully valid rows (stacked fractions sum to 1), one bar container per input in "
              "command-line order then None; -type impact — for equidistant edges the code's cell test is the bin (lo, hi], a case "
              "contributes (x-obs)^2 - (y-obs)^2, cells in np.repeat x np.tile order, red iff > 0 / blue iff < 0 / none iff 0; -type map — "
              "every location with a score has exactly one marker (with multiplicity for equal coordinates), none without, in location "
              "order, colour values = the scores, one scatter per input in command-line order; mapimpact — a location is in exactly one "
              "group iff its difference is not zero. "
              "Standard line plots (Proofs/C16Std.lean): with -x threshold the figure has one point per threshold at the interval "
              "centre and its value is the score of THAT threshold on all cases - nothing is averaged over thresholds "
              "(C16_def_standard_threshold); on a data axis (or -x no) the value of slice j is the mean over the thresholds of the scores "
              "of slice j, with one threshold (or none) the score of slice j itself whatever its value (C16_def_standard_axis, "
              "_single); -acc: entry k is the running sum of the scores up to k, an undefined score counting as 0, i.e. the NaN "
              "replacement precedes the summation (C16_standard_acc, from C12_acc_full); -x no: one bar container, bar k = input k, "
              "[k + 1/5, k + 1] (C16_standard_bars); otherwise one line per input in input order (C16_standard_lines); the cells are "
              "the textbook scores: mae / bias / rmse with ANY aggregator in the place of the mean (C16_std_cell_agg, via GenEq.Det), "
              "ets / hit / far of the slice's 2x2 table, NaN where undefined, never inf (C16_std_cell_cont, via C06), the Brier family "
              "= C08's kernels on get_p's (event indicator, cdf(upper) - cdf(lower)) (C16_std_cell_prob); ObsFcst with -agg / -acc: "
              "the observation line and every forecast line carry the chosen aggregate of each slice, accumulated under -acc, "
              "and with the defaults it is the figure of C16_def_obsfcst (C16_def_obsfcst_agg, C16_obsfcst_default). "
              + c16w.LEVEL_TEXT_ADD)
TECHNIQUE = "Lean 4 proof over a model of each diagram's series; differential correspondence on the live figure's artists"

GRID = [0.0, 0.5, 1.0, 1.5, 2.0, 3.0]


# ------------------------------------------------------------------ datasets
def gen_dataset(rng, kind, F=None, big=False, band=False):
    """band: the quantile columns are missing independently of each other, each with whole lead times (or locations /
    times) knocked out, so that the quantile LINES of a diagram are missing at different x and the shaded band between
    them has one-sided points"""
    F = F or rng.choice([1, 2, 2, 3])
    T = rng.randint(3, 5) if big else rng.randint(2, 4)
    L = rng.randint(3, 5) if band else rng.randint(2, 3)
    X = rng.randint(3, 4) if big else rng.randint(1, 4)
    base = 1325376000.0
    times = [base + 86400 * i + rng.choice([0, 43200]) * (i == 1) for i in range(T)]
    leads = sorted(rng.sample([0.0, 6.0, 12.0, 24.0, 30.0, 48.0], L))
    locs = [(float(10 * i + 1), 40.0 + 1.5 * i, 10.0 + 2.0 * i, 100.0 * i) for i in range(X)]
    sh = (T, L, X)
    pm = rng.choice([0.0, 0.0, 0.05, 0.15])
    M = rng.choice([4, 8])      # same ensemble size in every input (different sizes crash TimeSeries: IndexError, C19's subject)

    def arr(vals, miss=True):
        a = np.array([rng.choice(vals) for _ in range(T * L * X)], float).reshape(sh)
        if miss and pm:
            a[np.array([rng.random() < pm for _ in range(T * L * X)]).reshape(sh)] = np.nan
        return a
    obs = arr(GRID)
    if rng.random() < 0.15:
        obs[:, rng.randrange(L), :] = np.nan            # a lead time without any valid case
    inputs = []
    for f in range(F):
        I = {"obs": obs.copy(), "fcst": arr(GRID)}
        if rng.random() < 0.3:
            I["fcst"] = np.where(np.isnan(I["fcst"]), np.nan, obs + rng.choice([0.0, 0.5, -0.5]))
        if f > 0 and pm and rng.random() < 0.5:
            I["obs"][np.array([rng.random() < pm for _ in range(T * L * X)]).reshape(sh)] = np.nan
        if kind == "prob":
            I["pit"] = arr([k / 16.0 for k in range(17)] + [0.0, 1.0])
            pgrid = [k / 8.0 for k in range(9)] + ([1.0, 1.0, 0.0] if rng.random() < 0.6 else [])
            p1 = arr(pgrid)
            p2 = np.minimum(1.0, p1 + arr([0.0, 0.125, 0.25, 0.5], miss=False))
            I["p@" + xr(1.0)], I["p@" + xr(2.0)] = p1, p2
            q = np.sort(np.stack([arr(GRID, miss=False) for _ in range(3)], axis=3), axis=3)
            miss = np.isnan(arr([0.0]))
            for j, lev in enumerate([0.25, 0.5, 0.75]):
                I["q@" + xr(lev)] = np.where(miss, np.nan, q[..., j])
                if band:
                    a = I["q@" + xr(lev)]
                    if rng.random() < 0.5:
                        a[np.isnan(arr([0.0]))] = np.nan                  # cells of its own
                    for _ in range(rng.choice([0, 1, 1, 2])):
                        dim = rng.choice([1, 1, 1, 0, 2])
                        idx = [slice(None)] * 3
                        idx[dim] = rng.randrange(sh[dim])
                        a[tuple(idx)] = np.nan                            # a whole lead time (time, location) of its own
        elif kind == "ens":
            miss = np.isnan(arr([0.0]))
            for e in range(M):
                I["e@%d" % e] = np.where(miss, np.nan, arr(GRID, miss=False))
        inputs.append(I)
    return D.DDS(times, leads, locs, inputs)


EDGES_DET = [[0.0, 1.0, 2.0, 3.0], [0.0, 0.5, 1.5, 3.0], [-1.0, 1.0, 4.0], [0.5, 1.0, 2.0]]
EDGES_P = [[0.0, 0.25, 0.5, 0.75, 1.0], [0.0, 0.5, 1.0], [0.0, 0.125, 0.375, 0.875]]
STD_DET = ["mae", "bias", "rmse", "corr"]
STD_CONT = list(O.CONT_METRICS)
STD_PROB = list(O.PROB_METRICS)
AGGS = ["median", "min", "max", "std", "variance", "iqr", "range", "count", "sum", "meanabs", "absmean", "change",
        "abschange", "0.25", "0.9"]


def knock_out_slice(rng, ds, axis):
    """-acc: a slice (not the last one) without any valid case, so that a missing score sits before defined ones"""
    dim = {"leadtime": 1, "location": 2, "elev": 2, "time": 0}.get(axis)
    if dim is None or ds.shape[dim] < 2:
        return
    idx = [slice(None)] * 3
    idx[dim] = rng.randrange(ds.shape[dim] - 1)
    for I in ds.inputs:
        I["obs"][tuple(idx)] = np.nan


def spread_times(rng, ds):
    """initialisation times that fall into different (and sometimes the same) days, weeks, months, years: used when a
    diagram is drawn against a calendar axis"""
    t = 1325376000.0 + 86400.0 * rng.choice([0, 3, 27, 58, 330, 360])
    out = []
    for _ in ds.times:
        out.append(t)
        t += rng.choice([21600.0, 43200.0, 86400.0, 86400.0, 5 * 86400.0, 20 * 86400.0, 40 * 86400.0])
    ds.times[:] = out


# every ordered choice of two or three of the stored quantile levels
INVREL_LEVELS = [(a, b) for a in (0.25, 0.5, 0.75) for b in (0.25, 0.5, 0.75) if a != b] + \
                [(a, b, c) for a in (0.25, 0.5, 0.75) for b in (0.25, 0.5, 0.75) for c in (0.25, 0.5, 0.75) if len({a, b, c}) == 3]
INVREL_EDGES = [[0.0, 1.0, 2.0, 3.0], [0.0, 0.5, 1.5, 3.0], [0.0, 1.0, 2.0, 3.0, 4.0], [-1.0, 1.0, 4.0], [0.5, 1.0, 2.0]]
INVREL_VALUES = {0.25: [0.0, 0.0, 0.5, 0.5, 1.0, 1.5], 0.5: [1.0, 1.0, 1.5, 1.5, 1.5, 2.0], 0.75: [2.0, 2.0, 3.0, 3.0, 2.0, 1.5]}


def gen_invrel_levels(rng, F):
    """a probabilistic dataset whose quantile columns live in different bins: the 25% values are low, the 75% values
    high, with a rare stray value, so that with the edges INVREL_EDGES a bin that is well populated at one level is
    empty or holds a single case at another level (where the curve of that level must have no point)"""
    ds = _with_cases(rng, "prob", F, False)
    for I in ds.inputs:
        for lev, vals in INVREL_VALUES.items():
            a = I["q@" + xr(lev)]
            new = np.array([rng.choice(vals) for _ in range(a.size)], float).reshape(a.shape)
            I["q@" + xr(lev)] = np.where(np.isnan(a), np.nan, new)
    return ds


def gen_options(rng, name, ds, band=False):
    o = {}
    if name in ("reliability", "discrimination", "roc", "igncontrib", "murphy", "economicvalue", "bsdecomp"):
        o["r"] = [rng.choice([1.0, 2.0])]
        if rng.random() < 0.6:
            o["b"] = rng.choice(["above", "above=", "below", "below="])
        if name in ("reliability", "discrimination", "roc") and rng.random() < 0.4:
            o["q"] = rng.choice(EDGES_P)
        if name in ("reliability", "roc") and rng.random() < 0.4:
            o["simple"] = True
        if name == "bsdecomp" and rng.random() < 0.4:
            o["x"] = rng.choice(["leadtime", "location"] + TIME_AXES)
            if o["x"] in TIME_AXES:
                spread_times(rng, ds)
    elif name in ("performance", "droc", "droc0"):
        o["r"] = [rng.choice([0.5, 1.0, 1.5, 2.0])]
        if rng.random() < 0.6:
            o["b"] = rng.choice(["above", "above=", "below", "below="])
        if name == "performance":
            if rng.random() < 0.7:
                o["simple"] = True
            if rng.random() < 0.4:
                o["x"] = rng.choice(["leadtime", "location"] + TIME_AXES)
                if o["x"] in TIME_AXES:
                    spread_times(rng, ds)
    elif name in ("cond", "freq", "hist"):
        o["r"] = rng.choice(EDGES_DET)
        if rng.random() < 0.5:
            o["b"] = rng.choice(["within=", "=within", "within", "=within="] + (["above", "below="] if name == "freq" else []))
        if name == "hist":
            o["m"] = rng.choice(["obs", "fcst"] + (["pit", "pit"] if "pit" in ds.inputs[0] else []))
            if o["m"] == "pit":
                o["r"] = rng.choice(EDGES_P + [[0.0, 0.2, 0.4, 0.6, 0.8, 1.0]])
    elif name == "sort":
        o["m"] = rng.choice(["obs", "fcst"] + (["pit", "pit"] if "pit" in ds.inputs[0] else []))
    elif name == "marginal":
        if rng.random() < 0.5 or not ds.thresholds():
            o["r"] = rng.choice([[1.0], [2.0, 1.0], [1.0, 2.0]])
        if rng.random() < 0.6:
            o["b"] = rng.choice(["above", "above=", "below", "below="])
    elif name == "invreliability":
        # one level, or several levels in one diagram (-q a,b[,c], any order): one group of curves per level
        o["q"] = [rng.choice([0.25, 0.5, 0.75])] if rng.random() < 0.4 else list(rng.choice(INVREL_LEVELS))
        o["r"] = rng.choice(EDGES_DET)
    elif name == "spreadskill":
        o["r"] = rng.choice([[0.0, 0.5, 1.0, 3.0], [0.0, 1.0, 2.0], [-1.0, 0.5, 1.5, 3.0]])
        if rng.random() < 0.4:
            o["q"] = rng.choice([[0.25, 0.75], [0.25, 0.5], [0.5, 0.25, 0.75]])
    elif name == "pithist":
        if rng.random() < 0.5:
            o["r"] = rng.choice(EDGES_P + [[0.0, 0.2, 0.4, 0.6, 0.8, 1.0]])
        if rng.random() < 0.3:
            o["simple"] = True
    elif name == "standard":
        fam = rng.choice(["det", "det", "cont", "cont", "prob" if ds.thresholds() else "cont"])
        if fam == "det":
            o["m"] = rng.choice(STD_DET)
            o["x"] = rng.choice(AXES + TIME_AXES + ["no"])
            if o["m"] != "corr" and rng.random() < 0.5:
                o["agg"] = rng.choice(AGGS)
        else:
            if fam == "cont":
                o["m"] = rng.choice(STD_CONT)
                o["r"] = rng.choice([[0.0, 1.0, 2.0], [1.0], [0.5, 1.5], [0.0, 1.0, 2.0, 3.0], [2.0, 0.5]])
            else:
                o["m"] = rng.choice(STD_PROB)
                o["r"] = rng.choice([[1.0], [2.0], [1.0, 2.0], [1.0, 2.0], [2.0, 1.0]])
            if rng.random() < 0.7:
                bts = ["above", "above=", "below", "below="]
                if len(o["r"]) >= 2 and (fam == "cont" or o["r"] == [1.0, 2.0]):
                    bts += ["within", "=within", "within=", "=within="]
                o["b"] = rng.choice(bts)
            u = rng.random()
            if u < 0.3:
                o["x"] = "threshold"
            elif u < 0.55:
                pass                                  # the metric's default axis: threshold
            else:
                o["x"] = rng.choice(AXES + TIME_AXES + ["no"])
        if rng.random() < 0.3:
            o["acc"] = True
            if rng.random() < 0.7:
                knock_out_slice(rng, ds, o.get("x"))
        if o.get("x") in TIME_AXES:
            spread_times(rng, ds)
    elif name == "obsfcst":
        o["x"] = rng.choice(AXES + ([] if band else TIME_AXES + ["no"]))
        if ds.quantiles() and (band or rng.random() < 0.4):
            o["q"] = rng.choice([[0.25, 0.75], [0.25, 0.5, 0.75], [0.75, 0.25]] if band else [[0.5], [0.25, 0.75]])
        if band and rng.random() < 0.7:
            o["x"] = "leadtime"
        if rng.random() < 0.35:
            o["agg"] = rng.choice(AGGS)
        if rng.random() < 0.25:
            o["acc"] = True
            if rng.random() < 0.7:
                knock_out_slice(rng, ds, o.get("x"))
        if o.get("x") in TIME_AXES:
            spread_times(rng, ds)
    elif name in ("qq", "scatter"):
        if rng.random() < 0.4:
            o["x"] = rng.choice(["leadtime", "location"] + TIME_AXES)
            if rng.random() < 0.5:
                o["agg"] = rng.choice(AGGS)
            if o["x"] in TIME_AXES:
                spread_times(rng, ds)
        if name == "qq" and ds.quantiles() and rng.random() < (0.9 if "agg" in o else 0.4):
            o["q"] = rng.choice([[0.5], [0.25, 0.75]])
        if name == "scatter":
            if rng.random() < 0.5:
                o["simple"] = True
            elif "x" not in o:
                o["r"] = rng.choice(EDGES_DET)
            else:
                o["simple"] = True
    elif name == "taylor":
        if rng.random() < 0.4:
            o["x"] = rng.choice(["leadtime", "location"] + TIME_AXES)
            if o["x"] in TIME_AXES:
                spread_times(rng, ds)
    elif name == "change":
        o["r"] = rng.choice([[-3.0, -1.0, 0.0, 1.0, 3.0], [-2.0, 0.0, 2.0]])
    elif name in ("timeseries", "meteo"):
        if ds.quantiles() and rng.random() < 0.5:
            o["q"] = rng.choice([[0.25, 0.75], [0.75, 0.25], [0.25, 0.5]] if band else [[0.5], [0.25, 0.75]])
    return o


KIND_OF = {"det": ["obsfcst", "qq", "scatter", "cond", "freq", "hist", "sort", "performance", "taylor", "error", "standard",
                   "droc", "droc0", "against", "change", "timeseries"],
           "prob": ["marginal", "reliability", "invreliability", "discrimination", "roc", "pithist", "spreadskill",
                    "bsdecomp", "murphy", "economicvalue", "igncontrib", "obsfcst", "qq", "timeseries", "meteo", "standard",
                    "hist", "sort"],
           "ens": ["reliability", "discrimination", "roc", "marginal", "bsdecomp", "timeseries", "murphy"]}
BIG = ("reliability", "invreliability", "igncontrib", "discrimination", "bsdecomp")


def _with_cases(rng, kind, F, big, band=False):
    """a dataset in which at least two cases are valid for every field of every input (band: for obs and fcst)"""
    for _ in range(20):
        ds = gen_dataset(rng, kind, F=F, big=big, band=band)
        if O.valid(ds, ["obs", "fcst"] if band else sorted(ds.inputs[0])).sum() >= 2:
            return ds
    return ds


# ------------------------------------------------------------------ util.fill called directly
FILL_LO = [0.0, 0.5, 1.0]
FILL_UP = [1.0, 2.0, 2.5]


def _fill_op(x, lo, up):
    return "fillpoly %s %s %s" % (xvec(x), xvec(lo), xvec(up))


def gen_fill_ops(tier, rng):
    """every missingness pattern of (lower, upper) for n <= 3 (quick) / n <= 4 (thorough), every pattern of
    (x, lower, upper) for n <= 2, and random longer envelopes (NaNs at independent positions, sometimes in x, sometimes
    an infinite value, lower == upper allowed)"""
    import itertools
    nan = float("nan")
    nmax = 3 if tier == "quick" else 4
    yield _fill_op([], [], [])
    for n in range(1, nmax + 1):
        x = [6.0 * i for i in range(n)]
        for pat in itertools.product(range(4), repeat=n):
            lo = [nan if p & 1 else FILL_LO[i % 3] for i, p in enumerate(pat)]
            up = [nan if p & 2 else FILL_UP[(i + 1) % 3] for i, p in enumerate(pat)]
            yield _fill_op(x, lo, up)
    for n in (1, 2):
        for pat in itertools.product(range(8), repeat=n):
            if not any(p & 4 for p in pat):
                continue
            yield _fill_op([nan if p & 4 else 6.0 * i for i, p in enumerate(pat)],
                           [nan if p & 1 else FILL_LO[i % 3] for i, p in enumerate(pat)],
                           [nan if p & 2 else FILL_UP[(i + 1) % 3] for i, p in enumerate(pat)])
    for _ in range(150 if tier == "quick" else 1500):
        n = rng.randint(4, 14)
        x0 = rng.choice([0.0, 734869.0, -3.0])
        x = [x0 + rng.choice([0.25, 1.0, 6.0]) * i for i in range(n)]
        if rng.random() < 0.2:
            x = x[::-1]
        pl, pu, px = rng.choice([0.1, 0.3, 0.6]), rng.choice([0.1, 0.3, 0.6]), rng.choice([0.0, 0.0, 0.15])
        inf = rng.random() < 0.1
        lo = [nan if rng.random() < pl else rng.choice(FILL_LO + ([-math.inf] if inf else [])) for _ in range(n)]
        up = [nan if rng.random() < pu else rng.choice(FILL_UP + ([math.inf] if inf else [])) for _ in range(n)]
        x = [nan if rng.random() < px else v for v in x]
        yield _fill_op(x, lo, up)


def extra_evidence(rows):
    per = {}
    for r in rows:
        a = r["op"].split(" ")
        if a[0] not in ("bin", "fillpoly"):
            for n in (["view." + a[1]] if c16v.is_view(r["op"]) else ["w." + a[1]] if c16w.is_w(r["op"]) else a[1].split("+")):
                per[n] = per.get(n, 0) + 1
    return {"modelled": MODELLED, "oracle_only": ORACLE_ONLY, "unmodelled": UNMODELLED, "renders_per_diagram": per}


# ------------------------------------------------------------------ several diagrams from one Data object
SEQ_SEP = "@@"
# get_scores cache keys (fields, input, axis, index) without -x:  qq scatter freq against: ((Obs, Fcst), none, None);
# cond error taylor performance: ((Obs, Fcst), none, 0);  hist sort against: ((field,), none, None);  change droc: (.., all, None);
# reliability roc discrimination igncontrib murphy economicvalue: ((Obs, Threshold t), none, None)
SEQ_DET = ["qq", "scatter", "freq", "cond", "error", "taylor", "hist", "sort"]
SEQ_DET_MORE = ["performance", "obsfcst", "standard", "against", "change", "droc", "droc0", "timeseries"]
SEQ_PROB = ["reliability", "roc", "discrimination", "bsdecomp", "marginal", "invreliability", "spreadskill", "pithist",
            "qq", "obsfcst", "igncontrib", "economicvalue", "murphy", "timeseries"]


def enc_seq(items, ds):
    return "diagseq %s %s %s" % ("+".join(n for n, _ in items), "+".join(D.enc_opts(o) for _, o in items), D.enc_ds(ds))


def seq_items(op):
    """-> ([(name, opts)], [the op line of each diagram drawn alone], dataset)"""
    a = op.split(" ")
    names, opts = a[1].split("+"), a[2].split("+")
    singles = [" ".join(["diag", n, o] + a[3:]) for n, o in zip(names, opts)]
    return [(n, D.dec_opts(o)) for n, o in zip(names, opts)], singles, D.dec_op(singles[0])[3]


def gen_seq_ops(tier, rng):
    """every ordered pair (also a diagram twice) of the menu SEQ_DET without -x (three groups of diagrams that fetch the
    same get_scores key, see above; hist and sort on the same field); then random sequences of 2-3 diagrams with their
    usual random options (det and prob menus; the prob diagrams share (Obs, Threshold t) keys)"""
    def opts_shared(name, ds):
        o = gen_options(rng, name, ds)
        o.pop("x", None)
        if name == "scatter" and "r" not in o:
            o["simple"] = True
        return o
    for rep in range(1 if tier == "quick" else 6):
        for n1 in SEQ_DET:
            for n2 in SEQ_DET:
                ds = _with_cases(rng, "det", None, False)
                o1, o2 = opts_shared(n1, ds), opts_shared(n2, ds)
                if "m" in o1 and "m" in o2:
                    o2["m"] = o1["m"]
                yield enc_seq([(n1, o1), (n2, o2)], ds)
    for _ in range(30 if tier == "quick" else 300):
        kind = rng.choice(["det", "det", "prob"])
        menu = SEQ_DET + SEQ_DET + SEQ_DET_MORE if kind == "det" else SEQ_PROB
        names = [rng.choice(menu) for _ in range(rng.choice([2, 3, 3]))]
        ds = _with_cases(rng, kind, rng.choice([2, 2, 3]) if "against" in names else None, any(n in BIG for n in names))
        t = rng.choice([1.0, 2.0])
        items = []
        for n in names:
            o = gen_options(rng, n, ds) if rng.random() < 0.5 or kind == "prob" else opts_shared(n, ds)
            if kind == "prob" and "r" in o and n in ("reliability", "roc", "discrimination", "bsdecomp", "igncontrib",
                                                     "economicvalue", "murphy"):
                o["r"] = [t]                    # the same threshold: the same (Obs, Threshold) key
            items.append((n, o))
        yield enc_seq(items, ds)


def gen_ops(tier, rng):
    for op in gen_fill_ops(tier, rng):
        yield "diag.fill", op
    for op in gen_seq_ops(tier, rng):
        yield "diag.sequence", op
    reps = 16 if tier == "quick" else 130
    for kind in ("det", "prob", "ens"):
        for name in KIND_OF[kind]:
            for _ in range(reps if kind != "ens" else max(2, reps // 3)):
                F = rng.choice([2, 2, 3]) if name == "against" else (1 if name == "meteo" else None)
                ds = _with_cases(rng, kind, F, name in BIG)
                o = gen_options(rng, name, ds)
                yield "diag.artists", D.enc_op(name, o, ds)
    # invreliability with several quantile levels whose values occupy different bins: every ordered choice of 2 or 3
    # levels x 1 or 2 inputs (quick: 24 ops)
    for rep in range(1 if tier == "quick" else 6):
        for j, levels in enumerate(INVREL_LEVELS):
            for F in (1, 2):
                ds = gen_invrel_levels(rng, F if rep < 3 else 3)
                o = {"q": list(levels), "r": INVREL_EDGES[(j + F + rep) % len(INVREL_EDGES)]}
                if rng.random() < 0.3:
                    o["simple"] = True
                yield "diag.artists", D.enc_op("invreliability", o, ds)
    for name in ("obsfcst", "meteo"):
        for _ in range(reps):
            ds = _with_cases(rng, "prob", 1 if name == "meteo" else None, False, band=True)
            o = gen_options(rng, name, ds, band=True)
            yield "diag.artists", D.enc_op(name, o, ds)
    for k in range(30 if tier == "quick" else 300):
        name = rng.choice(["reliability", "roc", "qq", "obsfcst", "pithist", "cond", "taylor", "hist", "marginal", "standard",
                           "invreliability", "droc", "change", "against", "igncontrib", "economicvalue", "murphy", "timeseries"])
        band = False
        if k % 3 == 0:
            name, band = rng.choice(["obsfcst", "meteo"]), True
        kind = "prob" if name in KIND_OF["prob"] else "det"
        ds = _with_cases(rng, kind, 1 if name == "meteo" else (2 if name == "against" else None), name in BIG, band=band)
        o = gen_options(rng, name, ds, band=band)
        if o.get("x") in ("location", "elev"):
            o["x"] = "leadtime"
        yield "diag.cli", D.enc_op(name, o, ds, head="diagcli")
    for _ in range(100 if tier == "quick" else 2000):
        n = rng.randint(0, 10)
        edges = rng.choice(EDGES_P + EDGES_DET)
        x = [rng.choice(edges + [0.25, 0.6, 1.25, float("nan")]) for _ in range(n)]
        y = [rng.choice(GRID + [float("nan")]) for _ in range(n)]
        yield "diag.bin", "bin %s %s %s" % (xvec(edges), xvec(x), xvec(y))
    for item in c16v.gen_ops(tier, rng):        # the views of a standard metric (rank, impact, maps): props/c16v.py
        yield item
    for item in c16w.gen_ops(tier, rng):        # autocorr, autocov, fss (oracle only): props/c16w.py
        yield item


# ------------------------------------------------------------------ implementation side
def impl(op):
    if c16v.is_view(op):
        return c16v.impl(op)
    if c16w.is_w(op):
        return c16w.impl(op)
    a = op.split(" ")
    if a[0] == "bin":
        import verif.util
        import warnings
        edges, x, y = (np.array(from_xvec(t), float) for t in a[1:4])
        with warnings.catch_warnings():
            warnings.simplefilter("ignore")
            xx, yy = verif.util.bin(x, y, edges)
            _, nn = verif.util.bin(x, np.ones(len(x)), edges, func=np.sum)
        return "%s:%s:%s" % (xvec(xx), xvec(yy), xvec(np.nan_to_num(nn)))
    if a[0] == "fillpoly":
        recs = D.fill_direct(*(from_xvec(t) for t in a[1:4]))
        if len(recs) > 1:
            return "POLYGONS:%d" % len(recs)
        return "%s:%s" % (xvec(recs[0]["x"]), xvec(recs[0]["y"])) if recs else "-"
    if a[0] == "diagseq":
        items, _, ds = seq_items(op)
        return SEQ_SEP.join(r if isinstance(r, str) else D.show(D.select(n, r[0], r[1]))
                            for (n, _), r in zip(items, D.render_seq(items, ds)))
    head, name, o, ds = D.dec_op(op)
    try:
        recs, names = (D.render_cli if head == "diagcli" else D.render)(name, o, ds)
    except SystemExit:
        return "ERR"
    return D.show(D.select(name, recs, names))


# ------------------------------------------------------------------ Lean side: the valid cases, fetched through get_scores
def _slices(data, fields, f, axis):
    import verif.axis
    ax = verif.axis.get(axis) if axis not in (None, "none", "no") else verif.axis.No()
    if ax == verif.axis.No():
        return [data.get_scores(fields, f, ax)]
    return [data.get_scores(fields, f, ax, i) for i in range(data.get_axis_size(ax))]


def _venc(cols):
    """list over slices of vectors -> v1|v2|..."""
    return "|".join(xvec(np.asarray(c, float).flatten()) for c in cols)


# ops whose Lean line could not be built because the code under test handed back arrays of an unexpected shape / type
# (lean_op reads the valid cases through the real Data.get_scores): op -> "<Type>: <message>".  This is a failure of the
# implementation, not of the harness: judge reports it (kind malformed-reply), cmp does not compare such an op.
_MALFORMED = {}


def lean_op(op):
    try:
        line = _lean_op(op)
        _MALFORMED.pop(op, None)
        return line
    except Exception as e:
        _MALFORMED[op] = "%s: %s" % (type(e).__name__, e)
        a = op.split(" ")
        return "%s %s unmodelled" % ("view" if c16v.is_view(op) else "diag", a[1] if len(a) > 1 else "-")


def _malformed_verdict(op):
    a = op.split(" ")
    name = a[1] if len(a) > 1 and a[0] != "diagseq" else a[0]
    return ({"diagram": name, "kind": "malformed-reply"},
            "%s %s: the arrays that the code under test returns for this input (Data.get_scores / get_axis_size, read "
            "to build the model's input) do not have the documented shape: %s" %
            (name, a[2] if len(a) > 2 else "", _MALFORMED[op]))


def _lean_op(op):
    if c16v.is_view(op):
        return c16v.lean_op(op)
    if c16w.is_w(op):
        return c16w.lean_op(op)
    a = op.split(" ")
    if a[0] in ("bin", "fillpoly"):
        return op
    if a[0] == "diagseq":       # the model is a pure function of the dataset: each diagram as if it were alone
        return "diagseq " + " // ".join(_lean_op(sop) for sop in seq_items(op)[1])
    import warnings
    import verif.field as vf
    import verif.axis
    head, name, o, ds = D.dec_op(op)
    if name not in MODELLED:
        return "diag %s unmodelled" % name
    if name == "scatter" and not o.get("simple") and "r" not in o:
        return "diag %s unmodelled" % name
    if name == "performance" and not o.get("simple"):
        o = dict(o, potential=True)      # potential curves are outside the model; compared on the points only
    with warnings.catch_warnings():
        warnings.simplefilter("ignore")
        with np.errstate(all="ignore"):
            data = D.build_data(ds)
            F = data.num_inputs
            per = []
            ax = o.get("x")
            lo = dict(o)
            for f in range(F):
                d = {}
                if name == "obsfcst":
                    ax = o.get("x", "leadtime")
                    d["obs"] = [s[0] for s in _slices(data, [vf.Obs(), vf.Fcst()], 0, ax)]
                    d["fcst"] = [s[0] for s in _slices(data, [vf.Fcst(), vf.Obs()], f, ax)]
                    for j, q in enumerate(o.get("q", [])):
                        d["q%d" % j] = [s[0] for s in _slices(data, [vf.Quantile(q), vf.Obs()], f, ax)]
                elif name in ("qq", "scatter"):
                    qs = o.get("q", []) if name == "qq" else []
                    sl = _slices(data, [vf.Obs(), vf.Fcst()] + [vf.Quantile(q) for q in qs], f, o.get("x", "none"))
                    d["obs"] = [s[0] for s in sl]
                    d["fcst"] = [s[1] for s in sl]
                    for j in range(len(qs)):
                        d["q%d" % j] = [s[2 + j] for s in sl]
                elif name == "standard":
                    # per interval i the columns get_scores hands to compute_single, slice after slice: o<i>, a<i>, b<i>
                    import verif.util
                    pl = D.make_output(name, o, data)
                    fam = "prob" if o["m"] in O.PROB_METRICS else "detcont"
                    lo["b"] = pl.bin_type
                    if pl.thresholds is not None:
                        lo["r"] = [float(t) for t in pl.thresholds]
                    axname = pl.axis.name().lower()
                    lo["xk"] = axname if axname in ("threshold", "no") else "data"
                    n = 1 if lo["xk"] != "data" else data.get_axis_size(pl.axis)
                    for i, iv in enumerate(verif.util.get_intervals(pl.bin_type, pl.thresholds)):
                        fields = [vf.Obs(), vf.Fcst()]
                        if fam == "prob":
                            fields = [vf.Obs()] + ([vf.Threshold(iv.lower)] if iv.lower != -np.inf else []) + \
                                     ([vf.Threshold(iv.upper)] if iv.upper != np.inf else [])
                        sl = [data.get_scores(fields, f, pl.axis, j) for j in range(n)]
                        d["o%d" % i] = [s[0] for s in sl]
                        if fam == "prob":
                            if iv.lower != -np.inf:
                                d["a%d" % i] = [s[1] for s in sl]
                            if iv.upper != np.inf:
                                d["b%d" % i] = [s[-1] for s in sl]
                        else:
                            d["a%d" % i] = [s[1] for s in sl]
                elif name in ("cond", "freq", "performance", "taylor", "error"):
                    ax = o.get("x", "none")
                    sl = _slices(data, [vf.Obs(), vf.Fcst()], f, ax)
                    d["obs"], d["fcst"] = [s[0] for s in sl], [s[1] for s in sl]
                elif name in ("hist", "sort"):
                    d["v"] = [data.get_scores(vf.get(o["m"]), f, verif.axis.No())]
                elif name == "marginal":
                    ts = o.get("r", list(data.thresholds))
                    lo["r"] = ts
                    for j, t in enumerate(ts):
                        s = data.get_scores([vf.Obs(), vf.Threshold(t)], f, verif.axis.No())
                        d["o%d" % j], d["p%d" % j] = [s[0]], [s[1]]
                elif name in ("droc", "droc0"):
                    s = data.get_scores([vf.Obs(), vf.Fcst()], f)               # the whole (time, lead time, location) array
                    d["obs"], d["fcst"] = [s[0]], [s[1]]
                elif name == "against":
                    d["fa"] = [data.get_scores(vf.Fcst(), f, verif.axis.No())]
                    s = data.get_scores([vf.Obs(), vf.Fcst()], f, verif.axis.No())
                    d["obs"], d["fcst"] = [s[0]], [s[1]]
                elif name == "timeseries":
                    # per run d one slice per lead time (the values over the locations), as get_scores(field, f) holds them
                    def runs(key, arr):
                        for t in range(arr.shape[0]):
                            d["%s%d" % (key, t)] = list(arr[t])
                    runs("obs", data.get_scores(vf.Obs(), f))
                    runs("fcst", data.get_scores(vf.Fcst(), f))
                    M = data.get_num_members(f)
                    d["nmem"] = [np.zeros(M)]
                    for m in range(M):
                        runs("e%d_" % m, data.get_scores(vf.Ensemble(m), f))
                    for j, q in enumerate(o.get("q", [])):
                        runs("q%d_" % j, data.get_scores(vf.Quantile(q), f))
                elif name == "meteo":
                    # per lead time l one slice per location (the values over the runs)
                    def leads(key, arr):
                        for l in range(arr.shape[1]):
                            d["%s%d" % (key, l)] = list(arr[:, l, :].T)
                    leads("obs", data.get_scores(vf.Obs(), f))
                    leads("fcst", data.get_scores(vf.Fcst(), f))
                    lo["q"] = [float(q) for q in (o["q"] if "q" in o else data.quantiles)]
                    for j, q in enumerate(lo["q"]):
                        leads("q%d_" % j, data.get_scores(vf.Quantile(q), f))
                elif name == "change":
                    s = data.get_scores([vf.Obs(), vf.Fcst()], f)
                    d["obs"], d["fcst"] = list(s[0]), list(s[1])               # one slice per initialisation time
                elif name in ("reliability", "discrimination", "roc", "bsdecomp", "igncontrib", "economicvalue", "murphy"):
                    sl = _slices(data, [vf.Obs(), vf.Threshold(o["r"][0])], f, o.get("x", "none"))
                    d["obs"], d["p"] = [s[0] for s in sl], [s[1] for s in sl]
                elif name == "invreliability":
                    for j, q in enumerate(o["q"]):       # every level of -q has its own valid cases
                        s = data.get_scores([vf.Obs(), vf.Quantile(q)], f, verif.axis.No())
                        d["obs%d" % j], d["q%d" % j] = [s[0]], [s[1]]
                elif name == "pithist":
                    d["pit"] = data.get_scores([vf.Pit()], f, verif.axis.No())
                elif name == "spreadskill":
                    qs = o.get("q", list(data.quantiles))
                    s = data.get_scores([vf.Obs(), vf.Fcst(), vf.Quantile(min(qs)), vf.Quantile(max(qs))], f, verif.axis.No())
                    d["obs"], d["fcst"], d["lo"], d["hi"] = [s[0]], [s[1]], [s[2]], [s[3]]
                per.append(";".join("%s=%s" % (k, _venc(v)) for k, v in d.items()))
            if name in ("timeseries", "meteo"):
                lo["tm"], lo["ld"] = [float(t) for t in data.times], [float(l) for l in data.leadtimes]
            axn = o.get("x", "leadtime" if name == "obsfcst" else "none")
            if name == "standard":
                axn = pl.axis.name().lower()
            if name == "obsfcst" and axn in ("none", "no"):
                lo["xk"] = "no"
            if axn not in ("none", "no", "threshold"):
                axo = verif.axis.get(axn)
                xs = data.get_axis_values(axo)
                if axo.is_time_like:
                    xs = [t / 86400.0 for t in xs]
                lo["ax"] = xs
    parts = []
    for k in ("m", "b", "r", "q", "simple", "ax", "tm", "ld", "agg", "acc", "xk"):
        if k in lo:
            v = lo[k]
            parts.append("%s=%s" % (k, xvec(v) if k in ("r", "q", "ax", "tm", "ld") else ("1" if v is True else v)))
    return "diag %s %s %s" % (name, ";".join(parts) if parts else "-", " ".join(per))


def spec_op(op):
    return None


# ------------------------------------------------------------------ comparison model <-> implementation
def _vec_close(u, v, rtol=1e-9, atol=1e-9):
    return len(u) == len(v) and all(num_close(a, b, rtol, atol) for a, b in zip(u, v))


def cmp(op, impl_out, model_out):
    if op in _MALFORMED:
        return True             # no model line could be built from the implementation's arrays: the oracle reports it
    if c16v.is_view(op):
        return c16v.cmp(op, impl_out, model_out)
    if c16w.is_w(op):
        return c16w.cmp(op, impl_out, model_out)
    if model_out is None or model_out == "UNMODELLED":
        return True
    a = op.split(" ")
    if a[0] == "bin":
        return all(_vec_close(from_xvec(x), from_xvec(y)) for x, y in zip(impl_out.split(":"), model_out.split(":"))) \
            and impl_out.count(":") == model_out.count(":")
    if a[0] == "fillpoly":
        return impl_out == model_out        # vertices are copied, not computed: exact
    if a[0] == "diagseq":
        A, B, singles = impl_out.split(SEQ_SEP), model_out.split(SEQ_SEP), seq_items(op)[1]
        if not len(A) == len(B) == len(singles):
            return impl_out.startswith("EXC:")
        return all(cmp(sop, x, y) for sop, x, y in zip(singles, A, B))
    if impl_out.startswith("EXC:") or impl_out.startswith("EXIT:"):
        return True             # the diagram crashed: outside the model, the oracle reports it
    if impl_out.startswith("E") or model_out.startswith("E"):
        return impl_out == model_out
    try:
        A, B = D.parse(impl_out), D.parse(model_out)
    except (ValueError, IndexError):
        return False
    if a[1] == "performance" and "simple" not in a[2]:
        A = [s for s in A if s[2] != "_"]
    if len(A) != len(B):
        return False
    atol = 1e-6 if a[1] in ("taylor", "error", "murphy") else 1e-9       # Murphy accumulates in a float32 array
    rtol = 1e-6 if ("e@0=" in op or a[1] == "murphy") else 1e-9            # ensemble-derived probabilities are float32 in verif
    for s, t in zip(A, B):
        if s[:3] != t[:3] or not _vec_close(s[3], t[3], rtol, atol) or not _vec_close(s[4], t[4], rtol, atol):
            return False
        if s[5] is not None and (t[5] is None or not _vec_close(s[5], t[5])):
            return False
    return True


# ------------------------------------------------------------------ the property oracle
def _fmt(v):
    return "[" + ",".join("%.6g" % x for x in v[:12]) + ("..." if len(v) > 12 else "") + "]"


def judge(op, impl_out, spec_out):
    if op in _MALFORMED:
        return _malformed_verdict(op)
    if c16v.is_view(op):
        return c16v.judge(op, impl_out, spec_out)
    if c16w.is_w(op):
        return c16w.judge(op, impl_out, spec_out)
    a = op.split(" ")
    if a[0] == "bin":
        return judge_bin(a, impl_out)
    if a[0] == "fillpoly":
        return judge_fill(a, impl_out)
    if a[0] == "diagseq":
        return judge_seq(op, impl_out)
    head, name, o, ds = D.dec_op(op)
    sig = {"diagram": name}
    if impl_out.startswith("EXC:") or impl_out.startswith("EXIT:") or impl_out == "ERR":
        return (dict(sig, kind="exception"), "%s %s ended in %s" % (name, a[2], impl_out))
    want = O.expected(name, o, ds)
    if want is None:
        return None
    got = D.parse(impl_out)
    lab = lambda s: "_" if s.startswith("_") or not s else s.replace(" ", "_")
    gl, wl = [(g[0], g[1], g[2]) for g in got], [(w[0], w[1], lab(w[2])) for w in want]
    if name == "performance" and not o.get("simple"):
        keep = [i for i, g in enumerate(gl) if g[2] != "_"]
        got, gl = [got[i] for i in keep], [gl[i] for i in keep]
    if gl != wl:
        kind = "series-order" if sorted(gl) == sorted(wl) else "series"
        return (dict(sig, kind=kind), "%s %s: drawn series %s, expected one per input in command-line order: %s" %
                (name, a[2], [g[2] for g in gl], [w[2] for w in wl]))
    bad = None
    for g, w in zip(got, want):
        atol = 1e-6 if name in ("taylor", "error") else 1e-9       # sin(arccos r) near r = 1 is ill-conditioned
        rtol = 1e-6       # probabilities are float32 in the code (stored cdf columns and ensemble-derived alike): eps 6e-8
        okx = True if w[3] is None else _vec_close(g[3], w[3], rtol, atol)
        oky = _vec_close(g[4], w[4], rtol, atol)
        okw = True if (len(w) < 6 or w[5] is None) else (g[5] is not None and _vec_close(g[5], w[5], 1e-7, 1e-9))
        if w[3] is None and len(w) > 6 and w[6] is not None and oky:
            # bars must lie inside their bins
            e = w[6]
            okx = len(g[3]) == len(e) - 1 and all(e[i] - 1e-9 <= g[3][i] + g[5][i] / 2 <= e[i + 1] + 1e-9
                                                  for i in range(len(g[3])))      # bar centre inside its bin
        if not (okx and oky and okw):
            bad = (g, w, okx, oky, okw)
            break
    if bad is None:
        return None
    g, w, okx, oky, okw = bad
    if g[1] == "poly":
        nanv = sum(1 for u, v in zip(g[3], g[4]) if u != u or v != v)
        return (dict(sig, kind="band"), "%s %s: the shaded band is the polygon x=%s y=%s (%d vertices, %d with a NaN "
                "coordinate); the lower envelope's valid points forward and the upper envelope's valid points backward "
                "are x=%s y=%s (%d vertices)" % (name, a[2], _fmt(g[3]), _fmt(g[4]), len(g[3]), nanv, _fmt(w[3]), _fmt(w[4]),
                                                len(w[3])))
    kind = "definition"
    bv = O.binned_values(name, o, ds)
    if name == "pithist" and oky:
        kind = "bar-position"
    elif name == "error" and okx and _vec_close(g[4], [-v for v in w[4]], 1e-7, 1e-9):
        kind = "bias-sign"
    elif name == "invreliability" and len(o["q"]) > 1 and len(g[4]) == len(w[4]) and len(g[3]) == len(w[3]) and \
            any((y != y and d == d) or (x == 0 and y != y and dx != 0) for dx, d, x, y in zip(g[3], g[4], w[3], w[4])):
        # a point where the level of this curve has fewer than two cases (or x != 0 in a bin without any case)
        F = len(ds.inputs)
        t, f = divmod([id(u) for u in got].index(id(g)), F)
        bins = [i for i, (dx, d, x, y) in enumerate(zip(g[3], g[4], w[3], w[4]))
                if (y != y and d == d) or (x == 0 and y != y and dx != 0)]
        return (dict(sig, kind="point-of-other-level"),
                "%s %s: the curve of quantile level %g (number %d of -q), input %d has a point in bin(s) %s where that level "
                "has fewer than two cases: drawn x=%s y=%s, the level's own statistics are x=%s y=%s" %
                (name, a[2], o["q"][t], t + 1, f, bins, _fmt(g[3]), _fmt(g[4]), _fmt(w[3]), _fmt(w[4])))
    elif bv is not None and any(O.edge_values(bv[0], v, bv[1]) for v in bv[2]):
        kind = "case-in-no-bin"
        lost = [O.edge_values(bv[0], v, bv[1]) for v in bv[2]]
        return (dict(sig, kind=kind), "%s %s: %s valid case(s) per input (and level of -q) with value equal to the %s edge %g of the binned range are "
                "in no bin (series '%s': drawn x=%s y=%s, with every case binned x=%s y=%s)" %
                (name, a[2], lost, "last" if bv[1] == "ho" else "first", bv[0][-1] if bv[1] == "ho" else bv[0][0], g[2],
                 _fmt(g[3]), _fmt(g[4]), _fmt(w[3] or []), _fmt(w[4])))
    return (dict(sig, kind=kind), "%s %s: series '%s' drawn x=%s y=%s%s, definition gives x=%s y=%s%s" %
            (name, a[2], g[2], _fmt(g[3]), _fmt(g[4]), " w=" + _fmt(g[5]) if g[5] else "", _fmt(w[3] or []), _fmt(w[4]),
             " w=" + _fmt(w[5]) if len(w) > 5 and w[5] else ""))


def _first_diff(got, alone):
    try:
        A, B = D.parse(got), D.parse(alone)
    except (ValueError, IndexError):
        return "'%s' / alone '%s'" % (got[:120], alone[:120])
    for g, w in zip(A, B):
        if g != w and not (g[:3] == w[:3] and _nan_same(g[3], w[3]) and _nan_same(g[4], w[4])):
            return "series '%s' x=%s y=%s / alone: series '%s' x=%s y=%s" % (g[2], _fmt(g[3]), _fmt(g[4]), w[2], _fmt(w[3]), _fmt(w[4]))
    return "%d series / alone: %d series" % (len(A), len(B))


def _nan_same(u, v):
    return len(u) == len(v) and all(p == q or (p != p and q != q) for p, q in zip(u, v))


def judge_seq(op, impl_out):
    """diagrams drawn one after the other from one Data object: each must be (a) the documented series of the dataset
    and (b) identical to what the same diagram draws from a freshly built Data object"""
    items, singles, ds = seq_items(op)
    names = [n for n, _ in items]
    parts = impl_out.split(SEQ_SEP)
    if len(parts) != len(items):
        return ({"diagram": "+".join(names), "kind": "exception"}, "sequence %s ended in %s" % ("+".join(names), impl_out[:200]))
    for i, ((name, o), sop) in enumerate(zip(items, singles)):
        alone = impl(sop)
        if parts[i] != alone:
            return ({"diagram": name, "kind": "history-dependence", "position": i, "after": "+".join(names[:i])},
                    "%s %s drawn as diagram %d of the sequence [%s] on one Data object differs from the same diagram drawn "
                    "from a freshly built Data object: %s" %
                    (name, op.split(" ")[2].split("+")[i], i + 1, ", ".join(names), _first_diff(parts[i], alone)))
        v = judge(sop, parts[i], None)
        if v is not None:
            return (dict(v[0], position=i), "diagram %d of the sequence [%s]: %s" % (i + 1, ", ".join(names), v[1]))
    return None


def judge_fill(a, impl_out):
    """util.fill: the polygon in the axes runs over the valid (x, lower) points forward, then over the valid (x, upper)
    points backward — each envelope dropping its own missing points — and has no NaN vertex; nothing is drawn when no
    point is valid.  Exact comparison (the vertices are copies of the arguments)."""
    x, lo, up = (from_xvec(t) for t in a[1:4])
    sig = {"diagram": "util.fill"}
    if impl_out.startswith("E") or impl_out.startswith("POLYGONS"):
        return (dict(sig, kind="exception"), "util.fill(%s, %s, %s) ended in %s" % (a[1], a[2], a[3], impl_out))
    X, Y = ([], []) if impl_out == "-" else (from_xvec(t) for t in impl_out.split(":"))
    same = lambda u, v: len(u) == len(v) and all(p == q for p, q in zip(u, v))       # NaN equals nothing
    nanv = sum(1 for u, v in zip(X, Y) if u != u or v != v)
    # the rule, stated independently of diagoracle.band_polygon: index lists first, then the vertices
    il = [i for i in range(len(x)) if not math.isnan(x[i]) and not math.isnan(lo[i])]
    iu = [i for i in range(len(x)) if not math.isnan(x[i]) and not math.isnan(up[i])]
    wx = [x[i] for i in il] + [x[i] for i in iu[::-1]]
    wy = [lo[i] for i in il] + [up[i] for i in iu[::-1]]
    ox, oy = O.band_polygon(x, lo, up)
    if not (same(wx, ox) and same(wy, oy)):
        return ({"kind": "oracle-crash"}, "the two statements of the band rule disagree on %s" % " ".join(a))
    if nanv == 0 and same(X, wx) and same(Y, wy):
        return None
    one = [i for i in range(len(x)) if not math.isnan(x[i]) and math.isnan(lo[i]) != math.isnan(up[i])]
    kind = "band-nan-vertex" if nanv else "band-vertices"
    return (dict(sig, kind=kind), "util.fill(x=%s, lower=%s, upper=%s): polygon x=%s y=%s has %d vertices (%d with a NaN "
            "coordinate); the %d valid lower points forward + the %d valid upper points backward are x=%s y=%s "
            "(points missing in one envelope only: indices %s)" %
            (a[1], a[2], a[3], _fmt(X), _fmt(Y), len(X), nanv, len(il), len(iu), _fmt(wx), _fmt(wy), one))


def judge_bin(a, impl_out):
    """util.bin: per bin the mean of x and of y over the members, every value of [first, last] in one bin"""
    edges, x, y = from_xvec(a[1]), from_xvec(a[2]), from_xvec(a[3])
    if impl_out.startswith("E"):
        return ({"diagram": "util.bin", "kind": "exception"}, impl_out)
    xx, yy, nn = (from_xvec(t) for t in impl_out.split(":"))
    bins = [[] for _ in edges[:-1]]
    for u, v in zip(x, y):
        if u == u:
            i = O.ref_bin(edges, u, "ho")
            if i is not None:
                bins[i].append((u, v))
    wx = [O.mean(u for u, _ in bn) for bn in bins]
    wy = [O.mean(v for _, v in bn if v == v) if any(v == v for _, v in bn) else O.NAN for bn in bins]
    wn = [float(len(bn)) for bn in bins]
    if _vec_close(xx, wx) and _vec_close(yy, wy) and _vec_close(nn, wn):
        return None
    if any(u == edges[-1] for u in x):
        return ({"diagram": "util.bin", "kind": "case-in-no-bin"},
                "util.bin edges %s: %d value(s) equal to the last edge are in no bin (counts %s, %d values in range)" %
                (a[1], sum(1 for u in x if u == edges[-1]), _fmt(nn), sum(len(bn) for bn in bins)))
    return ({"diagram": "util.bin", "kind": "definition"}, "util.bin(%s, %s, %s) = %s / %s, bin means are %s / %s" %
            (a[2], a[3], a[1], _fmt(xx), _fmt(yy), _fmt(wx), _fmt(wy)))


def nontrivial(op, out):
    if c16v.is_view(op):
        return c16v.nontrivial(op, out)
    if c16w.is_w(op):
        return c16w.nontrivial(op, out)
    if out.startswith("E") or out == "-":
        return False
    if op.startswith("fillpoly "):
        return True             # a polygon was drawn
    if op.startswith("diagseq "):
        return all(nontrivial("diag", p) for p in out.split(SEQ_SEP))
    return any(t not in ("nan", "-", "") for p in out.split(";") for t in ",".join(p.split(":")[3:]).split(","))
